(* Props/C13.v — pinned statements of property C13 (hash, HMAC and PBKDF2 functions equal the standard
   algorithms on every input; the streaming adapters are chunking-independent and their reversed mode is the
   byte reversal).  Statements only; proofs are in Proofs/HashApiProofs.v, Proofs/PrimHash.v and Prim/*.v.

   What is proved: everything the repository's own code adds on top of the external crates (compositions,
   adapter state machines, HMAC and PBKDF2 plumbing, argument order, block sizes, truncation), for all inputs,
   relative to the Gallina reference functions sha1 / sha256 / sha512 / ripemd160 (Prim/).
   What is NOT proved: that the external sha2 / sha-1 / ripemd160 crates compute those reference functions
   (and that hmac 0.11 / pbkdf2 0.8 behave as transcribed in Model/HashApi.v); this is tied by the
   correspondence check (tools/props/c13.py), i.e. by differential testing.                               *)
From BSV Require Import Base.Hex Prim.MD Prim.Sha256 Prim.Sha512 Prim.Sha1 Prim.Ripemd160 Prim.Hmac Prim.Pbkdf2
     Spec.HashSpec Model.HashApi Proofs.HashApiProofs Proofs.PrimHash.

(* 1. One-shot functions are the published functions / their Bitcoin compositions. *)
Theorem C13_sha_1 : forall m, sha_1 m = sha1 m.
Proof. exact sha_1_def. Qed.
Print Assumptions C13_sha_1.
Theorem C13_sha_256 : forall m, sha_256 m = sha256 m.
Proof. exact sha_256_def. Qed.
Print Assumptions C13_sha_256.
Theorem C13_sha_512 : forall m, sha_512 m = sha512 m.
Proof. exact sha_512_def. Qed.
Print Assumptions C13_sha_512.
Theorem C13_ripemd_160 : forall m, ripemd_160 m = ripemd160 m.
Proof. exact ripemd_160_def. Qed.
Print Assumptions C13_ripemd_160.
Theorem C13_sha_256d : forall m, sha_256d m = sha256 (sha256 m).
Proof. exact sha_256d_def. Qed.
Print Assumptions C13_sha_256d.
Theorem C13_hash_160 : forall m, hash_160 m = ripemd160 (sha256 m).
Proof. exact hash_160_def. Qed.
Print Assumptions C13_hash_160.

(* 2. Streaming adapters (Sha256d, Sha256r, Hash160): the result depends only on the concatenation of the
   chunks; reverse(), taken at any point, gives exactly the reversed bytes; reset forgets the data. *)
Theorem C13_adapter_chunking :
  forall k, chunking_independent ad_new ad_update (ad_finalize k) (hash_spec (adapter_id k)).
Proof. exact adapter_chunking. Qed.
Print Assumptions C13_adapter_chunking.

Theorem C13_reverse_is_rev :
  forall k chunks1 chunks2,
    ad_finalize k (fold_left ad_update chunks2 (ad_reverse (fold_left ad_update chunks1 ad_new)))
    = rev (hash_spec (adapter_id k) (List.concat (chunks1 ++ chunks2))).
Proof. exact reverse_is_rev. Qed.
Print Assumptions C13_reverse_is_rev.

Theorem C13_reset_forgets :
  forall k chunks a,
    ad_finalize k (fold_left ad_update chunks (ad_reset a)) =
    let h := hash_spec (adapter_id k) (List.concat chunks) in if a_reverse a then rev h else h.
Proof. exact reset_forgets. Qed.
Print Assumptions C13_reset_forgets.

Theorem C13_get_hash_digest :
  forall m, ad_finalize ASha256r (get_hash_digest SHSha256 m) = sha256 m
         /\ ad_finalize ASha256r (get_hash_digest SHSha256d m) = sha256 (sha256 m).
Proof. exact (fun m => conj (get_hash_digest_sha256 m) (get_hash_digest_sha256d m)). Qed.
Print Assumptions C13_get_hash_digest.

(* 3. The six HMAC functions are RFC 2104 over the respective (composite) hash with its block size;
   the API takes (input, key), RFC 2104 takes (key, text). *)
Theorem C13_hmac_sha1 : forall input key, sha_1_hmac input key = hmac sha1 64 key input.
Proof. exact sha_1_hmac_spec. Qed.
Print Assumptions C13_hmac_sha1.
Theorem C13_hmac_sha256 : forall input key, sha_256_hmac input key = hmac sha256 64 key input.
Proof. exact sha_256_hmac_spec. Qed.
Print Assumptions C13_hmac_sha256.
Theorem C13_hmac_sha512 : forall input key, sha_512_hmac input key = hmac sha512 128 key input.
Proof. exact sha_512_hmac_spec. Qed.
Print Assumptions C13_hmac_sha512.
Theorem C13_hmac_ripemd160 : forall input key, ripemd_160_hmac input key = hmac ripemd160 64 key input.
Proof. exact ripemd_160_hmac_spec. Qed.
Print Assumptions C13_hmac_ripemd160.
Theorem C13_hmac_sha256d :
  forall input key, sha_256d_hmac input key = hmac (fun m => sha256 (sha256 m)) 64 key input.
Proof. exact sha_256d_hmac_spec. Qed.
Print Assumptions C13_hmac_sha256d.
Theorem C13_hmac_hash160 :
  forall input key, hash_160_hmac input key = hmac (fun m => ripemd160 (sha256 m)) 64 key input.
Proof. exact hash_160_hmac_spec. Qed.
Print Assumptions C13_hmac_hash160.

(* hmac::Hmac<D> over any digest with the streaming law, message fed in pieces (this is also the HMAC that
   RFC 6979 nonce generation uses with D = Sha256r: plain HMAC-SHA256) *)
Theorem C13_crate_hmac_chunked :
  forall D H, streaming D H -> (forall x, length (H x) <= d_block D) ->
  forall key chunks,
    crate_hmac_finalize (fold_left crate_hmac_update chunks (crate_hmac_new D key))
    = hmac H (d_block D) key (List.concat chunks).
Proof. exact crate_hmac_chunked. Qed.
Print Assumptions C13_crate_hmac_chunked.

Theorem C13_hmac_sha256r :
  forall key msg,
    crate_hmac_finalize (crate_hmac_update (crate_hmac_new (adapter_impl ASha256r) key) msg) = hmac_sha256 key msg.
Proof. exact sha256r_hmac_spec. Qed.
Print Assumptions C13_hmac_sha256r.

(* 4. KDF::pbkdf2_impl is RFC 2898 PBKDF2 with HMAC-SHA1/256/512 for every iteration count and output length
   (up to 2^32 - 1 blocks when overflow checks are on; unconditionally when they are off). *)
Theorem C13_pbkdf2 :
  forall oc pw salt algo rounds outlen,
    (N.of_nat outlen <= 4294967295 * N.of_nat (pbkdf2_outsize algo))%N ->
    pbkdf2_impl oc pw salt algo rounds outlen
    = Ok {| kdf_hash := pbkdf2 (hmac (hash_spec (pbkdf2_id algo)) (hash_block (pbkdf2_id algo)))
                               (hash_len (pbkdf2_id algo)) pw salt rounds outlen;
            kdf_salt := salt |}.
Proof. exact pbkdf2_impl_spec. Qed.
Print Assumptions C13_pbkdf2.

Theorem C13_pbkdf2_release :
  forall pw salt algo rounds outlen,
    pbkdf2_impl false pw salt algo rounds outlen
    = Ok {| kdf_hash := pbkdf2_spec (pbkdf2_id algo) pw salt rounds outlen; kdf_salt := salt |}.
Proof. exact pbkdf2_impl_spec_release. Qed.
Print Assumptions C13_pbkdf2_release.

Theorem C13_pbkdf2_output_length :
  forall oc pw salt algo rounds outlen k,
    pbkdf2_impl oc pw salt algo rounds outlen = Ok k -> length (kdf_hash k) = outlen /\ kdf_salt k = salt.
Proof. exact pbkdf2_output_length. Qed.
Print Assumptions C13_pbkdf2_output_length.

(* 5. About the references themselves. *)
Theorem C13_hash_lengths :
  forall m, length (sha1 m) = 20 /\ length (sha256 m) = 32 /\ length (sha512 m) = 64 /\ length (ripemd160 m) = 20.
Proof. exact hash_output_lengths. Qed.
Print Assumptions C13_hash_lengths.

Theorem C13_padding :
  forall m, length (pad_be64 m) mod 64 = 0 /\ length (pad_le64 m) mod 64 = 0 /\ length (pad_be128 m) mod 128 = 0.
Proof. exact padding_block_multiple. Qed.
Print Assumptions C13_padding.

Theorem C13_padding_injective :
  forall m1 m2, (N.of_nat (length m1) < 2 ^ 61)%N -> (N.of_nat (length m2) < 2 ^ 61)%N ->
    (pad_be64 m1 = pad_be64 m2 -> m1 = m2) /\ (pad_le64 m1 = pad_le64 m2 -> m1 = m2)
    /\ (pad_be128 m1 = pad_be128 m2 -> m1 = m2).
Proof. exact (fun m1 m2 B1 B2 => conj (pad_be64_inj m1 m2 B1 B2) (conj (pad_le64_inj m1 m2 B1 B2) (pad_be128_inj m1 m2 B1 B2))). Qed.
Print Assumptions C13_padding_injective.

Theorem C13_hmac_lengths :
  forall k m, length (hmac_sha1 k m) = 20 /\ length (hmac_sha256 k m) = 32 /\ length (hmac_sha512 k m) = 64
           /\ length (hmac_ripemd160 k m) = 20.
Proof. exact hmac_output_lengths. Qed.
Print Assumptions C13_hmac_lengths.

Theorem C13_pbkdf2_lengths :
  forall pw salt c dklen,
    length (pbkdf2_hmac_sha1 pw salt c dklen) = dklen /\ length (pbkdf2_hmac_sha256 pw salt c dklen) = dklen
    /\ length (pbkdf2_hmac_sha512 pw salt c dklen) = dklen.
Proof. exact pbkdf2_output_lengths. Qed.
Print Assumptions C13_pbkdf2_lengths.

(* non-vacuity: concrete values.  tests/hash.rs: sha256d("Hello, Bitcoin.");  HMAC over the composite digest
   with a key longer than the block (python: generic RFC 2104 with H = sha256(sha256(.)), B = 64);
   RFC 6070 vector 2 through the modelled API. *)
Example C13_nonvacuous :
  hex_of_bytes (sha_256d (bytes_of_string "Hello, Bitcoin."))
    = "dd22c3760a8e683ae7eaa0635a3cdba785970e442fb7908ce1d897ea43f16b72"
  /\ hex_of_bytes (sha_256d_hmac (bytes_of_string "Hi There") (repeat xaa 131))
    = "dcb07837ebc6ec648fcfb4617c3fc07d7788c3bacb397b55f5284269ba64c38a"
  /\ hex_of_bytes (hash_160_hmac (bytes_of_string "Hi There") (repeat xaa 131))
    = "9a686bd19848c4f81f15dd040d6a66110e398485"
  /\ omap (fun k => hex_of_bytes (kdf_hash k))
          (pbkdf2_impl true (bytes_of_string "password") (bytes_of_string "salt") PSHA1 2 20)
    = Ok "ea6c014dc72d6f8ccd1ed92ace1d41f0d8de8957"
  /\ hex_of_bytes (ad_finalize ASha256d (fold_left ad_update [bytes_of_string "Hello, "; []; bytes_of_string "Bitcoin."]
                                                   (ad_reverse ad_new)))
    = "726bf143ea97d8e18c90b72f440e9785a7db3c5a63a0eae73a688e0a76c322dd".
Proof. repeat split; vm_compute; reflexivity. Qed.
