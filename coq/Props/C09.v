(* Props/C09.v — pinned statements of property C09 for the decoders whose logic lives in this repository and is
   modelled: they return a value or an error on EVERY input (never Panic), refuse a declared length that exceeds the
   remaining input before reading or allocating it, and their count loops are bounded by the input length, never by a
   declared count.  Decoders of other properties add their own totality theorems in their own Props files
   (C06 from_compact_total, C07 from_wif_total, C11 from_bytes_total, C16 step_total, C20 api_total); the external
   JSON / CBOR / DER / Base58 / hex crates are exercised by the correspondence run only. *)
From BSV Require Import Base.Hex Model.Opcodes Model.Script Model.VarInt Model.Tx Spec.ScriptTok
  Proofs.ScriptProofs Proofs.DecoderProofs Model.AesApi Proofs.AesApiProofs.

Theorem C09_script_total : forall bs, from_bytes bs <> Panic.
Proof. exact from_bytes_no_panic. Qed.
Print Assumptions C09_script_total.

Theorem C09_tx_total : forall bs, tx_from_bytes bs <> Panic.
Proof. exact tx_from_bytes_no_panic. Qed.
Print Assumptions C09_tx_total.

Theorem C09_txin_total : forall bs, txin_read bs <> Panic.
Proof. exact txin_read_no_panic. Qed.
Print Assumptions C09_txin_total.

Theorem C09_txout_total : forall bs, txout_read bs <> Panic.
Proof. exact txout_read_no_panic. Qed.
Print Assumptions C09_txout_total.

Theorem C09_outpoint_total : forall bs, txin_from_outpoint bs <> Panic.
Proof. exact txin_from_outpoint_no_panic. Qed.
Print Assumptions C09_outpoint_total.

(* a declared script / push length larger than what remains is refused before anything is read or allocated *)
Theorem C09_declared_length_guard :
  forall slen bs, (N.of_nat (length bs) < slen)%N -> read_exactN slen bs = None.
Proof. exact script_alloc_guard. Qed.
Print Assumptions C09_declared_length_guard.

(* the number of parsed inputs and outputs is bounded by the input length, whatever counts are declared *)
Theorem C09_items_bounded_by_input :
  forall bs t, tx_from_bytes bs = Ok t -> 9 * length (inputs t) + 9 * length (outputs t) <= length bs.
Proof. exact tx_items_bounded. Qed.
Print Assumptions C09_items_bounded_by_input.

(* the count loops never run out of fuel: any two fuels above the input length give the same result *)
Theorem C09_loop_fuel_irrelevant :
  forall f1 f2 n bs, length bs < f1 -> length bs < f2 ->
    read_many txin_read f1 n bs = read_many txin_read f2 n bs /\ read_many txout_read f1 n bs = read_many txout_read f2 n bs.
Proof.
  intros f1 f2 n bs H1 H2. split; apply read_many_fuel; auto.
  - intros b a r E. apply txin_read_consumes in E. lia.
  - intros b a r E. apply txout_read_consumes in E. lia.
Qed.
Print Assumptions C09_loop_fuel_irrelevant.

(* non-vacuity: an extreme declared count and an extreme declared length are both plain errors *)
Example C09_extreme_count_is_err :
  tx_from_bytes [x01; x00; x00; x00; xff; xff; xff; xff; xff; xff; xff; xff; xff] = Err.
Proof. vm_compute. reflexivity. Qed.
Example C09_extreme_length_is_err :
  txout_read [x00; x00; x00; x00; x00; x00; x00; x00; xff; xff; xff; xff; xff; xff; xff; xff; xff] = Err.
Proof. vm_compute. reflexivity. Qed.
