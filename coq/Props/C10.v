(* placeholder while the correspondence is brought up; replaced by the pinned statements *)
From BSV Require Import Base.Hex Model.Sighash.
Example C10_placeholder : SH_ALL = 1%N.
Proof. reflexivity. Qed.
