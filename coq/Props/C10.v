(* Props/C10.v — pinned statements of property C10 (the legacy signature-hash preimage equals the original
   Bitcoin algorithm).  Statements only; proofs are in Proofs/LegacyProofs.v.
   `plain_bits sub` says that the subscript is a script value of the form Script::from_bytes produces
   (C10_from_bytes_plain); `flatten sub` is its flat element sequence, which for a parsed byte string is what
   the independent tokenizer reads from those bytes (C02_script_roundtrip). *)
From BSV Require Import Base.Hex Prim.Sha256 Model.Opcodes Model.Script Model.VarInt Model.Tx Model.Sighash
  Spec.ScriptTok Spec.SighashWire Spec.LegacySighash Proofs.ScriptProofs Proofs.SighashProofs Proofs.LegacyProofs.
Local Open Scope list_scope.

(* 0. the six legacy flags are {ALL,NONE,SINGLE} x {-,ANYONECANPAY} without the FORKID bit *)
Theorem C10_legacy_variants_bits :
  forallb (fun f => negb (forkid_bit f) && is_sighash f) legacy_flags = true
  /\ map (fun f => (base_type f, anyonecanpay f)) legacy_flags
     = [(1, false); (2, false); (3, false); (1, true); (2, true); (3, true)]%N.
Proof. exact legacy_variants_bits. Qed.
Print Assumptions C10_legacy_variants_bits.

(* 1. For each legacy flag (and the two bare enum values FORKID / ANYONECANPAY, which take the same path),
   every index and every subscript, the library's answer is determined by the reference algorithm: its
   serialisation, or a refusal exactly where the reference algorithm reports its error value
   (no input at the index; SINGLE without an output at the index). *)
Theorem C10_legacy_total :
  forall (H : bytes -> bytes) t i f sub v,
    In f legacy_path_flags -> plain_bits sub = true ->
    sighash_preimage H t i f sub v =
      match legacy_preimage (view_tx t) i f (flatten sub) with Some p => Ok p | None => Err end.
Proof. exact legacy_total. Qed.
Print Assumptions C10_legacy_total.

Theorem C10_legacy_eq_spec :
  forall (H : bytes -> bytes) t i f sub v,
    In f legacy_flags -> plain_bits sub = true -> i < length (inputs t) ->
    (base_type f = BASE_SINGLE -> i < length (outputs t)) ->
    exists p, legacy_preimage (view_tx t) i f (flatten sub) = Some p /\ sighash_preimage H t i f sub v = Ok p.
Proof. exact legacy_eq_spec. Qed.
Print Assumptions C10_legacy_eq_spec.

(* 2. the permitted difference *)
Theorem C10_legacy_single_oob_err :
  forall (H : bytes -> bytes) t i f sub v,
    In f legacy_flags -> plain_bits sub = true -> base_type f = BASE_SINGLE -> length (outputs t) <= i ->
    sighash_preimage H t i f sub v = Err.
Proof. exact legacy_single_oob_err. Qed.
Print Assumptions C10_legacy_single_oob_err.

Theorem C10_legacy_idx_oob_err :
  forall (H : bytes -> bytes) t i f sub v,
    In f legacy_flags -> plain_bits sub = true -> length (inputs t) <= i -> sighash_preimage H t i f sub v = Err.
Proof. exact legacy_idx_oob_err. Qed.
Print Assumptions C10_legacy_idx_oob_err.

(* 3. code separators: none remains at any depth (no side condition); for scripts of the parser's form the
   flat element sequence of the result is the original one with exactly the separators filtered out (so
   everything else is preserved, in order, inside conditionals too), and its bytes are the reference
   SerializeScriptCode of the original *)
Theorem C10_codesep_removed :
  forall s,
    no_separator_bits (remove_codeseparators s) = true /\
    (plain_bits s = true ->
       flatten (remove_codeseparators s) = erase_separators (flatten s) /\
       to_bytes (remove_codeseparators s) = toks_bytes (erase_separators (flatten s))).
Proof. exact codesep_removed. Qed.
Print Assumptions C10_codesep_removed.

Theorem C10_from_bytes_plain :
  forall bs s, from_bytes bs = Ok s -> plain_bits s = true.
Proof. exact from_bytes_plain. Qed.
Print Assumptions C10_from_bytes_plain.

(* the serialiser of the library and the wire-level serialiser of the specification agree *)
Theorem C10_tx_bytes_view :
  forall t, tx_bytes t = ser_tx (view_tx t).
Proof. exact tx_view. Qed.
Print Assumptions C10_tx_bytes_view.

(* non-vacuity and known answers: the specification reproduces the published NONE vector of tests/sighash.rs
   (input 0, subscript OP_0 OP_RETURN); the model agrees; SINGLE at index 1 blanks output 0 and keeps output 1;
   separators nested in IF / ELSE are removed. *)
Definition kat_tx : string := "01000000029e8d016a7b0dc49a325922d05da1f916d1e4d4f0cb840c9727f3d22ce8d1363f000000008c493046022100e9318720bee5425378b4763b0427158b1051eec8b08442ce3fbfbf7b30202a44022100d4172239ebd701dae2fbaaccd9f038e7ca166707333427e3fb2a2865b19a7f27014104510c67f46d2cbb29476d1f0b794be4cb549ea59ab9cc1e731969a7bf5be95f7ad5e7f904e5ccf50a9dc1714df00fbeb794aa27aaff33260c1032d931a75c56f2ffffffffa3195e7a1ab665473ff717814f6881485dc8759bebe97e31c301ffe7933a656f020000008b48304502201c282f35f3e02a1f32d2089265ad4b561f07ea3c288169dedcf2f785e6065efa022100e8db18aadacb382eed13ee04708f00ba0a9c40e3b21cf91da8859d0f7d99e0c50141042b409e1ebbb43875be5edde9c452c82c01e3903d38fa4fd89f3887a52cb8aea9dc8aec7e2c9d5b3609c03eb16259a2537135a1bf0f9c5fbbcbdbaf83ba402442ffffffff02206b1000000000001976a91420bb5c3bfaef0231dc05190e7f1c8e22e098991e88acf0ca0100000000001976a9149e3e2d23973a04ec1b02be97c30ab9f2f27c3b2c88ac00000000".
Definition kat_none : string := "01000000029e8d016a7b0dc49a325922d05da1f916d1e4d4f0cb840c9727f3d22ce8d1363f0000000002006affffffffa3195e7a1ab665473ff717814f6881485dc8759bebe97e31c301ffe7933a656f020000000000000000000000000002000000".

Example C10_known_answer :
  match bytes_of_hex kat_tx with
  | Some b =>
      match tx_from_bytes b with
      | Ok t =>
          option_map hex_of_bytes (legacy_preimage (view_tx t) 0 SH_NONE [TOp 0; TOp 106]) = Some kat_none
          /\ omap hex_of_bytes (sighash_preimage (fun x => x) t 0 SH_NONE [BOp 0; BOp 106] 0) = Ok kat_none
          /\ (exists p, legacy_preimage (view_tx t) 1 SH_SINGLE [TOp 171; TOp 172] = Some p
                        /\ hex_of_bytes (firstn 12 (skipn (length p - 4 - 4 - 34 - 9 - 1) p)) = "02ffffffffffffffff00f0ca")
          /\ sighash_preimage (fun x => x) t 2 SH_SINGLE [BOp 172] 0 = Err
      | _ => False
      end
  | None => False
  end.
Proof. vm_compute. repeat split. eexists; split; reflexivity. Qed.

Example C10_nested_separators :
  omap (fun s => hex_of_bytes (to_bytes (remove_codeseparators s)))
       (from_bytes [xab; x63; xab; x51; x67; x63; xab; x68; xab; x68; xab])
  = Ok "635167636868"
  /\ omap plain_bits (from_bytes [xab; x63; xab; x51; x67; x63; xab; x68; xab; x68; xab]) = Ok true.
Proof. split; vm_compute; reflexivity. Qed.
