(* Props/C14.v — pinned statements of property C14 (the interpreter runs the non-signature opcodes per
   Bitcoin SV semantics).  Statements only; proofs are in Proofs/InterpNum.v, InterpRefine.v, InterpRun.v.

   impl  = Model/Interp.v (transcription of src/interpreter/*.rs), stacks are Vecs, top LAST;
   spec  = Spec/InterpBSV.v (Bitcoin SV token loop with a condition stack), stacks are lists, top FIRST;
           `exec_script` is the specification, `exec_script_lim31` its variant with the library's machine-word
           limits (OP_SIZE / OP_DEPTH results through an i32, OP_PICK / OP_ROLL / OP_SPLIT operands through a usize),
           equal to the specification on stacks below 2^31 entries with items below 2^31 bytes (statement 6);
   agreed opcodes = everything the library implements except the recorded findings (OP_RETURN, OP_NUM2BIN,
           OP_LSHIFT, OP_RSHIFT, OP_VERIF / OP_VERNOTIF) and the CHECKSIG family (C15);
   agreed_top script = pushes, agreed opcodes and OP_IF / OP_NOTIF conditionals at any depth, plus (top level only)
           an OP_ELSE / OP_ENDIF that closes nothing, which both sides refuse. *)
From BSV Require Import Base.Hex Model.Opcodes Model.Script Model.Interp Spec.ScriptTok Spec.InterpBSV
  Proofs.ScriptProofs Proofs.InterpNum Proofs.InterpRefine Proofs.InterpRun.

(* 1. script-number and truth codecs: the library decodes and (minimally) re-encodes numbers of any size exactly
      as Bitcoin SV does; CastToBool is "the number is not zero" *)
Theorem C14_decode : forall d, to_bigint d = num_of d.
Proof. exact to_bigint_num_of. Qed.
Theorem C14_encode : forall z v, push_bigint z v = Ok (v ++ [num_enc z]).
Proof. exact push_bigint_enc. Qed.
Theorem C14_truth : forall d, cast_to_bool d = truthy d /\ truthy d = negb (num_of d =? 0)%Z.
Proof. exact (fun d => conj (cast_to_bool_truthy d) (truthy_num d)). Qed.

(* 2. per opcode: for every agreed opcode, any state and any script position, the arm of match_opcode succeeds
      exactly when the specification's opcode function does, with the same main and alt stacks *)
Theorem C14_op_refines :
  forall o, agreed_op o = true ->
  forall idx st, refines (match_opcode notx nopre nover idx o st None) (spec_op true o (absS st)).
Proof. exact op_refines. Qed.

(* 3. conditional execution, library side: the index-and-splice machine computes the structural semantics of the
      nested script (continuation = skipn script_index script_bits; fuel = number of nested bits) *)
Theorem C14_splice_is_continuation :
  forall fuel (i : interp notx) k sa,
  skipn (script_index i) (script_bits i) = k -> tx_script i = None -> agreed_top k = true ->
  absS (istate i) = sa -> (bits_size k < fuel)%nat ->
  match sexec_bits k sa with
  | Some sa' => exists i', run_fuel notx nopre nover fuel i = RunOk i' /\ absS (istate i') = sa'
  | None => exists i', run_fuel notx nopre nover fuel i = RunErr i'
  end.
Proof. exact machine_sexec. Qed.

(* 4. conditional execution, specification side: the token loop with its condition stack computes the same
      structural semantics on the flattened script *)
Theorem C14_flat_is_structural :
  forall k sa, agreed_top k = true -> exec_script_lim31 (toks k) sa = sexec_bits k sa.
Proof. exact flat_is_structural. Qed.

(* 5. whole scripts through the public path bytes -> Script::from_bytes -> Interpreter::from_script -> run:
      same success/failure, same main and alt stack as the Bitcoin SV loop run on the tokens that the independent
      tokenizer reads from the bytes; any nesting depth *)
Theorem C14_run_refines :
  forall bs bits,
  from_bytes bs = Ok bits -> truncated_tail bs = false -> agreed_top bits = true ->
  exists ts, tokenize_spec bs = TokOk ts /\
    match exec_script_lim31 ts ([], []) with
    | Some (s, a) => exists i', Interp.run notx nopre nover (start bits) = RunOk i'
                                /\ stack (istate i') = rev s /\ alt_stack (istate i') = rev a
    | None => exists i', Interp.run notx nopre nover (start bits) = RunErr i'
    end.
Proof. exact run_refines. Qed.

(* 6. the machine-word variant is the specification below 2^31 *)
Theorem C14_lim_is_spec :
  forall o s a, small_stack s -> spec_op true o (s, a) = spec_op false o (s, a).
Proof. exact spec_op_lim. Qed.

Print Assumptions C14_decode.
Print Assumptions C14_encode.
Print Assumptions C14_truth.
Print Assumptions C14_op_refines.
Print Assumptions C14_splice_is_continuation.
Print Assumptions C14_flat_is_structural.
Print Assumptions C14_run_refines.
Print Assumptions C14_lim_is_spec.

(* ------------------------------------------------------------------ *)
(* 7. the finding classes are real: inside each class the library and Bitcoin SV differ *)
Definition lib_run (bits : list bit) : option (list bytes * list bytes) :=
  match Interp.run notx nopre nover (start bits) with
  | RunOk i => Some (stack (istate i), alt_stack (istate i))
  | _ => None
  end.
Definition parsed (bs : bytes) : list bit := match from_bytes bs with Ok b => b | _ => [] end.

(* `1 RETURN 2`: the library goes on to [01, 02]; Bitcoin SV stops with [01] *)
Example C14_op_return_refuted :
  lib_run (parsed [x51; x6a; x52]) = Some ([[x01]; [x02]], [])
  /\ exec_script [TOp 81; TOp 106; TOp 82] ([], []) = Some ([[x01]], []).
Proof. split; vm_compute; reflexivity. Qed.
(* `12 1 RSHIFT`: the library computes 1 >> 12 = empty; Bitcoin SV shifts the byte 0c right by one bit *)
Example C14_shift_refuted :
  lib_run (parsed [x5c; x51; x99]) = Some ([[]], [])
  /\ exec_script [TOp 92; TOp 81; TOp 153] ([], []) = Some ([[x06]], []).
Proof. split; vm_compute; reflexivity. Qed.
(* `0 4 NUM2BIN`: the library fails; Bitcoin SV gives 00000000 *)
Example C14_num2bin_refuted :
  lib_run (parsed [x00; x54; x80]) = None
  /\ exec_script [TOp 0; TOp 84; TOp 128] ([], []) = Some ([[x00; x00; x00; x00]], []).
Proof. split; vm_compute; reflexivity. Qed.
(* `1 VERIF 2 ENDIF`: the library runs it as a conditional; Bitcoin SV fails *)
Example C14_verif_refuted :
  lib_run (parsed [x51; x65; x52; x68]) = Some ([[x02]], [])
  /\ exec_script [TOp 81; TOp 101; TOp 82; TOp 104] ([], []) = None.
Proof. split; vm_compute; reflexivity. Qed.
(* `1 IF 2 ELSE 3 ELSE 4 ENDIF`: the second ELSE sits unnoticed in the branch that is not taken *)
Example C14_second_else_refuted :
  lib_run (parsed [x51; x63; x52; x67; x53; x67; x54; x68]) = Some ([[x02]], [])
  /\ exec_script [TOp 81; TOp 99; TOp 82; TOp 103; TOp 83; TOp 103; TOp 84; TOp 104] ([], []) = None
  /\ cls_second_else [TOp 81; TOp 99; TOp 82; TOp 103; TOp 83; TOp 103; TOp 84; TOp 104] = true.
Proof. repeat split; vm_compute; reflexivity. Qed.
(* `05 01`: a truncated direct push is executed with the shortened data; the specification has no token sequence *)
Example C14_truncated_push_refuted :
  lib_run (parsed [x05; x01]) = Some ([[x01]], []) /\ tokenize_spec [x05; x01] = TokTruncDirect.
Proof. split; vm_compute; reflexivity. Qed.

(* non-vacuity of 5: a nested script over agreed opcodes (1 IF 2 3 ADD ELSE 9 ENDIF 4 MUL -> 20) *)
Example C14_nonvacuous :
  let bs := [x51; x63; x52; x53; x93; x67; x59; x68; x54; x95] in
  exists bits, from_bytes bs = Ok bits /\ truncated_tail bs = false /\ agreed_top bits = true
               /\ lib_run bits = Some ([[x14]], []).
Proof. eexists; repeat split; vm_compute; reflexivity. Qed.
(* the repaired case `1 ENDIF`: inside the theorem, both sides fail *)
Example C14_nonvacuous_stray :
  exists bits, from_bytes [x51; x68] = Ok bits /\ agreed_top bits = true /\ lib_run bits = None
               /\ exec_script [TOp 81; TOp 104] ([], []) = None.
Proof. eexists; repeat split; vm_compute; reflexivity. Qed.
