(* Props/C14.v — pinned statements of property C14 (interpreter: non-signature opcodes).
   Statements only; proofs are in Proofs/Interp*.v.  (first milestone: correspondence only) *)
From BSV Require Import Base.Hex Model.Opcodes Model.Script Model.Interp Spec.ScriptTok Spec.InterpBSV Run.Exec_C14.

(* non-vacuity: the model runs `1 2 ADD` to the stack [03] and the specification prescribes the same *)
Example C14_nonvacuous :
  Exec_C14.run "interp.run" ["515293"] = "OK:03,;;81,82,147,;0|OK:03,;;*;*|-".
Proof. vm_compute. reflexivity. Qed.
