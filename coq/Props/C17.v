(* Props/C17.v — placeholder while the proofs are being written *)
From BSV Require Import Base.Hex Model.Opcodes Model.Script Model.Asm Spec.AsmSpec.
Example C17_placeholder : from_asm "OP_1 OP_2" = Ok [BOp 81; BOp 82].
Proof. vm_compute. reflexivity. Qed.
