(* Props/C17.v — pinned statements of property C17 (script ASM text is a faithful, re-parseable
   rendering of the script).  Statements only; proofs are in Proofs/AsmProofs.v.

   Model:  Model/Asm.v  (to_asm, from_asm, map_token, split_whitespace, trim)  over Model/Script.v.
   Spec:   Spec/AsmSpec.v (minimal_pushes, canonical, ambiguous_numeric_push, accepted_token, spec_token,
           ws_tokens, pad_ws / padded, render_ext / render_plain) over Spec/ScriptTok.v.

   Quantifier of the round trip.  `canonical s` is the shape of every script a parser of the library
   returns (C17_parsed_scripts_are_canonical); hand-assembled trees such as a lone OpCode(OP_IF) are
   outside.  `minimal_pushes s`: Push carries 1..75 bytes, PushData uses the smallest OP_PUSHDATAn, and
   empty data is the OP_0 opcode: the element ScriptBit::Push(vec![]) renders as the empty string and
   disappears on re-parsing; from bytes it arises only inside C02's truncated-direct-push class, and it
   is outside this quantifier.

   Known finding (KNOWN_FINDINGS.txt, class ambiguous-numeric-push): a one-byte push 0x10..0x16 renders
   as "10".."16", which the parser reads as the numeric alias of OP_10..OP_16.  The full-strength
   statement — the one below without the hypothesis `ambiguous_numeric_push s = false` — is false:
   C17_refuted_on_class. *)
From BSV Require Import Base.Hex Gen.Opcodes_gen Model.Opcodes Model.Script Model.Asm Spec.ScriptTok Spec.AsmSpec
  Proofs.AsmProofs.
Open Scope list_scope.

(* 1. Round trip: parsing the plain rendering gives the script back — the very same tree, hence the
      same bytes — for all opcodes, any nesting with empty or missing branches, payloads of any length. *)
Theorem C17_asm_roundtrip_tree :
  forall s, canonical s = true -> wf_bits s = true -> no_coinbase s = true -> minimal_pushes s = true ->
            ambiguous_numeric_push s = false ->
            from_asm (to_asm false s) = Ok s.
Proof. exact asm_roundtrip_tree. Qed.
Print Assumptions C17_asm_roundtrip_tree.

Theorem C17_asm_roundtrip :
  forall s, canonical s = true -> wf_bits s = true -> no_coinbase s = true -> minimal_pushes s = true ->
            ambiguous_numeric_push s = false ->
            exists s', from_asm (to_asm false s) = Ok s' /\ to_bytes s' = to_bytes s.
Proof. exact asm_roundtrip. Qed.
Print Assumptions C17_asm_roundtrip.

(* ... in particular for every script obtained from bytes *)
Theorem C17_parsed_scripts_roundtrip :
  forall bs s, from_bytes bs = Ok s -> minimal_pushes s = true -> ambiguous_numeric_push s = false ->
               from_asm (to_asm false s) = Ok s.
Proof. exact asm_roundtrip_parsed. Qed.
Print Assumptions C17_parsed_scripts_roundtrip.

Theorem C17_parsed_scripts_are_canonical :
  forall bs s, from_bytes bs = Ok s -> canonical s = true /\ no_coinbase s = true.
Proof. exact from_bytes_canonical. Qed.
Print Assumptions C17_parsed_scripts_are_canonical.

(* 5. The class is a real failure of the library: Push [0x11] renders "11", which parses as OP_11. *)
Theorem C17_refuted_on_class :
  let s := [BPush [x11]] in
  from_bytes [x01; x11] = Ok s /\ canonical s = true /\ wf_bits s = true /\ no_coinbase s = true /\ minimal_pushes s = true /\
  ambiguous_numeric_push s = true /\ to_asm false s = "11" /\
  forall s', from_asm (to_asm false s) = Ok s' -> to_bytes s' <> to_bytes s.
Proof. exact refuted_on_class. Qed.
Print Assumptions C17_refuted_on_class.

(* 2. A token is accepted iff (after trimming) it is a numeric alias "0".."16", an opcode name of the
      enum, or even-length hex; an accepted token denotes what the specification says (alias k ->
      OP_k, name -> its opcode, hex -> a push of the decoded bytes in the minimal push class), and
      every other token is an error (never a panic). *)
Theorem C17_asm_accepts_exactly :
  forall t, (exists b, map_token t = Ok b) <-> accepted_token (trim t).
Proof. exact asm_accepts_exactly. Qed.
Print Assumptions C17_asm_accepts_exactly.

Theorem C17_asm_token_denotes :
  forall t, match spec_token (trim t) with
            | Some tk => exists b, map_token t = Ok b /\ Proofs.ScriptProofs.tok_of_bit b = tk
            | None => map_token t = Err
            end.
Proof. exact asm_token_denotes. Qed.
Print Assumptions C17_asm_token_denotes.

(* hex payload text never collides with an opcode name *)
Theorem C17_opcode_names_not_hex :
  forall n c, In (n, c) opcode_table -> bytes_of_hex n = None.
Proof. exact opcode_names_not_hex. Qed.
Print Assumptions C17_opcode_names_not_hex.

(* 3. Whitespace: the tokens read are exactly the maximal runs of non-whitespace characters, so any
      whitespace (spaces, tabs, line breaks) before, between and after the tokens is ignored. *)
Theorem C17_tokens_are_whitespace_runs :
  forall s, asm_tokens s = ws_tokens s.
Proof. exact asm_tokens_spec. Qed.
Print Assumptions C17_tokens_are_whitespace_runs.

Theorem C17_whitespace_ignored :
  forall l e, padded true l = true -> all_chars ws_char e = true ->
              from_asm (pad_ws l e) = from_asm (join " " (map snd l)).
Proof. exact whitespace_ignored_spec. Qed.
Print Assumptions C17_whitespace_ignored.

Theorem C17_from_asm_total : forall s, from_asm s <> Panic.
Proof. exact from_asm_no_panic. Qed.
Print Assumptions C17_from_asm_total.

(* 4. Renderings of a parsed script, stated on the flat tokens read by the independent tokenizer of
      Spec/ScriptTok.v: the extended form gives, for every push, the word OP_PUSH (direct pushes) or the
      name of its OP_PUSHDATAn opcode, the decimal payload length and the payload hex. *)
Theorem C17_extended_states_push :
  forall bs s ts, from_bytes bs = Ok s -> tokenize_spec bs = TokOk ts -> to_asm true s = render_ext ts.
Proof. exact extended_states_push. Qed.
Print Assumptions C17_extended_states_push.

Theorem C17_plain_rendering :
  forall bs s ts, from_bytes bs = Ok s -> tokenize_spec bs = TokOk ts -> forallb data_nonempty ts = true ->
                  to_asm false s = render_plain ts.
Proof. exact plain_rendering_spec. Qed.
Print Assumptions C17_plain_rendering.

(* non-vacuity: a nested script with an empty branch, a missing branch, an all-digit payload and OP_0
   satisfies every hypothesis of the round-trip theorem *)
Example C17_nonvacuous :
  exists s, from_bytes [x63; x67; x68; x64; x02; x12; x34; x68; x00; x60; x01; x17] = Ok s /\
            canonical s = true /\ wf_bits s = true /\ no_coinbase s = true /\ minimal_pushes s = true /\
            ambiguous_numeric_push s = false /\
            to_asm false s = "OP_IF OP_ELSE OP_ENDIF OP_NOTIF 1234 OP_ENDIF 0 OP_16 17".
Proof. eexists. repeat split; vm_compute; reflexivity. Qed.

Example C17_whitespace_nonvacuous :
  padded true [(String "010" "", "OP_1"); (String "013" (String "010" ""), "0a"); (String "009" " ", "16")] = true /\
  from_asm (pad_ws [(String "010" "", "OP_1"); (String "013" (String "010" ""), "0a"); (String "009" " ", "16")] " ")
    = Ok [BOp 81; BPush [x0a]; BOp 96].
Proof. split; vm_compute; reflexivity. Qed.
