(* Props/C16.v — pinned statements of property C16 (the interpreter is total; stepping equals run;
   an error keeps the stacks).  Statements only; proofs are in Proofs/InterpTotal.v.

   The statements are about the model Model/Interp.v of src/interpreter/*.rs, in which every Vec / slice /
   usize operation that can panic in Rust returns `Panic`.  The transaction side of the CHECKSIG family
   (sighash preimage, signature and key parsing, ECDSA: property C15) is a pair of parameters assumed not to
   panic; `Interpreter::from_script` never reaches it (second group of statements: no assumption at all). *)
From BSV Require Import Base.Hex Model.Opcodes Model.Script Model.Interp Proofs.InterpTotal.

Section WithTransaction.
  Variable txctx : Type.
  Variable sig_preimage : txctx -> nat -> bytes -> outcome bytes.
  Variable sig_verify : txctx -> bytes -> bytes -> bytes -> outcome bool.
  Hypothesis sig_preimage_total : forall t c s, sig_preimage t c s <> Panic.
  Hypothesis sig_verify_total : forall t p s k, sig_verify t p s k <> Panic.
  Notation next_impl := (next_impl txctx sig_preimage sig_verify).
  Notation run := (Interp.run txctx sig_preimage sig_verify).
  Notation steps_to := (steps_to txctx sig_preimage sig_verify).

  (* 1. one step from ANY interpreter value (any bits, index, stacks, with or without a transaction) is
        a finished signal, a new state or an error — never a panic *)
  Theorem C16_step_total : forall i : interp txctx, next_impl i <> StepPanic.
  Proof. exact (step_total txctx sig_preimage sig_verify sig_preimage_total sig_verify_total). Qed.

  (* 2. `run` ends in Ok or Err: the fuel S (number of nested bits left) is never exhausted, and any sequence of
        successful steps is at most that long *)
  Theorem C16_terminates : forall i : interp txctx, exists i', run i = RunOk i' \/ run i = RunErr i'.
  Proof. exact (run_total txctx sig_preimage sig_verify sig_preimage_total sig_verify_total). Qed.
  Theorem C16_steps_bounded : forall (i : interp txctx) n j, steps_to i n j -> (n <= remaining txctx i)%nat.
  Proof. exact (steps_bounded txctx sig_preimage sig_verify). Qed.

  (* 3. run() returns Ok(()) / Err exactly when single-stepping with next() reaches None / Some(Err), and it
        leaves the interpreter in the same state *)
  Theorem C16_step_equals_run : forall i : interp txctx,
    (forall i', run i = RunOk i' <-> exists n j, steps_to i n j /\ next_impl j = StepNone i') /\
    (forall i', run i = RunErr i' <-> exists n j, steps_to i n j /\ next_impl j = StepErr i').
  Proof. exact (step_equals_run txctx sig_preimage sig_verify). Qed.

  (* 4. a failing step leaves both stacks, the script bits, the index and the separator offset untouched
        (the state before the step is the last successfully returned state) *)
  Theorem C16_error_preserves_stacks : forall i i' : interp txctx,
    next_impl i = StepErr i' ->
    stack (istate i') = stack (istate i) /\ alt_stack (istate i') = alt_stack (istate i) /\
    script_bits i' = script_bits i /\ script_index i' = script_index i /\ codesep (istate i') = codesep (istate i).
  Proof. exact (error_preserves_stacks txctx sig_preimage sig_verify). Qed.
End WithTransaction.

(* Interpreter::from_script (tx_script = None): no assumption left *)
Definition notx : Type := Empty_set.
Definition nopre (t : notx) (_ : nat) (_ : bytes) : outcome bytes := match t with end.
Definition nover (t : notx) (_ _ _ : bytes) : outcome bool := match t with end.

Theorem C16_step_total_from_script : forall i : interp notx, next_impl notx nopre nover i <> StepPanic.
Proof. exact (step_total notx nopre nover (fun t => match t with end) (fun t => match t with end)). Qed.

Theorem C16_terminates_from_script :
  forall bits, exists i', Interp.run notx nopre nover (from_script_bits notx bits None) = RunOk i'
                       \/ Interp.run notx nopre nover (from_script_bits notx bits None) = RunErr i'.
Proof. intros bits. exact (run_total notx nopre nover (fun t => match t with end) (fun t => match t with end) _). Qed.

Print Assumptions C16_step_total.
Print Assumptions C16_terminates.
Print Assumptions C16_steps_bounded.
Print Assumptions C16_step_equals_run.
Print Assumptions C16_error_preserves_stacks.
Print Assumptions C16_step_total_from_script.
Print Assumptions C16_terminates_from_script.

(* non-vacuity: a script that runs to the end, one that fails in the middle (the failing OP_ADD leaves [01]),
   a coinbase bit, and a conditional whose branch is spliced in *)
Example C16_nonvacuous_ok :
  exists i', Interp.run notx nopre nover (from_script_bits notx [BOp 81; BOp 82; BOp 147] None) = RunOk i'
             /\ stack (istate i') = [[x03]].
Proof. eexists; split; vm_compute; reflexivity. Qed.
Example C16_nonvacuous_err :
  exists i', Interp.run notx nopre nover (from_script_bits notx [BOp 81; BOp 147; BOp 82] None) = RunErr i'
             /\ stack (istate i') = [[x01]] /\ script_index i' = 1%nat.
Proof. eexists; split; [|split]; vm_compute; reflexivity. Qed.
Example C16_nonvacuous_coinbase :
  exists i', next_impl notx nopre nover (from_script_bits notx [BCoinbase [x00]] None) = StepErr i'.
Proof. eexists; vm_compute; reflexivity. Qed.
Example C16_nonvacuous_if :
  exists i', Interp.run notx nopre nover (from_script_bits notx [BOp 0; BIf 100 [BOp 85] (Some [BOp 86])] None) = RunOk i'
             /\ stack (istate i') = [[x05]] /\ length (script_bits i') = 3%nat.
Proof. eexists; split; [|split]; vm_compute; reflexivity. Qed.
