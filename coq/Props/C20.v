(* Props/C20.v — pinned statements of property C20 (AES-CBC / AES-CTR: decryption inverts encryption,
   output equals standard AES, lengths, rejection).  Statements only; proofs are in
   Proofs/AesProofs.v (the primitive) and Proofs/AesApiProofs.v (the API model).

   "Equals standard AES" is the chain
     Rust library  = Model/AesApi.v         correspondence run (tools/props/c20.py)
     Model/AesApi  = Prim/Aes.v modes       C20_api_equals_standard (below)
     Prim/Aes.v    = FIPS-197 / SP 800-38A  known-answer Examples in Prim/Aes.v (C.1-C.3, F.2.1/2/5/6, F.5.1/2/5)
                                            and the openssl-generated vectors there. *)
From BSV Require Import Base.Hex Prim.Aes Proofs.AesProofs Model.AesApi Proofs.AesApiProofs.

(* --- the primitive ------------------------------------------------- *)
(* 1. the inverse cipher inverts the cipher for all 2^128 / 2^256 keys and all 2^128 blocks *)
Theorem C20_aes_block_inverse :
  forall k b, (length k = 16 \/ length k = 32) -> length b = 16 -> dec_block k (enc_block k b) = b.
Proof. exact aes_block_inverse. Qed.
Print Assumptions C20_aes_block_inverse.

(* 2. mode round trips, every key, IV and message *)
Theorem C20_cbc_roundtrip : forall k iv m, cbc_decrypt k iv (cbc_encrypt k iv m) = Some m.
Proof. exact cbc_roundtrip. Qed.
Print Assumptions C20_cbc_roundtrip.

Theorem C20_ctr_roundtrip : forall k iv m, ctr k iv (ctr k iv m) = m.
Proof. exact ctr_roundtrip. Qed.
Print Assumptions C20_ctr_roundtrip.

(* 3. lengths *)
Theorem C20_cbc_len : forall k iv m, length (cbc_encrypt k iv m) = 16 * (Nat.div (length m) 16 + 1).
Proof. exact cbc_len. Qed.
Print Assumptions C20_cbc_len.

Theorem C20_ctr_len : forall k iv m, length (ctr k iv m) = length m.
Proof. exact ctr_len. Qed.
Print Assumptions C20_ctr_len.

(* 4. rejection: empty, ragged, or a raw decryption that is not  m ++ n copies of byte n, 1 <= n <= 16 *)
Theorem C20_cbc_rejects :
  forall k iv ct,
    ct = [] \/ Nat.modulo (length ct) 16 <> 0 \/ bad_padding 16 (cbc_raw_dec k iv ct) ->
    cbc_decrypt k iv ct = None.
Proof. exact cbc_rejects. Qed.
Print Assumptions C20_cbc_rejects.

(* the CTR counter block of block i is the 128-bit big-endian encoding of IV + i *)
Theorem C20_ctr_block_spec :
  forall k iv n i, length iv = 16 -> i < n ->
    nth i (ctr_stream incr_le (key_expand k) n (rev iv)) zero_state =
    cipher (key_expand k) (to_state (be_bytes 16 ((be_val iv + N.of_nat i) mod 2 ^ 128))).
Proof. exact ctr_block_spec. Qed.
Print Assumptions C20_ctr_block_spec.

(* --- the API model -------------------------------------------------- *)
Theorem C20_api_roundtrip :
  forall a k iv m, sizes_ok a k iv = true ->
    exists c, encrypt a k iv m = Ok c /\ decrypt a k iv c = Ok m.
Proof. exact api_roundtrip. Qed.
Print Assumptions C20_api_roundtrip.

Theorem C20_api_len :
  forall a k iv m c, encrypt a k iv m = Ok c ->
    length c = if is_cbc a then 16 * (Nat.div (length m) 16 + 1) else length m.
Proof. exact api_len. Qed.
Print Assumptions C20_api_len.

Theorem C20_api_cbc_rejects :
  forall a k iv ct, is_cbc a = true ->
    ct = [] \/ Nat.modulo (length ct) 16 <> 0 \/ bad_padding 16 (cbc_raw_dec k iv ct) ->
    decrypt a k iv ct = Err.
Proof. exact api_cbc_rejects. Qed.
Print Assumptions C20_api_cbc_rejects.

Theorem C20_api_cbc_accepts_only :
  forall a k iv ct m, is_cbc a = true -> decrypt a k iv ct = Ok m ->
    ct <> [] /\ Nat.modulo (length ct) 16 = 0 /\
    exists n, 1 <= n <= 16 /\ cbc_raw_dec k iv ct = m ++ repeat (n2b (N.of_nat n)) n.
Proof. exact api_cbc_accepts_only. Qed.
Print Assumptions C20_api_cbc_accepts_only.

Theorem C20_api_total :
  forall a k iv m,
    encrypt a k iv m <> Panic /\ decrypt a k iv m <> Panic /\
    (sizes_ok a k iv = false -> encrypt a k iv m = Err /\ decrypt a k iv m = Err).
Proof. exact api_total. Qed.
Print Assumptions C20_api_total.

Theorem C20_api_equals_standard :
  forall a k iv m, sizes_ok a k iv = true ->
    if is_cbc a
    then encrypt a k iv m = Ok (cbc_encrypt k iv m) /\ decrypt a k iv m = of_option (cbc_decrypt k iv m)
    else ctr_in_domain iv m = true -> encrypt a k iv m = Ok (ctr k iv m) /\ decrypt a k iv m = Ok (ctr k iv m).
Proof. exact api_equals_standard. Qed.
Print Assumptions C20_api_equals_standard.

(* --- witnesses of the two repaired defects (the unrepaired behaviour is refuted by the spec) --- *)
Theorem C20_unrepaired_accepts_long_padding :
  decrypt_unrepaired AES128_CBC w_key w_iv w_ct = Ok [] /\
  bad_padding 16 (cbc_raw_dec w_key w_iv w_ct) /\
  decrypt AES128_CBC w_key w_iv w_ct = Err.
Proof. exact unrepaired_accepts_long_padding. Qed.
Print Assumptions C20_unrepaired_accepts_long_padding.

Theorem C20_unrepaired_ctr_panics :
  decrypt_unrepaired AES128_CTR [x00; x01; x02] w_iv [x00] = Panic /\
  decrypt AES128_CTR [x00; x01; x02] w_iv [x00] = Err.
Proof. exact unrepaired_ctr_panics. Qed.
Print Assumptions C20_unrepaired_ctr_panics.

(* --- non-vacuity ---------------------------------------------------- *)
(* the size hypothesis is satisfiable in all four modes and the round trip produces real ciphertext *)
Example C20_nonvacuous_sizes :
  sizes_ok AES128_CBC w_key w_iv = true /\ sizes_ok AES128_CTR w_key w_iv = true /\
  sizes_ok AES256_CBC (w_key ++ w_key) w_iv = true /\ sizes_ok AES256_CTR (w_key ++ w_key) w_iv = true.
Proof. vm_compute. repeat split. Qed.

Example C20_nonvacuous_cbc :
  encrypt AES128_CBC w_key w_iv (hx "03") = Ok (hx "f45a948669cb680819d3749630529997") /\
  decrypt AES128_CBC w_key w_iv (hx "f45a948669cb680819d3749630529997") = Ok (hx "03").
Proof. vm_compute. split; reflexivity. Qed.

Example C20_nonvacuous_ctr :
  ctr_in_domain w_iv (hx "030a11") = true /\
  encrypt AES256_CTR (hx "0f1e2d3c4b5a69788796a5b4c3d2e1f000112233445566778899aabbccddeeff") w_iv (hx "030a11") = Ok (hx "a4accb").
Proof. vm_compute. split; reflexivity. Qed.

(* the rejection hypothesis is satisfiable by a non-trivial ciphertext (whole blocks, bad padding) *)
Example C20_nonvacuous_rejects :
  w_ct <> [] /\ Nat.modulo (length w_ct) 16 = 0 /\ bad_padding 16 (cbc_raw_dec w_key w_iv w_ct).
Proof.
  split; [vm_compute; discriminate|]. split; [vm_compute; reflexivity|].
  exact (proj1 (proj2 unrepaired_accepts_long_padding)).
Qed.
