(* Props/C18.v — pinned statements of property C18 (extended-transaction JSON and CBOR encodings are lossless).
   Statements only; proofs are in Proofs/SerdeProofs.v.  Everything here is about trees of the serde data model
   (Model/Serde.v): `ser_*` is what the derived Serialize emits, `de_*` what the derived Deserialize accepts, per
   format where serde_json and ciborium differ (struct-as-array, buffering of null, recursion guards).  That the
   two crates print a tree and parse the same tree back is external, trusted code, tied by the correspondence run. *)
From BSV Require Import Base.Hex Model.Opcodes Model.Script Model.VarInt Model.Tx Model.Serde Proofs.SerdeProofs.

(* 1. Lossless round trip of a whole transaction, both formats: every field equal (Leibniz equality of the value:
      extended fields present or absent, any u32 / u64 values up to 2^64-1, every push form, nested conditionals,
      empty pushes), outside the two known-finding classes. *)
Theorem C18_content_roundtrip :
  forall f t, wf_fields t = true -> tx_has_cb t = false -> cdepth (ser_tx t) <= limit f ->
              de_tx f (ser_tx t) = Ok t.
Proof. exact content_roundtrip. Qed.
Print Assumptions C18_content_roundtrip.

(* ... the same for a single input encoded on its own *)
Theorem C18_txin_roundtrip :
  forall f i, wf_txin i = true -> txin_has_cb i = false -> cdepth (ser_txin i) <= limit f ->
              de_txin_top f (ser_txin i) = Ok i.
Proof. exact txin_roundtrip. Qed.
Print Assumptions C18_txin_roundtrip.

(* ... with the nesting condition in user terms: at most 61 nested conditionals for JSON, 125 for CBOR *)
Theorem C18_roundtrip_by_if_depth :
  forall f t, wf_fields t = true -> tx_has_cb t = false -> tx_if_depth t <= max_if_depth f -> de_tx f (ser_tx t) = Ok t.
Proof. exact roundtrip_by_if_depth. Qed.
Print Assumptions C18_roundtrip_by_if_depth.

Theorem C18_txin_roundtrip_by_if_depth :
  forall f i, wf_txin i = true -> txin_has_cb i = false -> txin_if_depth i <= max_if_depth f ->
              de_txin_top f (ser_txin i) = Ok i.
Proof. exact txin_roundtrip_by_if_depth. Qed.
Print Assumptions C18_txin_roundtrip_by_if_depth.

(* ... and hence the same wire serialisation and the same transaction id (for any hash function) *)
Theorem C18_roundtrip_wire :
  forall (h : bytes -> bytes) f t t',
    wf_fields t = true -> tx_has_cb t = false -> cdepth (ser_tx t) <= limit f ->
    de_tx f (ser_tx t) = Ok t' -> t' = t /\ tx_bytes t' = tx_bytes t /\ tx_id h t' = tx_id h t.
Proof. exact roundtrip_wire. Qed.
Print Assumptions C18_roundtrip_wire.

(* 2. The untagged ScriptBit enum.  The model resolves a tree by trying the variants in declaration order ... *)
Theorem C18_declaration_order :
  forall f c, de_bit f c = first_some (variants f c).
Proof. exact de_bit_first. Qed.
Print Assumptions C18_declaration_order.

(* ... and for every bit free of Coinbase, its own variant accepts its image and no earlier variant does
   (this is the statement that breaks when the enum is reordered or a representation is changed) *)
Theorem C18_untagged_unambiguous :
  forall f b, enum_bit b = true -> has_cb b = false ->
    nth (variant_index b) (variants f (ser_bit b)) None = Some b /\
    (forall j, j < variant_index b -> nth j (variants f (ser_bit b)) None = None).
Proof. exact untagged_unambiguous. Qed.
Print Assumptions C18_untagged_unambiguous.

(* no opcode name is a hex string: Push(hex) can never be taken for OpCode(name) (from the generated table) *)
Theorem C18_hex_is_not_an_opcode_name :
  forall d, opcode_of_name (hex_of_bytes d) = None.
Proof. exact hex_not_name. Qed.
Print Assumptions C18_hex_is_not_an_opcode_name.

(* 3. Known finding `coinbase-script-bit`: a Coinbase bit is written as a bare hex string, which the earlier
      variant Push accepts; it comes back as Push and its bytes differ ... *)
Theorem C18_refuted_on_class :
  forall f d,
    nth 2 (variants f (ser_bit (BCoinbase d))) None = Some (BPush d)
    /\ de_bit f (ser_bit (BCoinbase d)) = Some (BPush d)
    /\ to_bytes [BPush d] <> to_bytes [BCoinbase d].
Proof. exact coinbase_bit_refuted. Qed.
Print Assumptions C18_refuted_on_class.

(* ... exactly: within the guards, what comes back is the transaction with every Coinbase bit turned into Push,
   and that is never the original when there is a Coinbase bit *)
Theorem C18_coinbase_exact :
  forall f t, wf_fields t = true -> cdepth (ser_tx t) <= limit f -> de_tx f (ser_tx t) = Ok (uncb_tx t).
Proof. exact content_roundtrip_gen. Qed.
Print Assumptions C18_coinbase_exact.

Theorem C18_coinbase_class_refuted :
  forall f t, wf_fields t = true -> tx_has_cb t = true -> de_tx f (ser_tx t) <> Ok t.
Proof. exact coinbase_class_refuted. Qed.
Print Assumptions C18_coinbase_class_refuted.

(* 4. Known finding `nesting-exceeds-decoder-limit`: beyond the decoder's recursion guard nothing comes back *)
Theorem C18_nesting_class_refuted :
  forall f t, exceeds_limit f (ser_tx t) = true -> de_tx f (ser_tx t) = Err.
Proof. exact nesting_class_refuted. Qed.
Print Assumptions C18_nesting_class_refuted.

(* 5. The two classes are exactly where the property fails (at the level of trees) *)
Theorem C18_roundtrip_iff :
  forall f t, wf_fields t = true ->
    (de_tx f (ser_tx t) = Ok t <-> tx_has_cb t = false /\ exceeds_limit f (ser_tx t) = false).
Proof. exact roundtrip_iff. Qed.
Print Assumptions C18_roundtrip_iff.

(* ------------------------------------------------------------------ *)
(* non-vacuity: an extended transaction with every push form, an empty push, nested conditionals with and without
   else, u64 extremes, inside the hypotheses; and it does round-trip, in both formats *)
Definition sample_script : list bit :=
  [BOp 0; BPush [x01; x02]; BPushData 76 []; BPushData 77 [xaa]; BPushData 78 [xbb; xcc];
   BIf 99 [BOp 81; BIf 100 [BPush [xff]] (Some [])] None; BIf 100 [] (Some [BOp 172])].
Definition sample_tx : tx :=
  mk_tx 2 [mk_txin (repeat x11 32) 4294967295 sample_script 0 (Some sample_script) (Some 18446744073709551615%N);
           mk_txin (repeat x22 32) 0 [] 4294967294 None None]
          [mk_txout 9007199254740993 sample_script; mk_txout 0 []] 4294967295.
Example C18_nonvacuous :
  wf_fields sample_tx = true /\ tx_has_cb sample_tx = false /\ tx_if_depth sample_tx <= max_if_depth Json
  /\ de_tx Json (ser_tx sample_tx) = Ok sample_tx /\ de_tx Cbor (ser_tx sample_tx) = Ok sample_tx.
Proof. repeat split; vm_compute; try reflexivity. do 59 apply le_S. apply le_n. Qed.

(* the genesis coinbase transaction is inside the first class: it decodes, to a different value with other bytes *)
Definition genesis_hex : string :=
  "01000000010000000000000000000000000000000000000000000000000000000000000000ffffffff4d04ffff001d0104455468652054696d65732030332f4a616e2f32303039204368616e63656c6c6f72206f6e206272696e6b206f66207365636f6e64206261696c6f757420666f722062616e6b73ffffffff0100f2052a01000000434104678afdb0fe5548271967f1a67130b7105cd6a828e03909a67962e0ea1f61deb649f6bc3f4cef38c4f35504e51ec112de5c384df7ba0b8d578a4c702b6bf11d5fac00000000".
Example C18_genesis_refuted :
  exists t t', (do bs <- of_option (bytes_of_hex genesis_hex); tx_from_bytes bs) = Ok t
               /\ tx_has_cb t = true /\ de_tx Json (ser_tx t) = Ok t'
               /\ tx_eqb t t' = false /\ bytes_eqb (tx_bytes t) (tx_bytes t') = false.
Proof. eexists. eexists. repeat split; vm_compute; reflexivity. Qed.

(* 62 nested conditionals are inside the second class for JSON (61 are not); 127 for CBOR (126 are not) *)
Definition nested (n : nat) : list bit := Nat.iter n (fun s => [BIf 99 s None]) [].
Definition nested_tx (n : nat) : tx := mk_tx 1 [mk_txin (repeat x00 32) 0 (nested n) 0 None None] [] 0.
Example C18_nesting_boundary :
  de_tx Json (ser_tx (nested_tx 61)) = Ok (nested_tx 61) /\ de_tx Json (ser_tx (nested_tx 62)) = Err
  /\ de_tx Cbor (ser_tx (nested_tx 126)) = Ok (nested_tx 126) /\ de_tx Cbor (ser_tx (nested_tx 127)) = Err.
Proof. repeat split; vm_compute; reflexivity. Qed.
