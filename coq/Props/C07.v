(* Props/C07.v — pinned statements of property C07 (WIF, SEC1 public keys and Base58Check P2PKH
   addresses are exact and validated).  Statements only; proofs are in Proofs/KeysProofs.v,
   Prim/Base58.v and Proofs/Secp256k1Proofs.v.

   The functions are the model of the Rust code (Model/Keys.v, tied by the correspondence run) on
   the reference curve instance `curve_ref` (Prim/Secp256k1.v over Z).
   No premise is left: the square-root fact `sqrt_ok` (the candidate root alpha^((p+1)/4) of a square y^2 is y or
   -y) that the COMPRESSED-encoding statements used to assume is now a theorem (Proofs/SecpPrimes.v: the field
   prime is proved prime from a Pratt certificate checked inside Coq, Fermat's little theorem in Proofs/Primality.v).
   "Equals an independent secp256k1 / Base58Check implementation" is the correspondence run against
   Prim/Secp256k1.v, Prim/Base58.v, Prim/Sha256.v, Prim/Ripemd160.v (see tools/props/c07.py). *)
From BSV Require Import Base.Hex.
From BSV Require Import Prim.Num Prim.Secp256k1 Prim.Base58 Prim.Sha256 Prim.Ripemd160.
From BSV Require Import Model.HashApi Model.Opcodes Model.Script Model.Asm Model.Keys.
From BSV Require Import Proofs.Secp256k1Proofs Proofs.KeysProofs Proofs.KeysUncond Proofs.SecpPrimes.
Local Open Scope Z_scope.

(* 0. Base58 itself (bs58 as modelled in Prim/Base58.v): lossless for every byte string, leading zero
   bytes included; only the canonical string decodes to a given byte string. *)
Theorem C07_b58_roundtrip : forall bs : bytes, b58_decode (b58_encode bs) = Some bs.
Proof. exact b58_roundtrip. Qed.
Print Assumptions C07_b58_roundtrip.

Theorem C07_b58_canonical : forall s bs, b58_decode s = Some bs -> b58_encode bs = s.
Proof. exact b58_decode_encode. Qed.
Print Assumptions C07_b58_canonical.

(* 1. Raw private keys: exactly the 32-byte big-endian encodings of 1 .. n-1. *)
Theorem C07_privkey_accept_iff :
  forall bs, (exists k, priv_from_bytes bs = Ok k) <-> (length bs = 32%nat /\ 1 <= be_Z bs < secp_n).
Proof. exact priv_from_bytes_iff. Qed.
Print Assumptions C07_privkey_accept_iff.

Theorem C07_privkey_hex_roundtrip :
  forall k, 1 <= sk_scalar k < secp_n ->
    priv_from_hex (priv_to_hex k) = Ok {| sk_scalar := sk_scalar k; sk_compressed := true |}.
Proof. exact priv_hex_roundtrip. Qed.
Print Assumptions C07_privkey_hex_roundtrip.

(* 2. WIF *)
Theorem C07_wif_roundtrip :
  forall k, 1 <= sk_scalar k < secp_n -> from_wif (to_wif k) = Ok k.
Proof. exact wif_roundtrip. Qed.
Print Assumptions C07_wif_roundtrip.

Theorem C07_to_wif_is_base58check :
  forall k, to_wif k = b58check_encode (fun m => sha256 (sha256 m)) (wif_payload x80 k).
Proof. exact to_wif_base58check. Qed.
Print Assumptions C07_to_wif_is_base58check.

Theorem C07_wif_bad_checksum_rejected :
  forall s wb, b58_decode s = Some wb ->
    checksum4 (firstn (length wb - 4) wb) <> skipn (length wb - 4) wb -> from_wif s = Err.
Proof. exact wif_bad_checksum_rejected. Qed.
Print Assumptions C07_wif_bad_checksum_rejected.

Theorem C07_wif_corrupt_checksum_rejected :
  forall p k ck, ck <> checksum4 (wif_payload p k) -> length ck = 4%nat ->
    from_wif (b58_encode (wif_payload p k ++ ck)) = Err.
Proof. exact wif_corrupt_checksum_rejected. Qed.
Print Assumptions C07_wif_corrupt_checksum_rejected.

Theorem C07_wif_bad_length_rejected :
  forall s wb, b58_decode s = Some wb -> length wb <> 37%nat -> length wb <> 38%nat -> from_wif s = Err.
Proof. exact wif_bad_length_rejected. Qed.
Print Assumptions C07_wif_bad_length_rejected.

Theorem C07_wif_bad_base58_rejected : forall s, b58_decode s = None -> from_wif s = Err.
Proof. exact from_wif_bad_base58. Qed.
Print Assumptions C07_wif_bad_base58_rejected.

(* exactness: an accepted string is the Base58Check string of  v || key || [01]  for the returned key and
   flag and SOME version byte v — the code does not look at the version byte (observation, see the notes) *)
Theorem C07_from_wif_sound :
  forall s k, from_wif s = Ok k ->
    1 <= sk_scalar k < secp_n /\
    exists p, s = b58_encode (wif_payload p k ++ checksum4 (wif_payload p k)).
Proof. exact from_wif_sound. Qed.
Print Assumptions C07_from_wif_sound.

Theorem C07_from_wif_total : forall s, from_wif s <> Panic.
Proof. exact from_wif_total. Qed.
Print Assumptions C07_from_wif_total.

(* 3. Addresses: every prefix byte, every 20-byte hash (leading zero bytes included: no side condition). *)
Theorem C07_addr_roundtrip :
  forall prefix h ck, length h = 20%nat ->
    addr_from_string (addr_to_string {| a_prefix := prefix; a_hash := h; a_checksum := ck |})
    = Ok {| a_prefix := prefix; a_hash := h; a_checksum := checksum4 (prefix :: h) |}.
Proof. exact addr_roundtrip_gen. Qed.
Print Assumptions C07_addr_roundtrip.

Theorem C07_addr_to_string_is_base58check :
  forall a, addr_to_string a = b58check_encode (fun m => sha256 (sha256 m)) (a_prefix a :: a_hash a).
Proof. exact addr_to_string_base58check. Qed.
Print Assumptions C07_addr_to_string_is_base58check.

Theorem C07_addr_reject :
  forall s db, b58_decode s = Some db ->
    (length db <> 25%nat \/ checksum4 (firstn 21 db) <> skipn 21 db) -> addr_from_string s = Err.
Proof. exact addr_reject. Qed.
Print Assumptions C07_addr_reject.

Theorem C07_addr_reject_base58 : forall s, b58_decode s = None -> addr_from_string s = Err.
Proof. exact addr_reject_base58. Qed.
Print Assumptions C07_addr_reject_base58.

Theorem C07_addr_from_string_sound :
  forall s a, addr_from_string s = Ok a -> addr_wf a /\ s = addr_to_string a.
Proof. exact addr_from_string_sound. Qed.
Print Assumptions C07_addr_from_string_sound.

Theorem C07_addr_from_string_total : forall s, addr_from_string s <> Panic.
Proof. exact addr_from_string_total. Qed.
Print Assumptions C07_addr_from_string_total.

Theorem C07_addr_from_hash :
  forall h, (length h = 20%nat ->
             addr_from_pubkey_hash h = Ok {| a_prefix := x00; a_hash := h; a_checksum := checksum4 (x00 :: h) |})
         /\ (length h <> 20%nat -> addr_from_pubkey_hash h = Err).
Proof. exact (fun h => conj (addr_from_pubkey_hash_ok h) (addr_from_pubkey_hash_err h)). Qed.
Print Assumptions C07_addr_from_hash.

(* the address of a key, re-prefixed for any network, round-trips and carries HASH160 of the key bytes *)
Theorem C07_addr_of_key :
  forall pk p a a', addr_from_pubkey pk = Ok a -> addr_set_chain a p = Ok a' ->
    addr_from_string (addr_to_string a') = Ok a' /\ a_prefix a' = p /\
    a_hash a' = ripemd160 (sha256 (pk_point pk)).
Proof. exact addr_string_of_key. Qed.
Print Assumptions C07_addr_of_key.

(* 4. Public keys *)
Theorem C07_pubkey_accept_iff :
  forall bs, (exists pk, pub_from_bytes curve_ref bs = Ok pk) <-> (exists P, sec1_decode bs = Some P).
Proof. exact pubkey_accept_iff. Qed.
Print Assumptions C07_pubkey_accept_iff.

Theorem C07_pubkey_accepted_is_point :
  forall bs pk, pub_from_bytes curve_ref bs = Ok pk ->
    pk_point pk = bs /\
    exists x y, 0 <= x < secp_p /\ 0 <= y < secp_p /\ on_curve (Some (x, y)) = true /\
                sec1_decode bs = Some (Some (x, y)) /\
                pk_compressed pk = Nat.eqb (length bs) 33 /\
                (length bs = 33%nat \/ length bs = 65%nat) /\
                (y <> 0 -> bs = sec1_encode (pk_compressed pk) (Some (x, y))).
Proof. exact pubkey_accepted_is_point. Qed.
Print Assumptions C07_pubkey_accepted_is_point.

Theorem C07_pubkey_point_accepted :
  forall c x y, 0 <= x < secp_p -> 0 <= y < secp_p -> on_curve (Some (x, y)) = true ->
    pub_from_bytes curve_ref (sec1_encode c (Some (x, y)))
    = Ok {| pk_point := sec1_encode c (Some (x, y)); pk_compressed := c |}.
Proof. exact pubkey_point_accepted_u. Qed.
Print Assumptions C07_pubkey_point_accepted.

Theorem C07_pubkey_rejects :
  pub_from_bytes curve_ref [x00] = Err
  /\ (forall tag rest, tag <> x02 -> tag <> x03 -> tag <> x04 -> pub_from_bytes curve_ref (tag :: rest) = Err)
  /\ (forall bs, length bs <> 33%nat -> length bs <> 65%nat -> pub_from_bytes curve_ref bs = Err)
  /\ (forall bs, pub_from_bytes curve_ref bs <> Panic).
Proof.
  exact (conj pubkey_identity_rejected (conj pubkey_bad_tag_rejected (conj pubkey_bad_length_rejected pub_from_bytes_total))).
Qed.
Print Assumptions C07_pubkey_rejects.

(* compressing and decompressing are mutually inverse on every curve point *)
Theorem C07_compress_decompress_inverse :
  forall x y, 0 <= x < secp_p -> 0 <= y < secp_p -> on_curve (Some (x, y)) = true ->
    let P := Some (x, y) in
    pub_to_decompressed curve_ref (pk_of true P) = Ok (pk_of false P)
    /\ pub_to_compressed (pk_of false P) = Ok (pk_of true P)
    /\ pub_to_decompressed curve_ref (pk_of false P) = Ok (pk_of false P)
    /\ pub_to_compressed (pk_of true P) = Ok (pk_of true P).
Proof. exact compress_decompress_inverse_u. Qed.
Print Assumptions C07_compress_decompress_inverse.

Theorem C07_to_public_key :
  forall d c x y, pubkey d = Some (x, y) ->
    to_public_key curve_ref {| sk_scalar := d; sk_compressed := c |} = Ok (pk_of c (Some (x, y))).
Proof. exact to_public_key_spec. Qed.
Print Assumptions C07_to_public_key.

(* 5. Scripts *)
Theorem C07_locking_script_spec :
  forall a, length (a_hash a) = 20%nat ->
    addr_locking_script a = Ok (p2pkh_bits (a_hash a)) /\
    to_bytes (p2pkh_bits (a_hash a)) = [x76; xa9; x14] ++ a_hash a ++ [x88; xac].
Proof. exact locking_script_spec. Qed.
Print Assumptions C07_locking_script_spec.

Theorem C07_unlock_accepts_own_key :
  forall pk p a a' sig, addr_from_pubkey pk = Ok a -> addr_set_chain a p = Ok a' ->
    (2 <= length sig <= 75)%nat -> (2 <= length (pk_point pk) <= 75)%nat ->
    addr_unlocking_script a' pk sig = Ok [BPush sig; BPush (pk_point pk)].
Proof. exact unlock_accepts_own_key. Qed.
Print Assumptions C07_unlock_accepts_own_key.

Theorem C07_unlock_rejects_other_hash :
  forall a pk sig, a_hash a <> hash_160 (pk_point pk) -> addr_unlocking_script a pk sig = Err.
Proof. exact unlock_rejects_other_hash. Qed.
Print Assumptions C07_unlock_rejects_other_hash.

(* ------------------------------------------------------------------ *)
(* non-vacuity and anchors (values from the repository's tests and from the Bitcoin wiki) *)
Example C07_wif_anchor :
  omap (fun k => (hex_of_bytes (priv_to_bytes k), sk_compressed k))
       (from_wif "5HueCGU8rMjxEXxiPuD5BDku4MkFqeZyd4dZ1jvhTVqvbTLvyTJ")
  = Ok ("0c28fca386c7a227600b2fe50b7cae11ec86d3bf1fbe471be89827e19d72aa1d", false)
  /\ omap to_wif (priv_from_hex "0c28fca386c7a227600b2fe50b7cae11ec86d3bf1fbe471be89827e19d72aa1d")
     = Ok "KwdMAjGmerYanjeui5SHS7JkmpZvVipYvB2LJGU1ZxJwYvP98617".
Proof. split; vm_compute; reflexivity. Qed.

Example C07_short_address_accepted :
  omap (fun a => hex_of_bytes (a_hash a)) (addr_from_string "1111111111111111111114oLvT2")
  = Ok "0000000000000000000000000000000000000000"
  /\ addr_from_string "1111111111111111111114oLvT3" = Err
  /\ addr_from_string "1A1zP1eP5QGefi2DMPTfTL5SLmv7DivfNa1" = Err.
Proof. repeat split; vm_compute; reflexivity. Qed.

Example C07_wif_rejects :
  from_wif "1" = Err /\ from_wif "" = Err /\ from_wif "3QJmnh" = Err
  /\ from_wif "5HueCGU8rMjxEXxiPuD5BDku4MkFqeZyd4dZ1jvhTVqvbTLvyTK" = Err.
Proof. repeat split; vm_compute; reflexivity. Qed.

(* uncompressed forms only: the reference instance over Z is slow on square roots; compressed forms are
   exercised on the execution instance by the correspondence run *)
Example C07_offcurve_rejected :
  omap pk_point (pub_from_hex curve_ref
    "0479be667ef9dcbbac55a06295ce870b07029bfcdb2dce28d959f2815b16f81798483ada7726a3c4655da4fbfc0e1108a8fd17b448a68554199c47d08ffb10d4b9") = Err
  /\ omap pk_point (pub_from_hex curve_ref "00") = Err
  /\ omap pk_point (pub_from_hex curve_ref
    "0679be667ef9dcbbac55a06295ce870b07029bfcdb2dce28d959f2815b16f81798483ada7726a3c4655da4fbfc0e1108a8fd17b448a68554199c47d08ffb10d4b8") = Err
  /\ omap (fun pk => (hex_of_bytes (firstn 4 (pk_point pk)), pk_compressed pk))
          (pub_from_hex curve_ref
    "0479be667ef9dcbbac55a06295ce870b07029bfcdb2dce28d959f2815b16f81798483ada7726a3c4655da4fbfc0e1108a8fd17b448a68554199c47d08ffb10d4b8")
     = Ok ("0479be66", false).
Proof. repeat split; vm_compute; reflexivity. Qed.

Example C07_genesis_locking :
  omap (fun s => hex_of_bytes (to_bytes s))
       (do a <- addr_from_string "1A1zP1eP5QGefi2DMPTfTL5SLmv7DivfNa"; addr_locking_script a)
  = Ok "76a91462e907b15cbf27d5425399ebf6f0fb50ebb88f1888ac".
Proof. vm_compute. reflexivity. Qed.

(* the number theory behind the compressed form: the field prime and the group order are prime *)
Theorem C07_field_prime : Znumtheory.prime secp_p.
Proof. exact secp_p_prime. Qed.
Print Assumptions C07_field_prime.

Theorem C07_sqrt_candidate :
  forall y, 0 <= y < secp_p ->
    let b := fpow Z_ops secp_p ((y * y) mod secp_p) secp_sqrt_exp in b = y \/ b = (secp_p - y) mod secp_p.
Proof. exact sqrt_ok_holds. Qed.
Print Assumptions C07_sqrt_candidate.
