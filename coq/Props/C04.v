(* Props/C04.v — pinned statements of property C04 (the signature-hash preimage depends only on the current
   contents of the transaction, never on the call history).  Statements only; proofs are in
   Proofs/CacheProofs.v.  H stands for double SHA-256; nothing is assumed about it.
   `state` = contents + the three memoised hashes; `step` / `run` transcribe the mutators of mod.rs and the
   cache reads/writes of sighash.rs (Model/Cache.v); `step_pure` / `run_pure` are the same API with no cache
   at all; `sighash_preimage` is the uncached computation (Model/Sighash.v, properties C03 / C10). *)
From BSV Require Import Base.Hex Prim.Sha256 Model.Opcodes Model.Script Model.VarInt Model.Tx Model.Sighash Model.Cache
  Spec.TxWire Spec.SighashWire Proofs.TxProofs Proofs.CacheProofs Proofs.CacheFresh.
Local Open Scope list_scope.

(* 1. the invariant: each slot is absent or holds the hash of the current inputs / sequences / outputs *)
Theorem C04_inv_init : forall (H : bytes -> bytes) t, Inv H (fresh t).
Proof. exact inv_init. Qed.
Print Assumptions C04_inv_init.

Theorem C04_inv_unfold :
  forall (H : bytes -> bytes) s,
    Inv H s <->
    (match c_inputs (st_cache s) with None => True | Some x => x = H (outpoints_bytes (st_tx s)) end /\
     match c_sequence (st_cache s) with None => True | Some x => x = H (sequences_bytes (st_tx s)) end /\
     match c_outputs (st_cache s) with None => True | Some x => x = H (outputs_bytes (st_tx s)) end).
Proof. exact inv_unfold. Qed.
Print Assumptions C04_inv_unfold.

Theorem C04_inv_step :
  forall (H : bytes -> bytes) s o s' out, Inv H s -> step H s o = Ok (s', out) -> Inv H s'.
Proof. exact inv_step. Qed.
Print Assumptions C04_inv_step.

(* 2. any history, any length, any interleaving *)
Theorem C04_reachable_inv :
  forall (H : bytes -> bytes) ops s s' outs, Inv H s -> run H ops s = Ok (s', outs) -> Inv H s'.
Proof. exact reachable_inv. Qed.
Print Assumptions C04_reachable_inv.

(* 3. the cached computation answers like the uncached one on the current contents, for every flag, and leaves
   the contents alone *)
Theorem C04_history_independent :
  forall (H : bytes -> bytes) s idx f sub v,
    Inv H s ->
    snd (sighash_cached H s idx f sub v) = sighash_preimage H (st_tx s) idx f sub v /\
    st_tx (fst (sighash_cached H s idx f sub v)) = st_tx s /\
    Inv H (fst (sighash_cached H s idx f sub v)).
Proof. exact sighash_cached_ok. Qed.
Print Assumptions C04_history_independent.

(* every step, and therefore every history started on a new / parsed transaction, behaves exactly like the
   cache-free semantics: same contents, same returned preimages, same refusals, same panics on misuse *)
Theorem C04_step_is_pure :
  forall (H : bytes -> bytes) s o s' out,
    Inv H s -> step H s o = Ok (s', out) -> step_pure H (st_tx s) o = Ok (st_tx s', out).
Proof. exact step_is_pure. Qed.
Print Assumptions C04_step_is_pure.

Theorem C04_step_panic_is_pure :
  forall (H : bytes -> bytes) s o, Inv H s -> step H s o = Panic -> step_pure H (st_tx s) o = Panic.
Proof. exact step_panic. Qed.
Print Assumptions C04_step_panic_is_pure.

Theorem C04_run_outputs_pure :
  forall (H : bytes -> bytes) ops t s' outs,
    run H ops (fresh t) = Ok (s', outs) -> run_pure H ops t = Ok (st_tx s', outs).
Proof. exact run_outputs_pure. Qed.
Print Assumptions C04_run_outputs_pure.

Theorem C04_after_history_uncached :
  forall (H : bytes -> bytes) ops t s' outs idx f sub v,
    run H ops (fresh t) = Ok (s', outs) ->
    snd (sighash_cached H s' idx f sub v) = sighash_preimage H (st_tx s') idx f sub v.
Proof. exact after_history_uncached. Qed.
Print Assumptions C04_after_history_uncached.

(* 4 (partial: the serialise / parse round trip of the current contents — property C01 — is the hypothesis
   `roundtrips`).  The answer equals the one computed on a freshly parsed copy of the current serialisation. *)
Theorem C04_equals_fresh_parse_partial :
  forall (H : bytes -> bytes) s idx f sub v,
    Inv H s -> roundtrips (st_tx s) ->
    Ok (snd (sighash_cached H s idx f sub v)) =
      (do t' <- tx_from_bytes (tx_bytes (st_tx s)); Ok (snd (sighash_cached H (fresh t') idx f sub v))).
Proof. exact equals_fresh_parse. Qed.
Print Assumptions C04_equals_fresh_parse_partial.

(* 4, in full, from the C01 / C03 / C10 theorems: when the current contents are in range and their scripts
   are ones the script parser accepts (Proofs/TxProofs.fields_ok — everything a parsed or API-built transaction
   with 32-byte outpoint ids satisfies), the serialisation parses, and for each of the fourteen flags and every
   subscript of the parser's form the answer after any history equals the answer on the freshly parsed copy *)
Theorem C04_equals_fresh_parse :
  forall (H : bytes -> bytes) s idx f sub v,
    Inv H s -> fields_ok (fields_of (st_tx s)) -> is_sighash f = true -> plain_bits sub = true ->
    exists t', tx_from_bytes (tx_bytes (st_tx s)) = Ok t' /\
               snd (sighash_cached H s idx f sub v) = snd (sighash_cached H (fresh t') idx f sub v).
Proof. exact equals_fresh_parse_full. Qed.
Print Assumptions C04_equals_fresh_parse.

(* the preimage is a function of the wire-level view of the contents (all fourteen flags) *)
Theorem C04_preimage_depends_on_view :
  forall (H : bytes -> bytes) t t' idx f sub v,
    In f all_flags -> plain_bits sub = true -> view_tx t' = view_tx t ->
    sighash_preimage H t' idx f sub v = sighash_preimage H t idx f sub v.
Proof. exact preimage_depends_on_view. Qed.
Print Assumptions C04_preimage_depends_on_view.

(* ------------------------------------------------------------------ *)
(* non-vacuity, and documentation of the repaired defect, with H = SHA-256 twice on a concrete transaction
   (one input, two outputs).  History: sighash ALL|FORKID ; replace output 0 (resp. input 0) ; same sighash. *)
Definition sha256d (b : bytes) : bytes := sha256 (sha256 b).
Definition ex_in (n : N) : txin := txin_new (repeat (n2b n) 32) n [BOp 81] (Some (16909060 + n)%N).
Definition ex_out (n : N) : txout := txout_new (1000 + n) [BOp 118; BOp 169; BPush (repeat (n2b n) 20); BOp 136; BOp 172].
Definition ex_tx : tx := mk_tx 1 [ex_in 1] [ex_out 1; ex_out 2] 0.
Definition ex_hist_out : list op := [Sighash 65 0 [BOp 172] 5000; SetOutput 0 (ex_out 9); Sighash 65 0 [BOp 172] 5000].
Definition ex_hist_in : list op := [Sighash 65 0 [BOp 172] 5000; SetInput 0 (ex_in 9); Sighash 65 0 [BOp 172] 5000].

(* the current code: both calls return preimages, the second differs from the first (the contents changed),
   all three slots are filled afterwards, the contents round-trip, and the fresh-copy answer is the same *)
Example C04_nonvacuous :
  match run sha256d ex_hist_out (fresh ex_tx) with
  | Ok (s', [Ok a1; Ok a2]) =>
      bytes_eqb a1 a2 = false
      /\ (exists x y z, st_cache s' = mk_cache (Some x) (Some y) (Some z))
      /\ roundtrips (st_tx s')
      /\ run_pure sha256d ex_hist_out ex_tx = Ok (st_tx s', [Ok a1; Ok a2])
      /\ (do t' <- tx_from_bytes (tx_bytes (st_tx s')); Ok (snd (sighash_cached sha256d (fresh t') 0 65 [BOp 172] 5000))) = Ok (Ok a2)
  | _ => False
  end.
Proof. vm_compute. repeat split. do 3 eexists; reflexivity. Qed.

(* before commit 84e0ce2 (set_input / set_output without invalidation — `step_prefix`), the same histories return a
   stale second preimage: it differs from the cache-free semantics, and the invariant is broken *)
Example C04_prefix_refuted :
  match run_gen sha256d false ex_hist_out (fresh ex_tx), run_pure sha256d ex_hist_out ex_tx with
  | Ok (s', [Ok a1; Ok a2]), Ok (t', [Ok b1; Ok b2]) =>
      st_tx s' = t' /\ a1 = b1 /\ bytes_eqb a2 b2 = false /\ bytes_eqb a1 a2 = true
      /\ match c_outputs (st_cache s') with
         | Some x => bytes_eqb x (sha256d (outputs_bytes (st_tx s'))) = false | None => False end
  | _, _ => False
  end
  /\
  match run_gen sha256d false ex_hist_in (fresh ex_tx), run_pure sha256d ex_hist_in ex_tx with
  | Ok (s', [Ok a1; Ok a2]), Ok (t', [Ok b1; Ok b2]) =>
      st_tx s' = t' /\ a1 = b1 /\ bytes_eqb a2 b2 = false
      /\ match c_inputs (st_cache s'), c_sequence (st_cache s') with
         | Some x, Some y => bytes_eqb x (sha256d (outpoints_bytes (st_tx s'))) = false
                             /\ bytes_eqb y (sha256d (sequences_bytes (st_tx s'))) = false
         | _, _ => False end
  | _, _ => False
  end.
Proof. vm_compute. repeat split. Qed.

(* the hypotheses of C04_equals_fresh_parse are satisfiable: the example transaction is in range with parseable scripts *)
Example C04_fresh_parse_nonvacuous :
  fields_ok (fields_of ex_tx) /\ plain_bits [BOp 172] = true /\ is_sighash 65 = true.
Proof.
  split; [|split; reflexivity].
  unfold fields_ok. cbn [fields_of ex_tx f_version f_locktime f_ins f_outs map version inputs outputs locktime length].
  split; [reflexivity|]. split; [reflexivity|]. split; [reflexivity|]. split; [reflexivity|]. split.
  - apply Forall_cons; [|apply Forall_nil]. split.
    + unfold in_range. repeat split; vm_compute; reflexivity.
    + intros _. apply script_ok_dec. vm_compute. reflexivity.
  - apply Forall_cons; [|apply Forall_cons; [|apply Forall_nil]];
      (split; [unfold out_range; split; vm_compute; reflexivity | apply script_ok_dec; vm_compute; reflexivity]).
Qed.
