(* Model/Cache.v — the memoised sub-hashes of src/transaction/sighash.rs (HashCache) together with the
   mutation API of src/transaction/mod.rs: which calls fill which slot, which calls clear which slot.
   Definitions only.  The uncached preimage computation is Model/Sighash.v. *)
From BSV Require Import Base.Hex Model.Opcodes Model.Script Model.VarInt Model.Tx Model.Sighash.

(* struct HashCache { hash_inputs, hash_sequence, hash_outputs : Option<Hash> } *)
Record cache := mk_cache { c_inputs : option bytes; c_sequence : option bytes; c_outputs : option bytes }.
Definition empty_cache : cache := mk_cache None None None.          (* HashCache::new() *)

(* a Transaction value: contents + cache *)
Record state := mk_state { st_tx : tx; st_cache : cache }.
Definition fresh (t : tx) : state := mk_state t empty_cache.        (* new / from_bytes / from_hex / default *)

Definition with_inputs_slot (s : state) (h : option bytes) : state :=
  mk_state (st_tx s) (mk_cache h (c_sequence (st_cache s)) (c_outputs (st_cache s))).
Definition with_sequence_slot (s : state) (h : option bytes) : state :=
  mk_state (st_tx s) (mk_cache (c_inputs (st_cache s)) h (c_outputs (st_cache s))).
Definition with_outputs_slot (s : state) (h : option bytes) : state :=
  mk_state (st_tx s) (mk_cache (c_inputs (st_cache s)) (c_sequence (st_cache s)) h).

(* Vec::insert(index, x): panics when index > len *)
Definition vec_insert {A} (k : nat) (x : A) (l : list A) : outcome (list A) :=
  if Nat.ltb (length l) k then Panic else Ok (firstn k l ++ x :: skipn k l).
(* v[index] = x: panics when index >= len *)
Definition vec_set {A} (k : nat) (x : A) (l : list A) : outcome (list A) :=
  if Nat.ltb k (length l) then Ok (set_nth k x l) else Panic.

Inductive op :=
| AddInput (i : txin) | PrependInput (i : txin) | InsertInput (k : nat) (i : txin) | SetInput (k : nat) (i : txin)
| AddOutput (o : txout) | PrependOutput (o : txout) | InsertOutput (k : nat) (o : txout) | SetOutput (k : nat) (o : txout)
| SetVersion (v : N) | SetLocktime (v : N)
| CloneOp                                       (* continue with tx.clone(): contents and cache are copied *)
| Sighash (f : N) (idx : nat) (sub : list bit) (value : N)
| AddInputs (l : list txin)                     (* add_inputs(Vec<TxIn>): add_input for every element, in order *)
| AddOutputs (l : list txout)                   (* add_outputs(Vec<TxOut>) *)
| HashInputsOp (f : N)                          (* the public hash_inputs(&mut self, sighash) *)
| SignOp (f : N) (idx : nat) (sub : list bit) (value : N)   (* sign / sign_with_k: the returned value here is the
                                                   buffer handed to ECDSA (sighash_preimage_impl), see Model/Sighash.tx_sign *)
| GetOutpointsOp.                               (* get_outpoints(&mut self): reads only *)

Section WithHash.
  Variable sha256d : bytes -> bytes.

  (* fn hash_sequence(&mut self, sighash) *)
  Definition hash_sequence_c (s : state) (f : N) : state * bytes :=
    if hash_sequence_hashed f then
      match c_sequence (st_cache s) with
      | Some x => (s, x)
      | None => let h := sha256d (sequences_bytes (st_tx s)) in (with_sequence_slot s (Some h), h)
      end
    else (s, zero32).

  (* fn hash_outputs(&mut self, sighash, n_tx_in): the SINGLE arm neither reads nor writes the cache *)
  Definition hash_outputs_c (s : state) (f : N) (idx : nat) : state * outcome bytes :=
    if hash_outputs_single f then
      (s, if Nat.ltb (length (outputs (st_tx s))) idx then Err
          else match nth_error (outputs (st_tx s)) idx with
               | None => Err
               | Some o => Ok (sha256d (txout_bytes o))
               end)
    else if hash_outputs_all f then
      match c_outputs (st_cache s) with
      | Some x => (s, Ok x)
      | None => let h := sha256d (outputs_bytes (st_tx s)) in (with_outputs_slot s (Some h), Ok h)
      end
    else (s, Ok zero32).

  (* fn hash_inputs(&mut self, sighash) *)
  Definition hash_inputs_c (s : state) (f : N) : state * bytes :=
    if hash_inputs_zero f then (s, zero32)
    else match c_inputs (st_cache s) with
         | Some x => (s, x)
         | None => let h := sha256d (outpoints_bytes (st_tx s)) in (with_inputs_slot s (Some h), h)
         end.

  (* fn sighash_bip143(&mut self, ..): get_input, then hash_outputs, then hash_inputs, then hash_sequence *)
  Definition sighash_bip143_c (s : state) (idx : nat) (f : N) (sub : list bit) (value : N) : state * outcome bytes :=
    match nth_error (inputs (st_tx s)) idx with
    | None => (s, Err)
    | Some input =>
        let '(s1, ho) := hash_outputs_c s f idx in
        match ho with
        | Err => (s1, Err)
        | Panic => (s1, Panic)
        | Ok hashed_outputs =>
            let '(s2, hi) := hash_inputs_c s1 f in
            let '(s3, hs) := hash_sequence_c s2 f in
            let sb := to_bytes sub in
            (s3, Ok (le_bytes 4 (version (st_tx s))
                     ++ hi ++ hs
                     ++ txin_outpoint_bytes input true
                     ++ write_varint (N.of_nat (length sb)) ++ sb
                     ++ le_bytes 8 value
                     ++ le_bytes 4 (sequence input)
                     ++ hashed_outputs
                     ++ le_bytes 4 (locktime (st_tx s))
                     ++ le_bytes 4 f))
        end
    end.

  (* fn sighash_preimage_impl(&mut self, ..): the legacy algorithm works on `self.clone()` and never touches
     the cache of `self` *)
  Definition sighash_cached (s : state) (idx : nat) (f : N) (sub : list bit) (value : N) : state * outcome bytes :=
    if is_forkid_variant f then sighash_bip143_c s idx f sub value
    else (s, sighash_legacy (st_tx s) idx f sub).

  (* the mutators of mod.rs; `fix_set` = true is the current code (set_input / set_output clear their slots),
     false is the code before commit 84e0ce2, kept only for the refutation lemma *)
  Definition clear_in (s : state) (t' : tx) : state :=
    mk_state t' (mk_cache None None (c_outputs (st_cache s))).
  Definition clear_out (s : state) (t' : tx) : state :=
    mk_state t' (mk_cache (c_inputs (st_cache s)) (c_sequence (st_cache s)) None).
  Definition keep (s : state) (t' : tx) : state := mk_state t' (st_cache s).

  Definition with_ins (t : tx) (l : list txin) : tx := mk_tx (version t) l (outputs t) (locktime t).
  Definition with_outs (t : tx) (l : list txout) : tx := mk_tx (version t) (inputs t) l (locktime t).

  Definition step_gen (fix_set : bool) (s : state) (o : op) : outcome (state * option (outcome bytes)) :=
    let t := st_tx s in
    match o with
    | AddInput i => Ok (clear_in s (add_input t i), None)                              (* push *)
    | PrependInput i => Ok (clear_in s (with_ins t (i :: inputs t)), None)           (* insert(0, ..) *)
    | InsertInput k i => do l <- vec_insert k i (inputs t); Ok (clear_in s (with_ins t l), None)
    | SetInput k i => do l <- vec_set k i (inputs t);
                      Ok ((if fix_set then clear_in else keep) s (with_ins t l), None)
    | AddOutput x => Ok (clear_out s (add_output t x), None)
    | PrependOutput x => Ok (clear_out s (with_outs t (x :: outputs t)), None)
    | InsertOutput k x => do l <- vec_insert k x (outputs t); Ok (clear_out s (with_outs t l), None)
    | SetOutput k x => do l <- vec_set k x (outputs t);
                       Ok ((if fix_set then clear_out else keep) s (with_outs t l), None)
    | SetVersion v => Ok (keep s (mk_tx v (inputs t) (outputs t) (locktime t)), None)
    | SetLocktime v => Ok (keep s (mk_tx (version t) (inputs t) (outputs t) v), None)
    | CloneOp => Ok (s, None)
    | Sighash f idx sub value | SignOp f idx sub value =>
        let '(s', r) := sighash_cached s idx f sub value in
        match r with Panic => Panic | _ => Ok (s', Some r) end
    | AddInputs l => Ok (fold_left (fun s0 i => clear_in s0 (add_input (st_tx s0) i)) l s, None)
    | AddOutputs l => Ok (fold_left (fun s0 x => clear_out s0 (add_output (st_tx s0) x)) l s, None)
    | HashInputsOp f => let '(s', h) := hash_inputs_c s f in Ok (s', Some (Ok h))
    | GetOutpointsOp => Ok (s, None)
    end.
  Definition step := step_gen true.
  Definition step_prefix := step_gen false.

  (* a history: the results of the Sighash calls, in order *)
  Fixpoint run_gen (fix_set : bool) (ops : list op) (s : state) : outcome (state * list (outcome bytes)) :=
    match ops with
    | [] => Ok (s, [])
    | o :: r =>
        do x <- step_gen fix_set s o; let '(s1, out) := x in
        do y <- run_gen fix_set r s1; let '(s2, outs) := y in
        Ok (s2, match out with Some p => p :: outs | None => outs end)
    end.
  Definition run := run_gen true.

  (* the reference semantics of the same API without any cache: contents only *)
  Definition step_pure (t : tx) (o : op) : outcome (tx * option (outcome bytes)) :=
    match o with
    | AddInput i => Ok (add_input t i, None)
    | PrependInput i => Ok (with_ins t (i :: inputs t), None)
    | InsertInput k i => do l <- vec_insert k i (inputs t); Ok (with_ins t l, None)
    | SetInput k i => do l <- vec_set k i (inputs t); Ok (with_ins t l, None)
    | AddOutput x => Ok (add_output t x, None)
    | PrependOutput x => Ok (with_outs t (x :: outputs t), None)
    | InsertOutput k x => do l <- vec_insert k x (outputs t); Ok (with_outs t l, None)
    | SetOutput k x => do l <- vec_set k x (outputs t); Ok (with_outs t l, None)
    | SetVersion v => Ok (mk_tx v (inputs t) (outputs t) (locktime t), None)
    | SetLocktime v => Ok (mk_tx (version t) (inputs t) (outputs t) v, None)
    | CloneOp => Ok (t, None)
    | Sighash f idx sub value | SignOp f idx sub value =>
        match sighash_preimage sha256d t idx f sub value with
        | Panic => Panic
        | r => Ok (t, Some r)
        end
    | AddInputs l => Ok (fold_left add_input l t, None)
    | AddOutputs l => Ok (fold_left add_output l t, None)
    | HashInputsOp f => Ok (t, Some (Ok (hash_inputs sha256d t f)))
    | GetOutpointsOp => Ok (t, None)
    end.
  Fixpoint run_pure (ops : list op) (t : tx) : outcome (tx * list (outcome bytes)) :=
    match ops with
    | [] => Ok (t, [])
    | o :: r =>
        do x <- step_pure t o; let '(t1, out) := x in
        do y <- run_pure r t1; let '(t2, outs) := y in
        Ok (t2, match out with Some p => p :: outs | None => outs end)
    end.
End WithHash.
