(* Model/HashApi.v — what src/hash/*.rs and src/kdf/*.rs do on top of the external crates.

   External (not modelled from source, tied by the correspondence check only):
     sha2::{Sha256,Sha512}, sha1::Sha1, ripemd160::Ripemd160  — streaming engines; an engine is
       modelled by the bytes it has absorbed so far, `finalize` applies the Prim reference function;
     hmac::Hmac<D> (hmac 0.11.0, src/lib.rs) and pbkdf2::pbkdf2 (pbkdf2 0.8.0, src/lib.rs) — these
       two are short and generic over the digest, so they ARE transcribed here (crate_hmac_*,
       crate_pbkdf2), because the repository instantiates them with its own adapter types.

   Modelled from the repository: the Sha256d / Sha256r / Hash160 adapters (engine + reverse flag,
   BlockSize = 64), `Digest::digest` over them, Hash::{sha_1, ..., hash_160}, Hash::hmac<T>(input, key)
   and its six instantiations, get_hash_digest, KDF::pbkdf2_impl.                       *)
From BSV Require Import Base.Bytes Base.Hex Prim.MD Prim.Sha256 Prim.Sha512 Prim.Sha1 Prim.Ripemd160.

(* ------------------------------------------------------------------ *)
(* The `digest` 0.9 interface that hmac::Hmac<D> requires of D:
   Update + BlockInput + FixedOutput + Reset + Default + Clone.          *)
Record digest_impl : Type := {
  d_state : Type;
  d_default : d_state;                       (* Default::default() *)
  d_update : d_state -> bytes -> d_state;    (* Update::update *)
  d_finalize : d_state -> bytes;             (* FixedOutput::finalize_fixed (consumes) *)
  d_reset : d_state -> d_state;              (* Reset::reset *)
  d_block : nat                              (* BlockInput::BlockSize *)
}.

(* Digest::digest(data): default, update, finalize *)
Definition d_digest (D : digest_impl) (data : bytes) : bytes :=
  d_finalize D (d_update D (d_default D) data).

(* finalize_fixed_reset / finalize_into_reset: output of a clone, then reset *)
Definition d_finalize_reset (D : digest_impl) (s : d_state D) : bytes * d_state D :=
  (d_finalize D s, d_reset D s).

(* ------------------------------------------------------------------ *)
(* External engines.                                                   *)
Inductive engine_kind := ESha1 | ESha256 | ESha512 | ERipemd160.

Definition engine_fn (k : engine_kind) : bytes -> bytes :=
  match k with ESha1 => sha1 | ESha256 => sha256 | ESha512 => sha512 | ERipemd160 => ripemd160 end.
Definition engine_block (k : engine_kind) : nat :=
  match k with ESha512 => 128 | _ => 64 end.

Definition engine_impl (k : engine_kind) : digest_impl := {|
  d_state := bytes;
  d_default := [];
  d_update := fun e d => e ++ d;
  d_finalize := fun e => engine_fn k e;
  d_reset := fun _ => [];
  d_block := engine_block k
|}.

(* ------------------------------------------------------------------ *)
(* The three adapters: struct { engine: Sha256, reverse: bool }.        *)
Inductive adapter_kind := ASha256d | ASha256r | AHash160.

Record adapter : Type := { a_engine : bytes; a_reverse : bool }.

(* finalize_into of each adapter, before the optional reversal:
     Sha256d: Sha256::digest(engine.finalize())
     Sha256r: engine.finalize()
     Hash160: Ripemd160::digest(engine.finalize())                      *)
Definition adapter_fn (k : adapter_kind) (buffered : bytes) : bytes :=
  match k with
  | ASha256d => d_digest (engine_impl ESha256) (d_finalize (engine_impl ESha256) buffered)
  | ASha256r => d_finalize (engine_impl ESha256) buffered
  | AHash160 => d_digest (engine_impl ERipemd160) (d_finalize (engine_impl ESha256) buffered)
  end.

(* Default (derive(Default) gives reverse = false; Hash160::default() = new(false)) *)
Definition ad_new : adapter := {| a_engine := []; a_reverse := false |}.
(* Hash160::new(reverse) *)
Definition ad_new_rev (reverse : bool) : adapter := {| a_engine := []; a_reverse := reverse |}.
Definition ad_update (a : adapter) (d : bytes) : adapter :=
  {| a_engine := a_engine a ++ d; a_reverse := a_reverse a |}.
(* ReversibleDigest::reverse: clone with the flag set (it is never cleared) *)
Definition ad_reverse (a : adapter) : adapter :=
  {| a_engine := a_engine a; a_reverse := true |}.
Definition ad_finalize (k : adapter_kind) (a : adapter) : bytes :=
  let h := adapter_fn k (a_engine a) in
  if a_reverse a then rev h else h.
(* Reset::reset replaces the engine only; the reverse flag survives *)
Definition ad_reset (a : adapter) : adapter :=
  {| a_engine := []; a_reverse := a_reverse a |}.

Definition adapter_impl (k : adapter_kind) : digest_impl := {|
  d_state := adapter;
  d_default := ad_new;
  d_update := ad_update;
  d_finalize := ad_finalize k;
  d_reset := ad_reset;
  d_block := 64
|}.

(* ------------------------------------------------------------------ *)
(* src/hash/mod.rs: one-shot functions, all of the form Hash( X::digest(input).to_vec() ) *)
Definition sha_1 (input : bytes) : bytes := d_digest (engine_impl ESha1) input.
Definition sha_256 (input : bytes) : bytes := d_digest (engine_impl ESha256) input.
Definition sha_512 (input : bytes) : bytes := d_digest (engine_impl ESha512) input.
Definition ripemd_160 (input : bytes) : bytes := d_digest (engine_impl ERipemd160) input.
Definition sha_256d (input : bytes) : bytes := d_digest (adapter_impl ASha256d) input.
Definition hash_160 (input : bytes) : bytes := d_digest (adapter_impl AHash160) input.

(* src/hash/digest_utils.rs: get_hash_digest
     Sha256  => Sha256r::default().chain(preimage)
     Sha256d => Sha256r::default().chain(Sha256r::digest(preimage))                     *)
Inductive signing_hash := SHSha256 | SHSha256d.
Definition get_hash_digest (algo : signing_hash) (preimage : bytes) : adapter :=
  match algo with
  | SHSha256 => ad_update ad_new preimage
  | SHSha256d => ad_update ad_new (d_digest (adapter_impl ASha256r) preimage)
  end.

(* ------------------------------------------------------------------ *)
(* hmac 0.11.0: struct Hmac<D> { digest: D, i_key_pad: [u8; BlockSize], opad_digest: D }  *)

(* `pad[idx] ^= k[idx]` for idx < len k; bytes of pad beyond len k stay as they are.
   (Also the in-place `xor(res, salt)` of the pbkdf2 crate: zip stops at the shorter one.) *)
Fixpoint xor_in_place (pad k : bytes) : bytes :=
  match pad, k with
  | p :: pad', x :: k' => bxor p x :: xor_in_place pad' k'
  | _, [] => pad
  | [], _ => []
  end.

Record hmac_state (D : digest_impl) : Type := {
  hm_digest : d_state D;
  hm_ikeypad : bytes;
  hm_opad_digest : d_state D
}.
Arguments hm_digest {D}. Arguments hm_ikeypad {D}. Arguments hm_opad_digest {D}.

(* NewMac::new_from_slice (never returns Err) *)
Definition crate_hmac_new (D : digest_impl) (key : bytes) : hmac_state D :=
  let bs := d_block D in
  let k :=
    if Nat.leb (length key) bs then key
    else let output := d_finalize D (d_update D (d_default D) key) in
         firstn (Nat.min (length output) bs) output in
  let ikp := xor_in_place (repeat x36 bs) k in
  let opad := xor_in_place (repeat x5c bs) k in
  {| hm_digest := d_update D (d_default D) ikp;
     hm_ikeypad := ikp;
     hm_opad_digest := d_update D (d_default D) opad |}.

Definition crate_hmac_update {D} (h : hmac_state D) (data : bytes) : hmac_state D :=
  {| hm_digest := d_update D (hm_digest h) data;
     hm_ikeypad := hm_ikeypad h;
     hm_opad_digest := hm_opad_digest h |}.

Definition crate_hmac_finalize {D} (h : hmac_state D) : bytes :=
  let hash := d_finalize D (hm_digest h) in
  d_finalize D (d_update D (hm_opad_digest h) hash).

(* Mac::reset *)
Definition crate_hmac_reset {D} (h : hmac_state D) : hmac_state D :=
  {| hm_digest := d_update D (d_reset D (hm_digest h)) (hm_ikeypad h);
     hm_ikeypad := hm_ikeypad h;
     hm_opad_digest := hm_opad_digest h |}.

(* src/hash/mod.rs: fn hmac<T>(input, key): new_from_slice(key).unwrap(); update(input) *)
Definition Hash_hmac (D : digest_impl) (input key : bytes) : hmac_state D :=
  crate_hmac_update (crate_hmac_new D key) input.

(* the six public functions:  X_hmac(input, key) = Hash::hmac::<X>(input, key).finalize() *)
Definition sha_1_hmac (input key : bytes) : bytes := crate_hmac_finalize (Hash_hmac (engine_impl ESha1) input key).
Definition sha_256_hmac (input key : bytes) : bytes := crate_hmac_finalize (Hash_hmac (engine_impl ESha256) input key).
Definition sha_512_hmac (input key : bytes) : bytes := crate_hmac_finalize (Hash_hmac (engine_impl ESha512) input key).
Definition ripemd_160_hmac (input key : bytes) : bytes := crate_hmac_finalize (Hash_hmac (engine_impl ERipemd160) input key).
Definition sha_256d_hmac (input key : bytes) : bytes := crate_hmac_finalize (Hash_hmac (adapter_impl ASha256d) input key).
Definition hash_160_hmac (input key : bytes) : bytes := crate_hmac_finalize (Hash_hmac (adapter_impl AHash160) input key).

(* ------------------------------------------------------------------ *)
(* pbkdf2 0.8.0 (non-parallel build): pbkdf2<F: Mac>(password, salt, rounds, res)
     n = F::OutputSize; prf = F::new_from_slice(password)
     for (i, chunk) in res.chunks_mut(n).enumerate() { pbkdf2_body(i as u32, chunk, &prf, salt, rounds) }
   pbkdf2_body: chunk := 0; salt' := prf(salt || (i+1).to_be_bytes()); chunk ^= salt';
                for _ in 1..rounds { salt' := prf(salt'); chunk ^= salt' }
   `prf.clone(); update; finalize` is the MAC of the concatenation of the updates.          *)
Section CratePbkdf2.
  Variable D : digest_impl.

  Definition crate_prf (pw msg : bytes) : bytes :=
    crate_hmac_finalize (crate_hmac_update (crate_hmac_new D pw) msg).
  (* two updates on the clone: salt, then the block index *)
  Definition crate_prf2 (pw m1 m2 : bytes) : bytes :=
    crate_hmac_finalize (crate_hmac_update (crate_hmac_update (crate_hmac_new D pw) m1) m2).

  Definition cr_step (pw : bytes) (uc : bytes * bytes) : bytes * bytes :=
    let u' := crate_prf pw (fst uc) in (u', xor_in_place (snd uc) u').

  (* i is the 0-based chunk index (u32); (i + 1).to_be_bytes() — be_bytes 4 truncates like a
     wrapping add; with overflow checks the add panics at i = 2^32 - 1 (see pbkdf2_impl below) *)
  Definition cr_body (pw salt : bytes) (rounds i : N) (chunklen : nat) : bytes :=
    let u1 := crate_prf2 pw salt (be_bytes 4 (i + 1)) in
    snd (N.iter (rounds - 1) (cr_step pw) (u1, xor_in_place (zeros chunklen) u1)).

  (* chunks_mut(n): chunks of n bytes, the last one possibly shorter; fuel = output length *)
  Fixpoint cr_chunks (n : nat) (pw salt : bytes) (rounds : N) (fuel remaining : nat) (i : N) : bytes :=
    match fuel with
    | O => []
    | S f =>
        if Nat.eqb remaining 0 then []
        else let cl := Nat.min n remaining in
             cr_body pw salt rounds i cl ++ cr_chunks n pw salt rounds f (remaining - cl) (i + 1)
    end.

  Definition crate_pbkdf2 (n : nat) (pw salt : bytes) (rounds : N) (outlen : nat) : bytes :=
    cr_chunks n pw salt rounds outlen outlen 0.
End CratePbkdf2.

(* src/kdf/pbkdf2_kdf.rs *)
Inductive pbkdf2_hashes := PSHA1 | PSHA256 | PSHA512.
Definition pbkdf2_engine (h : pbkdf2_hashes) : engine_kind :=
  match h with PSHA1 => ESha1 | PSHA256 => ESha256 | PSHA512 => ESha512 end.
Definition pbkdf2_outsize (h : pbkdf2_hashes) : nat :=
  match h with PSHA1 => 20 | PSHA256 => 32 | PSHA512 => 64 end.

Record kdf : Type := { kdf_hash : bytes; kdf_salt : bytes }.

(* KDF::pbkdf2_impl(password, salt, hash_algo, rounds: u32, output_length: usize) -> KDF.
   overflow_checks: with debug assertions `(i + 1)` panics for the chunk with index 2^32 - 1,
   i.e. when more than 2^32 - 1 chunks are requested (>= 80 GiB of output); otherwise it wraps. *)
Definition pbkdf2_impl (overflow_checks : bool) (password salt : bytes) (algo : pbkdf2_hashes)
           (rounds : N) (output_length : nat) : outcome kdf :=
  let n := pbkdf2_outsize algo in
  if overflow_checks && (4294967295 * N.of_nat n <? N.of_nat output_length)%N then Panic
  else Ok {| kdf_hash := crate_pbkdf2 (engine_impl (pbkdf2_engine algo)) n password salt rounds output_length;
             kdf_salt := salt |}.

(* KDF::pbkdf2 with Some(salt); with None the salt is the 22 ASCII characters of
   SaltString::generate(OsRng) (unpadded base64 of 16 random bytes) — a universally
   quantified argument here.                                                               *)
Definition kdf_pbkdf2 (overflow_checks : bool) (password : bytes) (salt : option bytes) (random_salt : bytes)
           (algo : pbkdf2_hashes) (rounds : N) (output_length : nat) : outcome kdf :=
  match salt with
  | Some s => pbkdf2_impl overflow_checks password s algo rounds output_length
  | None => pbkdf2_impl overflow_checks password random_salt algo rounds output_length
  end.

(* ------------------------------------------------------------------ *)
(* src/keypair/extended_private_key.rs, the part that is PBKDF2 / HMAC plumbing (observation point of C13):
   from_mnemonic_and_passphrase_impl: seed = KDF::pbkdf2(mnemonic, Some(salt), SHA512, 2048, 64) where
   salt = the passphrase if one is given, else b"mnemonic"  (NB: BIP39 prescribes "mnemonic" ++ passphrase);
   from_seed_impl: I = Hash::sha_512_hmac(seed, b"Bitcoin seed"); private key = I[0..32], chain code = I[32..64]. *)
Definition mnemonic_salt (passphrase : option bytes) : bytes :=
  match passphrase with Some v => v | None => bytes_of_string "mnemonic" end.

Definition mnemonic_seed (overflow_checks : bool) (mnemonic : bytes) (passphrase : option bytes) : outcome bytes :=
  do k <- pbkdf2_impl overflow_checks mnemonic (mnemonic_salt passphrase) PSHA512 2048 64;
  Ok (kdf_hash k).

Definition seed_master (seed : bytes) : bytes * bytes :=
  let i := sha_512_hmac seed (bytes_of_string "Bitcoin seed") in (firstn 32 i, skipn 32 i).

(* PrivateKey::from_bytes_impl (k256 SecretKey::from_bytes) rejects 0 and values >= the group order *)
Definition secp256k1_n : N := 0xFFFFFFFFFFFFFFFFFFFFFFFFFFFFFFFEBAAEDCE6AF48A03BBFD25E8CD0364141.
Definition from_seed_keys (seed : bytes) : outcome (bytes * bytes) :=
  let '(k, c) := seed_master seed in
  let v := be_val k in
  if (v =? 0)%N || (secp256k1_n <=? v)%N then Err else Ok (k, c).

Definition from_mnemonic_keys (overflow_checks : bool) (mnemonic : bytes) (passphrase : option bytes)
  : outcome (bytes * bytes) :=
  do seed <- mnemonic_seed overflow_checks mnemonic passphrase; from_seed_keys seed.
