(* Model/Ecdsa.v — transcription of src/ecdsa/{sign,verify,ecdh}.rs, of the parts of
   src/keypair/{private_key,public_key}.rs they use, and of PrivateKey::sign_message /
   Signature::verify_message (CURRENT code, i.e. after the `fix:` commits 4e75fad and 245eddf).

   External crates are represented by the executable references of Prim/:
     k256 0.10.4   try_sign_prehashed / verify_prehashed / recover_verify_key_from_digest_bytes,
                   PublicKey::from_sec1_bytes, to_encoded_point   -> Prim/Secp256k1.v
     rfc6979 0.1.0 generate_k / HmacDrbg                          -> Prim/Rfc6979.v  (HMAC is a parameter)
     hmac 0.11     Hmac<D> over the repository's digest adapters   -> Model/HashApi.v (crate_hmac_new etc.)
   The elliptic-curve primitives are taken from a record [ec_prims] so that the same text is run on the
   BigZ instance ([fast_prims], Run/Exec_C05.v, Run/Exec_C06.v) and reasoned about on the Z instance
   ([ref_prims], Proofs/EcdsaProofs.v); Proofs/EcdsaProofs.v proves that the two instances agree.

   Definitions only. *)
From BSV Require Import Base.Bytes Base.Hex.
From BSV Require Import Prim.Num Prim.Secp256k1 Prim.Rfc6979 Model.HashApi.
Local Open Scope Z_scope.

(* ------------------------------------------------------------------ *)
Record ec_prims : Type := MkPrims {
  p_sign : Z -> Z -> Z -> option (Z * Z * bool);      (* d k z -> (r, s, y-odd bit)      *)
  p_verify : point -> Z -> Z * Z -> bool;
  p_recover : Z -> Z -> bool -> Z -> outcome point;   (* r s odd z                       *)
  p_decode : bytes -> option point;                   (* validated SEC1 decoding          *)
  p_pubkey : Z -> point;                              (* d * G                           *)
  p_ecdh : Z -> point -> Z;                           (* x (d * Q)                       *)
  p_smul : Z -> point -> point;
  p_lift : Z -> bool -> option point                  (* AffinePoint::decompress          *)
}.
Definition ref_prims : ec_prims := MkPrims prim_sign prim_verify recover sec1_decode pubkey ecdh smul lift_x.
Definition fast_prims : ec_prims :=
  MkPrims prim_sign_fast prim_verify_fast recover_fast sec1_decode_fast pubkey_fast ecdh_fast smul_fast lift_x_fast.

(* ------------------------------------------------------------------ *)
(* Keys.                                                               *)

(* PrivateKey { secret_key: k256::SecretKey, is_pub_key_compressed } *)
Record privkey : Type := { sk_d : Z; sk_compressed : bool }.

(* PrivateKey::from_bytes: SecretKey::from_be_bytes — exactly 32 bytes, 1 <= d < n; compressed = true *)
Definition privkey_from_bytes (bs : bytes) : outcome privkey :=
  if Nat.eqb (length bs) 32 then
    let d := be_Z bs in
    if in_scalar d then Ok {| sk_d := d; sk_compressed := true |} else Err
  else Err.
Definition compress_public_key (sk : privkey) (c : bool) : privkey :=
  {| sk_d := sk_d sk; sk_compressed := c |}.

(* PublicKey { point: Vec<u8> (a validated SEC1 encoding), is_compressed } *)
Record pubkey : Type := { pk_point : bytes; pk_compressed : bool }.

(* PublicKey::from_bytes (after fix 21bf134): EncodedPoint::from_bytes + k256::PublicKey::from_sec1_bytes;
   is_compressed = EncodedPoint::is_compressed, i.e. the tag is 02 or 03 *)
Definition pubkey_from_bytes (P : ec_prims) (bs : bytes) : outcome pubkey :=
  match p_decode P bs with
  | None => Err
  | Some _ =>
      Ok {| pk_point := bs;
            pk_compressed := match bs with t :: _ => byte_eqb t x02 || byte_eqb t x03 | [] => false end |}
  end.

(* PrivateKey::to_public_key: get_point() = to_encoded_point(is_pub_key_compressed); to_decompressed of an
   already uncompressed encoding is the identity *)
Definition to_public_key (P : ec_prims) (sk : privkey) : pubkey :=
  {| pk_point := sec1_encode (sk_compressed sk) (p_pubkey P (sk_d sk)); pk_compressed := sk_compressed sk |}.

(* ------------------------------------------------------------------ *)
(* Signatures.                                                         *)
Record recinfo : Type := { ri_y_odd : bool; ri_x_reduced : bool; ri_compressed : bool }.
Record signature : Type := { sig_r : Z; sig_s : Z; sig_rec : option recinfo }.

(* <Scalar as Reduce<U256>>::from_be_bytes_reduced / from_le_bytes_reduced on a 32-byte array *)
Definition le_Z (bs : bytes) : Z := Z.of_N (le_val bs).
Definition scalar_be (digest : bytes) : Z := be_Z digest mod secp_n.
Definition scalar_le (digest : bytes) : Z := le_Z digest mod secp_n.

(* hmac::Hmac<D>: new_from_slice(key), update(msg) (in any number of pieces), finalize *)
Definition crate_mac (D : digest_impl) (key msg : bytes) : bytes :=
  crate_hmac_finalize (crate_hmac_update (crate_hmac_new D key) msg).

(* get_hash_digest(algo, preimage).finalize_fixed(): a Sha256r with reverse = false *)
Definition message_digest (algo : signing_hash) (preimage : bytes) : bytes :=
  ad_finalize ASha256r (get_hash_digest algo preimage).

(* try_sign_prehashed, then
     recid.ok_or_else(..)?.try_into()?   (k256 Id: fails only for an x-reduced id, which k256 never produces)
     RecoveryInfo::new(id.is_y_odd(), id.is_x_reduced() = false, private_key.is_pub_key_compressed)
   [ko = None]: rfc6979::generate_k did not find a candidate within the model's fuel (the Rust loop is
   unbounded; probability 2^-128 per round) — a distinguished value the theorems exclude. *)
Definition sign_core (P : ec_prims) (sk : privkey) (ko : option Z) (z : Z) : outcome signature :=
  match ko with
  | None => Err
  | Some k =>
      match p_sign P (sk_d sk) k z with
      | None => Err
      | Some (r, s, v) =>
          Ok {| sig_r := r; sig_s := s;
                sig_rec := Some {| ri_y_odd := v; ri_x_reduced := false; ri_compressed := sk_compressed sk |} |}
      end
  end.

(* nonce and message scalar of sign_preimage_deterministic_k::<D = Sha256r>:
     k_digest = reverse_endian_k ? from_le_bytes_reduced(digest) : from_be_bytes_reduced(digest)
     k = rfc6979_generate_k::<_, Sha256r>(d, k_digest, [])      (HMAC over Sha256r::default(): not reversed)
     msg_scalar = from_be_bytes_reduced(digest)                                                     *)
Definition det_nonce (d : Z) (digest : bytes) (reverse_k : bool) : option Z :=
  generate_k (crate_mac (adapter_impl ASha256r)) d (if reverse_k then scalar_le digest else scalar_be digest) [].

(* ECDSA::sign_with_deterministic_k *)
Definition sign_with_deterministic_k (P : ec_prims) (sk : privkey) (preimage : bytes) (algo : signing_hash)
           (reverse_k : bool) : outcome signature :=
  let digest := message_digest algo preimage in
  sign_core P sk (det_nonce (sk_d sk) digest reverse_k) (scalar_be digest).

(* PrivateKey::sign_message *)
Definition sign_message (P : ec_prims) (sk : privkey) (msg : bytes) : outcome signature :=
  sign_with_deterministic_k P sk msg SHSha256 false.

(* ECDSA::sign_digest_with_deterministic_k: the length guard of fix 245eddf, then
   sign_digest_bytes_deterministic_k: z = from_be_bytes_reduced(digest); k = rfc6979::<Sha256r>(d, z, []) *)
Definition sign_digest_with_deterministic_k (P : ec_prims) (sk : privkey) (digest : bytes) : outcome signature :=
  if Nat.eqb (length digest) 32 then
    let z := scalar_be digest in
    sign_core P sk (generate_k (crate_mac (adapter_impl ASha256r)) (sk_d sk) z []) z
  else Err.

(* ECDSA::sign_with_k: the nonce is the secret scalar of a second PrivateKey *)
Definition sign_with_k (P : ec_prims) (sk ephemeral : privkey) (preimage : bytes) (algo : signing_hash)
  : outcome signature :=
  sign_core P sk (Some (sk_d ephemeral)) (scalar_be (message_digest algo preimage)).

(* ECDSA::sign_with_random_k (after fix 4e75fad); [entropy] = the 32 bytes read from OsRng.
     k_digest = reverse_endian_k ? uint_reduced(U256::from_le_slice(reversed digest))   (= big-endian reading)
                                 : uint_reduced(U256::from_le_slice(digest))
     k = rfc6979_generate_k::<_, Sha256 | Sha256d>(d, k_digest, entropy)   (HMAC over the hash named by hash_algo)
     msg_scalar = uint_reduced(U256::from_be_slice(digest))                                          *)
Definition random_mac (algo : signing_hash) : bytes -> bytes -> bytes :=
  match algo with
  | SHSha256 => crate_mac (engine_impl ESha256)
  | SHSha256d => crate_mac (adapter_impl ASha256d)
  end.
Definition sign_with_random_k (P : ec_prims) (sk : privkey) (preimage : bytes) (algo : signing_hash)
           (reverse_k : bool) (entropy : bytes) : outcome signature :=
  let digest := message_digest algo preimage in
  let k_digest := if reverse_k then scalar_be digest else scalar_le digest in
  sign_core P sk (generate_k (random_mac algo) (sk_d sk) k_digest entropy) (scalar_be digest).

(* ------------------------------------------------------------------ *)
(* Verification.                                                       *)

(* ECDSA::verify_digest: VerifyingKey::from_encoded_point (Err when it is not a point),
   z = from_be_bytes_reduced(digest.finalize()), verify_prehashed; a failed verification is Err, never Ok(false) *)
Definition verify_digest (P : ec_prims) (message : bytes) (pk : pubkey) (sg : signature) (algo : signing_hash)
  : outcome bool :=
  match p_decode P (pk_point pk) with
  | None => Err
  | Some Q =>
      if p_verify P Q (scalar_be (message_digest algo message)) (sig_r sg, sig_s sg) then Ok true else Err
  end.

(* ECDSA::verify_hashbuf: length guard (fix 245eddf); AffinePoint::from_encoded_point(..).unwrap() *)
Definition verify_hashbuf (P : ec_prims) (digest : bytes) (pk : pubkey) (sg : signature) : outcome bool :=
  if Nat.eqb (length digest) 32 then
    match p_decode P (pk_point pk) with
    | None => Panic
    | Some Q => if p_verify P Q (scalar_be digest) (sig_r sg, sig_s sg) then Ok true else Err
    end
  else Err.

(* Signature::verify_message / PublicKey::is_valid_message: verify_digest(.., Sha256).is_ok() *)
Definition verify_message (P : ec_prims) (sg : signature) (message : bytes) (pk : pubkey) : bool :=
  match verify_digest P message pk sg SHSha256 with Ok _ => true | _ => false end.

(* ------------------------------------------------------------------ *)
(* ECDH::derive_shared_key: k256::PublicKey::from_sec1_bytes, diffie_hellman, 32 bytes big-endian x *)
Definition derive_shared_key (P : ec_prims) (sk : privkey) (pk : pubkey) : outcome bytes :=
  match p_decode P (pk_point pk) with
  | None => Err
  | Some Q => Ok (be32 (p_ecdh P (sk_d sk) Q))
  end.

(* ------------------------------------------------------------------ *)
(* ECDSA::private_key_from_signature_k (src/ecdsa/recover.rs): d = r^-1 (k s - H(m)) mod n with U1024 WRAPPING
   arithmetic (crypto-bigint wrapping_mul / wrapping_sub / wrapping_rem); m is the 32-byte digest as an integer
   (not reduced); three candidates are tried (s, n - s, and n - s with m + n); a candidate equal to 0 makes
   PrivateKey::from_bytes_impl fail, which ends the function with Err; candidates are compared through the
   COMPRESSED encoding of their public key (from_bytes_impl sets is_pub_key_compressed = true) against the bytes
   of the given public key.  [inv] is the scalar inversion (k256 Scalar::invert).  Not part of properties C05/C06
   (no theorem); modelled so that every public function of src/ecdsa is tied by the correspondence run. *)
Definition w1024 (v : Z) : Z := v mod 2 ^ 1024.
Definition private_key_from_signature_k (P : ec_prims) (inv : Z -> Z) (sg : signature) (pk : pubkey)
           (ephemeral : privkey) (preimage : bytes) (algo : signing_hash) : outcome privkey :=
  let k := sk_d ephemeral in
  let m := be_Z (message_digest algo preimage) in
  let s := sig_s sg in
  let rinv := inv (sig_r sg) in
  let n := secp_n in
  let cand (t : Z) : Z := w1024 (rinv * w1024 t) mod n in
  let key_of (d : Z) : outcome (privkey * bytes) :=
    if in_scalar d then Ok ({| sk_d := d; sk_compressed := true |}, sec1_encode true (p_pubkey P d)) else Err in
  let target := pk_point pk in
  do c1 <- key_of (cand (w1024 (k * s) - m));
  do c2 <- (if bytes_eqb (snd c1) target then Ok c1
            else key_of (cand (w1024 (k * w1024 (n - s)) - m)));
  do c3 <- (if bytes_eqb (snd c2) target then Ok c2
            else key_of (cand (w1024 (k * w1024 (n - s)) - w1024 (m + n))));
  if bytes_eqb (snd c3) target then Ok (fst c3) else Err.
