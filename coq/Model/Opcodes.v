(* Model/Opcodes.v — opcode enum as regenerated from src/script/op_codes.rs, with the
   facts the models rely on re-checked against the generated table on every build. *)
From BSV Require Import Base.Hex Gen.Opcodes_gen Gen.Sighash_gen.

Fixpoint lookup_name (t : list (string * N)) (b : N) : option string :=
  match t with
  | [] => None
  | (s, v) :: r => if (v =? b)%N then Some s else lookup_name r b
  end.
Fixpoint lookup_val (t : list (string * N)) (s : string) : option N :=
  match t with
  | [] => None
  | (s', v) :: r => if String.eqb s' s then Some v else lookup_val r s
  end.

(* OpCodes::from_u8 / Debug name / EnumString::from_str *)
Definition opcode_name (b : N) : option string := lookup_name opcode_table b.
Definition opcode_of_name (s : string) : option N := lookup_val opcode_table s.
Definition is_opcode (b : N) : bool := match opcode_name b with Some _ => true | None => false end.

Definition sighash_of_u8 (b : N) : bool := match lookup_name sighash_table b with Some _ => true | None => false end.

(* protocol constants *)
Definition OP_0 := 0%N.
Definition OP_PUSHDATA1 := 76%N. Definition OP_PUSHDATA2 := 77%N. Definition OP_PUSHDATA4 := 78%N.
Definition OP_1NEGATE := 79%N. Definition OP_1 := 81%N. Definition OP_16 := 96%N.
Definition OP_IF := 99%N. Definition OP_NOTIF := 100%N. Definition OP_VERIF := 101%N. Definition OP_VERNOTIF := 102%N.
Definition OP_ELSE := 103%N. Definition OP_ENDIF := 104%N.
Definition OP_CODESEPARATOR := 171%N.

Definition is_if (c : N) : bool := (c =? 99)%N || (c =? 100)%N || (c =? 101)%N || (c =? 102)%N.

(* ---- facts about the generated table, re-proved whenever the Rust enum changes ---- *)
Definition names_ok : bool :=
  forallb (fun p => match opcode_of_name (fst p) with Some v => (v =? snd p)%N | None => false end)
    [("OP_0", 0); ("OP_PUSHDATA1", 76); ("OP_PUSHDATA2", 77); ("OP_PUSHDATA4", 78); ("OP_1NEGATE", 79);
     ("OP_1", 81); ("OP_2", 82); ("OP_3", 83); ("OP_4", 84); ("OP_5", 85); ("OP_6", 86); ("OP_7", 87); ("OP_8", 88);
     ("OP_9", 89); ("OP_10", 90); ("OP_11", 91); ("OP_12", 92); ("OP_13", 93); ("OP_14", 94); ("OP_15", 95); ("OP_16", 96);
     ("OP_IF", 99); ("OP_NOTIF", 100); ("OP_VERIF", 101); ("OP_VERNOTIF", 102); ("OP_ELSE", 103); ("OP_ENDIF", 104);
     ("OP_VERIFY", 105); ("OP_RETURN", 106); ("OP_DUP", 118); ("OP_EQUAL", 135); ("OP_EQUALVERIFY", 136);
     ("OP_HASH160", 169); ("OP_CODESEPARATOR", 171); ("OP_CHECKSIG", 172); ("OP_CHECKSIGVERIFY", 173);
     ("OP_CHECKMULTISIG", 174); ("OP_CHECKMULTISIGVERIFY", 175);
     ("OP_DATA", 251); ("OP_SIG", 252); ("OP_PUBKEYHASH", 253); ("OP_PUBKEY", 254)]%N.
Lemma opcode_names_ok : names_ok = true.
Proof. vm_compute. reflexivity. Qed.

(* the table is a bijection between names and bytes *)
Fixpoint nodup_N (l : list N) : bool :=
  match l with [] => true | x :: r => negb (existsb (N.eqb x) r) && nodup_N r end.
Fixpoint nodup_S (l : list string) : bool :=
  match l with [] => true | x :: r => negb (existsb (String.eqb x) r) && nodup_S r end.
Lemma opcode_table_injective : nodup_N (map snd opcode_table) = true /\ nodup_S (map fst opcode_table) = true.
Proof. split; vm_compute; reflexivity. Qed.
Lemma opcode_table_bytes : forallb (fun p => (snd p <? 256)%N) opcode_table = true.
Proof. vm_compute. reflexivity. Qed.

(* no direct-push byte 1..75 is an opcode of the enum (the parser tests the range first) *)
Lemma direct_push_not_opcode :
  forallb (fun p => (snd p =? 0)%N || (75 <? snd p)%N) opcode_table = true.
Proof. vm_compute. reflexivity. Qed.

Lemma sighash_table_ok :
  map snd sighash_table = [1; 2; 3; 64; 65; 66; 67; 128; 129; 130; 131; 193; 194; 195]%N.   (* the translator emits the table sorted by value *)
Proof. vm_compute. reflexivity. Qed.
