(* Model/TxExt.v — transcription of the TxIn setters of the extended-format annotations
   (src/transaction/txin.rs: set_locking_script, set_satoshis, get_unlocking_script_size) and of
   Transaction::get_input / set_input (src/transaction/mod.rs).  Definitions only.
   `txin_bytes` (TxIn::to_bytes_impl, Model/Tx.v) serialises `unlocking` only: the annotations never reach the wire. *)
From BSV Require Import Base.Hex Model.Opcodes Model.Script Model.VarInt Model.Tx.

Definition txin_set_locking_script (i : txin) (s : list bit) : txin :=
  mk_txin (prev_tx_id i) (vout i) (unlocking i) (sequence i) (Some s) (satoshis i).
Definition txin_set_satoshis (i : txin) (v : N) : txin :=
  mk_txin (prev_tx_id i) (vout i) (unlocking i) (sequence i) (locking i) (Some v).
Definition txin_unlocking_script_size (i : txin) : N := N.of_nat (length (to_bytes (unlocking i))).

(* self.inputs.get(index).cloned() *)
Definition tx_get_input (t : tx) (k : nat) : option txin := nth_error (inputs t) k.
(* self.inputs[index] = input.clone(): index out of bounds panics *)
Definition tx_set_input (t : tx) (k : nat) (i : txin) : outcome tx :=
  if Nat.ltb k (length (inputs t))
  then Ok (mk_tx (version t) (firstn k (inputs t) ++ i :: skipn (S k) (inputs t)) (outputs t) (locktime t))
  else Panic.

(* the annotation step used by signers: optional set_locking_script, then optional set_satoshis *)
Definition txin_annotate (i : txin) (lk : option (list bit)) (sa : option N) : txin :=
  let i1 := match lk with Some s => txin_set_locking_script i s | None => i end in
  match sa with Some v => txin_set_satoshis i1 v | None => i1 end.

(* ------------------------------------------------------------------ *)
(* the remaining public construction / access API of src/transaction/{mod,txin,txout}.rs *)
Definition tx_default : tx := tx_new 2 0.                                   (* Transaction::default() *)
Definition txin_default : txin := mk_txin [] 0 [] 4294967295 None None.     (* TxIn::default() *)
Definition txin_set_prev_tx_id (i : txin) (id : bytes) : txin :=
  mk_txin id (vout i) (unlocking i) (sequence i) (locking i) (satoshis i).
Definition txin_set_vout (i : txin) (v : N) : txin :=
  mk_txin (prev_tx_id i) v (unlocking i) (sequence i) (locking i) (satoshis i).
Definition txin_set_unlocking_script (i : txin) (s : list bit) : txin :=
  mk_txin (prev_tx_id i) (vout i) s (sequence i) (locking i) (satoshis i).
Definition txin_set_sequence (i : txin) (v : N) : txin :=
  mk_txin (prev_tx_id i) (vout i) (unlocking i) v (locking i) (satoshis i).
(* set_version / set_nlocktime mutate and return a clone *)
Definition tx_set_version (t : tx) (v : N) : tx := mk_tx v (inputs t) (outputs t) (locktime t).
Definition tx_set_nlocktime (t : tx) (v : N) : tx := mk_tx (version t) (inputs t) (outputs t) v.

Definition prepend_input (t : tx) (i : txin) : tx := mk_tx (version t) (i :: inputs t) (outputs t) (locktime t).
Definition prepend_output (t : tx) (o : txout) : tx := mk_tx (version t) (inputs t) (o :: outputs t) (locktime t).
(* Vec::insert panics when index > len *)
Definition insert_at {A} (l : list A) (k : nat) (x : A) : outcome (list A) :=
  if Nat.leb k (length l) then Ok (firstn k l ++ x :: skipn k l) else Panic.
Definition insert_input (t : tx) (k : nat) (i : txin) : outcome tx :=
  do l <- insert_at (inputs t) k i; Ok (mk_tx (version t) l (outputs t) (locktime t)).
Definition insert_output (t : tx) (k : nat) (o : txout) : outcome tx :=
  do l <- insert_at (outputs t) k o; Ok (mk_tx (version t) (inputs t) l (locktime t)).
Definition tx_set_output (t : tx) (k : nat) (o : txout) : outcome tx :=
  if Nat.ltb k (length (outputs t))
  then Ok (mk_tx (version t) (inputs t) (firstn k (outputs t) ++ o :: skipn (S k) (outputs t)) (locktime t))
  else Panic.
Definition tx_get_output (t : tx) (k : nat) : option txout := nth_error (outputs t) k.
Definition add_inputs (t : tx) (l : list txin) : tx := fold_left add_input l t.
Definition add_outputs (t : tx) (l : list txout) : tx := fold_left add_output l t.

(* TxIn::get_finalised_script *)
Definition txin_finalised_script (i : txin) : outcome (list bit) :=
  match locking i with
  | Some l => from_bytes (to_bytes (unlocking i) ++ to_bytes l)
  | None => Ok (unlocking i)
  end.
(* get_sequence_as_bytes / get_n_locktime_as_bytes / get_satoshis_as_bytes: big-endian *)
Definition u32_be_bytes (n : N) : bytes := be_bytes 4 n.
Definition u64_be_bytes (n : N) : bytes := be_bytes 8 n.
(* get_prev_tx_id(Some(true)) reverses; None and Some(false) do not *)
Definition txin_prev_tx_id (i : txin) (little_endian : option bool) : bytes :=
  match little_endian with Some true => rev (prev_tx_id i) | _ => prev_tx_id i end.
Definition txin_outpoint (i : txin) (little_endian : option bool) : bytes :=
  txin_prev_tx_id i little_endian ++ le_bytes 4 (vout i).
