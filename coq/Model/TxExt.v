(* Model/TxExt.v — transcription of the TxIn setters of the extended-format annotations
   (src/transaction/txin.rs: set_locking_script, set_satoshis, get_unlocking_script_size) and of
   Transaction::get_input / set_input (src/transaction/mod.rs).  Definitions only.
   `txin_bytes` (TxIn::to_bytes_impl, Model/Tx.v) serialises `unlocking` only: the annotations never reach the wire. *)
From BSV Require Import Base.Hex Model.Opcodes Model.Script Model.VarInt Model.Tx.

Definition txin_set_locking_script (i : txin) (s : list bit) : txin :=
  mk_txin (prev_tx_id i) (vout i) (unlocking i) (sequence i) (Some s) (satoshis i).
Definition txin_set_satoshis (i : txin) (v : N) : txin :=
  mk_txin (prev_tx_id i) (vout i) (unlocking i) (sequence i) (locking i) (Some v).
Definition txin_unlocking_script_size (i : txin) : N := N.of_nat (length (to_bytes (unlocking i))).

(* self.inputs.get(index).cloned() *)
Definition tx_get_input (t : tx) (k : nat) : option txin := nth_error (inputs t) k.
(* self.inputs[index] = input.clone(): index out of bounds panics *)
Definition tx_set_input (t : tx) (k : nat) (i : txin) : outcome tx :=
  if Nat.ltb k (length (inputs t))
  then Ok (mk_tx (version t) (firstn k (inputs t) ++ i :: skipn (S k) (inputs t)) (outputs t) (locktime t))
  else Panic.

(* the annotation step used by signers: optional set_locking_script, then optional set_satoshis *)
Definition txin_annotate (i : txin) (lk : option (list bit)) (sa : option N) : txin :=
  let i1 := match lk with Some s => txin_set_locking_script i s | None => i end in
  match sa with Some v => txin_set_satoshis i1 v | None => i1 end.
