(* Model/Bsm.v — transcription of src/bsm/mod.rs (Bitcoin Signed Message), CURRENT code (after fix 894fcf9:
   the recovered key's HASH160 is compared with the address hash, not the address strings).
   Definitions only.

   Built on Model/Ecdsa.v (sign_with_deterministic_k, sign_with_k, verify_digest), Model/Sig.v
   (get_public_key, compact form), Model/Keys.v (P2PKHAddress) and Model/VarInt.v (write_varint on Vec<u8>). *)
From BSV Require Import Base.Bytes Base.Hex.
From BSV Require Import Prim.Num Prim.Secp256k1 Model.HashApi Model.VarInt Model.Ecdsa Model.Sig.
From BSV Require Model.Keys.
Local Open Scope Z_scope.

(* const MAGIC_BYTES: &[u8] = b"Bitcoin Signed Message:\n"   (24 bytes) *)
Definition MAGIC_BYTES : bytes := bytes_of_string "Bitcoin Signed Message:" ++ [x0a].

(* prepend_magic_bytes: write_varint(MAGIC_BYTES.len() as u64), MAGIC_BYTES, write_varint(msg.len() as u64), msg
   on a Vec<u8> (io::Write for Vec never fails, so the `?`s cannot fire) *)
Definition prepend_magic_bytes (msg : bytes) : bytes :=
  write_varint (N.of_nat (length MAGIC_BYTES)) ++ MAGIC_BYTES ++ write_varint (N.of_nat (length msg)) ++ msg.

(* the PublicKey that Signature::get_public_key returns, as the value P2PKHAddress::from_pubkey_impl reads *)
Definition keys_pub (pk : pubkey) : Keys.pubkey_t :=
  {| Keys.pk_point := pk_point pk; Keys.pk_compressed := pk_compressed pk |}.

Section WithPrims.
  Variable P : ec_prims.

  (* BSM::sign_impl *)
  Definition sign_impl (sk : privkey) (message : bytes) : outcome signature :=
    sign_with_deterministic_k P sk (prepend_magic_bytes message) SHSha256d false.

  (* BSM::sign_with_k_impl *)
  Definition sign_with_k_impl (sk ephemeral : privkey) (message : bytes) : outcome signature :=
    sign_with_k P sk ephemeral (prepend_magic_bytes message) SHSha256d.

  (* BSM::verify_message_impl:
       public_key = signature.get_public_key(&magic_message, Sha256d)?
       verify_p2pkh = P2PKHAddress::from_pubkey_impl(&public_key)?          (always mainnet prefix)
       the two to_string_impl()? calls cannot fail
       if verify_p2pkh.to_pubkey_hash() != address.to_pubkey_hash() -> Err
       ECDSA::verify_digest_impl(&magic_message, &public_key, signature, Sha256d)?;  Ok(true)        *)
  Definition verify_message_impl (message : bytes) (sg : signature) (address : Keys.address) : outcome bool :=
    let magic_message := prepend_magic_bytes message in
    do public_key <- get_public_key P sg magic_message SHSha256d;
    do verify_p2pkh <- Keys.addr_from_pubkey (keys_pub public_key);
    if negb (bytes_eqb (Keys.a_hash verify_p2pkh) (Keys.a_hash address)) then Err
    else do _ <- verify_digest P magic_message public_key sg SHSha256d; Ok true.

  (* BSM::is_valid_message / P2PKHAddress::is_valid_bitcoin_message *)
  Definition is_valid_message (message : bytes) (sg : signature) (address : Keys.address) : bool :=
    match verify_message_impl message sg address with Ok _ => true | _ => false end.

  (* The same two functions with the 32-byte digest of the magic message computed once and passed in
     (Run/Exec_C12.v hashes long messages only once); equal to the functions above by unfolding:
     Proofs/BsmProofs.v sign_impl_digest / verify_message_impl_digest. *)
  Definition sign_with_digest (sk : privkey) (digest : bytes) : outcome signature :=
    sign_core P sk (det_nonce (sk_d sk) digest false) (scalar_be digest).

  Definition verify_with_digest (digest : bytes) (sg : signature) (address : Keys.address) : outcome bool :=
    do public_key <- recover_with P sg (scalar_be digest);
    do verify_p2pkh <- Keys.addr_from_pubkey (keys_pub public_key);
    if negb (bytes_eqb (Keys.a_hash verify_p2pkh) (Keys.a_hash address)) then Err
    else
      do _ <- match p_decode P (pk_point public_key) with
              | None => Err
              | Some Q => if p_verify P Q (scalar_be digest) (sig_r sg, sig_s sg) then Ok true else Err
              end;
      Ok true.
End WithPrims.

Definition magic_digest (message : bytes) : bytes := message_digest SHSha256d (prepend_magic_bytes message).
