(* Model/Interp.v — transcription of src/interpreter/{mod.rs, state.rs, stack_trait.rs,
   script_matching.rs} (the code after the `fix:` commits).  Definitions only.

   Conventions
   * A Rust `Vec` is a Coq list in the SAME order (index 0 first, the stack top LAST); every
     `Vec`/slice operation that can panic in Rust (`remove`, `insert`, `swap`, `split_off`,
     `split_at`, `v[i]`, `splice`) and every `usize` subtraction is a helper that returns `Panic`
     outside its domain, so that "the interpreter cannot panic" is a theorem about this file and
     not an assumption of the transcription.
   * `BigInt` is `Z`.  `BigInt::from_bytes_le(sign, mag)`, `to_bytes_le` (sign + minimal
     little-endian magnitude, `[0]` for zero), `/` and `%` (truncating: `Z.quot`/`Z.rem`),
     `<<` (`Z.shiftl`), `>>` (rounds toward minus infinity on negatives: `Z.shiftr`) are the
     num-bigint 0.4.8 functions.  `i32`/`i64` values are `Z` with the range checks written out.
   * `usize as i64` (OP_DEPTH, OP_SIZE) cannot wrap: a `Vec` never holds 2^63 elements.
     `usize as i32` (OP_NUM2BIN) can, and is written as a wrapping cast.
   * CHECKSIG-family: everything that touches the transaction (flag byte, sighash preimage,
     signature/public-key parsing, ECDSA) is behind two Section variables; the stack protocol
     and every error condition of the interpreter itself are transcribed.  `Interpreter::from_script`
     always has `tx_script = None`. *)
From BSV Require Import Base.Hex Model.Opcodes Model.Script Model.HashApi.
Open Scope Z_scope.

(* ------------------------------------------------------------------ *)
(* Vec<T>                                                              *)
Section Vec.
  Context {A : Type}.

  Fixpoint split_last (l : list A) : option (list A * A) :=
    match l with
    | [] => None
    | x :: r => match split_last r with
                | None => Some ([], x)
                | Some (i, z) => Some (x :: i, z)
                end
    end.

  (* a - b on usize: overflow check in debug builds, a wrapped (huge) index in release builds
     which then fails the bounds check of the Vec operation it is used for *)
  Definition usub (a b : nat) : outcome nat := if Nat.leb b a then Ok (a - b)%nat else Panic.

  Definition vremove (i : nat) (v : list A) : outcome (A * list A) :=
    match nth_error v i with
    | Some x => Ok (x, firstn i v ++ skipn (S i) v)
    | None => Panic
    end.
  Definition vinsert (i : nat) (x : A) (v : list A) : outcome (list A) :=
    if Nat.leb i (length v) then Ok (firstn i v ++ x :: skipn i v) else Panic.
  Definition vindex (i : nat) (v : list A) : outcome A :=
    match nth_error v i with Some x => Ok x | None => Panic end.
  Definition vset (i : nat) (x : A) (v : list A) : list A := firstn i v ++ x :: skipn (S i) v.
  Definition vswap (i j : nat) (v : list A) : outcome (list A) :=
    match nth_error v i, nth_error v j with
    | Some a, Some b => Ok (vset j a (vset i b v))
    | _, _ => Panic
    end.
  (* v.split_off(k): v keeps [0, k), the tail is returned *)
  Definition vsplit_off (k : nat) (v : list A) : outcome (list A * list A) :=
    if Nat.leb k (length v) then Ok (firstn k v, skipn k v) else Panic.
  (* v.splice(k..k, xs) *)
  Definition vsplice (k : nat) (xs : list A) (v : list A) : outcome (list A) :=
    if Nat.leb k (length v) then Ok (firstn k v ++ xs ++ skipn k v) else Panic.
  (* v.resize(k, x): truncate or pad *)
  Definition vresize (k : nat) (x : A) (v : list A) : list A :=
    firstn k v ++ repeat x (k - length v).
  (* v[i] = f(v[i]) *)
  Definition vupdate (i : nat) (f : A -> A) (v : list A) : outcome (list A) :=
    match nth_error v i with Some x => Ok (vset i (f x) v) | None => Panic end.
End Vec.

(* ------------------------------------------------------------------ *)
(* bytes and numbers                                                   *)
Definition top_bit (b : byte) : bool := N.testbit (b2n b) 7.          (* b & 0x80 == 0x80 *)
Definition clear_top (b : byte) : byte := n2b (N.land (b2n b) 127).   (* b & !0x80 *)
Definition set_top (b : byte) : byte := n2b (N.lor (b2n b) 128).      (* b | 0x80 *)
Definition bnot (b : byte) : byte := n2b (255 - b2n b).               (* !b *)
Definition band (a b : byte) : byte := n2b (N.land (b2n a) (b2n b)).
Definition bor (a b : byte) : byte := n2b (N.lor (b2n a) (b2n b)).
Definition bxor2 (a b : byte) : byte := n2b (N.lxor (b2n a) (b2n b)).

(* BigUint::to_bytes_le: minimal little-endian digits, [0] for zero *)
Fixpoint le_digits_fuel (fuel : nat) (n : N) : bytes :=
  match fuel with
  | O => []
  | S f => if (n =? 0)%N then [] else n2b n :: le_digits_fuel f (n / 256)%N
  end.
Definition le_digits (n : N) : bytes := le_digits_fuel (N.to_nat (N.size n)) n.
Definition biguint_to_bytes_le (n : N) : bytes := if (n =? 0)%N then [x00] else le_digits n.

(* stack_trait::to_bigint — sign bit taken from the last byte, BigInt::from_bytes_le(sign, rest);
   from_biguint turns a zero magnitude with Sign::Minus into zero *)
Definition to_bigint (data : bytes) : Z :=
  match split_last data with
  | None => 0
  | Some (init, last) =>
      let mag := Z.of_N (le_val (init ++ [clear_top last])) in
      if top_bit last then - mag else mag
  end.

(* BigInt << i32 (count >= 0): `if n.is_zero() { return n }`, otherwise magnitude * 2^count.
   BigInt >> i32 (count >= 0): magnitude shifted, plus one when a negative value loses a set bit,
   i.e. rounding toward minus infinity.  Both are Z.shiftl / Z.shiftr (Proofs/InterpNum.v:
   bigint_shl_spec, bigint_shr_spec); the case split only keeps evaluation cheap for huge counts. *)
Definition bigint_shl (a b : Z) : Z := if a =? 0 then 0 else Z.shiftl a b.
Definition bigint_shr (a b : Z) : Z :=
  if Z.log2 (Z.abs a) <? b then (if a <? 0 then -1 else 0) else Z.shiftr a b.

Notation i32_max := 2147483647.
Notation i32_min := (-2147483648).

(* usize as i32 *)
Definition i32_of_usize (n : nat) : Z :=
  let m := Z.of_nat n mod 4294967296 in if m <? 2147483648 then m else m - 4294967296.

Definition zbyte (z : Z) : byte := n2b (Z.to_N (z mod 256)).          (* z as u8, z >= 0 *)

Notation vec := (list bytes).

Definition push_bytes (v : vec) (d : bytes) : vec := v ++ [d].

Definition pop_bytes (v : vec) : outcome (bytes * vec) :=
  match split_last v with Some (r, x) => Ok (x, r) | None => Err end.

Definition push_number (val : Z) (v : vec) : outcome vec :=
  if (i32_max <? val) || (val <? i32_min) then Err
  else
    let posval := if val <? 0 then - val else val in
    let negmask := if val <? 0 then 128%N else 0%N in
    let hi (z : Z) : byte := n2b (N.lor (b2n (zbyte z)) negmask) in
    if posval =? 0 then Ok (v ++ [[]])
    else if posval <? 128 then Ok (v ++ [[hi posval]])
    else if posval <? 32768 then Ok (v ++ [[zbyte posval; hi (Z.shiftr posval 8)]])
    else if posval <? 8388608 then Ok (v ++ [[zbyte posval; zbyte (Z.shiftr posval 8); hi (Z.shiftr posval 16)]])
    else Ok (v ++ [[zbyte posval; zbyte (Z.shiftr posval 8); zbyte (Z.shiftr posval 16); hi (Z.shiftr posval 24)]]).

Definition is_single_zero (d : bytes) : bool :=
  match d with [b] => (b2n b =? 0)%N | _ => false end.

Definition push_bigint (z : Z) (v : vec) : outcome vec :=
  let bs := biguint_to_bytes_le (Z.abs_N z) in
  match split_last bs with
  | None => Panic                                  (* bytes[bytes.len() - 1] on an empty vector *)
  | Some (init, last) =>
      let bytes' :=
        if top_bit last then bs ++ [if z <? 0 then x80 else x00]
        else if z <? 0 then init ++ [set_top last]
        else bs in
      if is_single_zero bytes' then Ok (v ++ [[]]) else Ok (v ++ [bytes'])
  end.

Definition pop_bigint (v : vec) : outcome (Z * vec) :=
  match split_last v with Some (r, x) => Ok (to_bigint x, r) | None => Err end.

(* the loop of pop_bool: the first non-zero byte decides *)
Fixpoint cast_to_bool (d : bytes) : bool :=
  match d with
  | [] => false
  | b :: r => if (b2n b =? 0)%N then cast_to_bool r
              else negb (match r with [] => true | _ => false end && (b2n b =? 128)%N)
  end.
Definition pop_bool (v : vec) : outcome (bool * vec) :=
  match split_last v with Some (r, x) => Ok (cast_to_bool x, r) | None => Err end.

Definition push_bool (b : bool) (v : vec) : outcome vec :=
  Ok (v ++ [if b then [x01] else []]).

(* pop_number: at most 4 bytes, sign-magnitude little endian, result fits an i32 *)
Definition pop_number (v : vec) : outcome (Z * vec) :=
  do x <- pop_bytes v;
  let '(bs, r) := x in
  if Nat.ltb 4 (length bs) then Err
  else
    match split_last bs with
    | None => Ok (0, r)
    | Some (init, last) =>
        let val := Z.of_N (le_val (init ++ [clear_top last])) in
        Ok (if top_bit last then 0 - val else val, r)
    end.

(* ------------------------------------------------------------------ *)
(* State                                                               *)
Record state : Type := mkState {
  stack : vec;
  alt_stack : vec;
  finished : bool;             (* status == Status::Finished *)
  executed : list N;           (* executed_opcodes *)
  codesep : nat                (* codeseparator_offset *)
}.
Definition default_state : state := mkState [] [] false [] 0.
Definition with_stack (st : state) (s : vec) : state :=
  mkState s (alt_stack st) (finished st) (executed st) (codesep st).
Definition with_stacks (st : state) (s a : vec) : state :=
  mkState s a (finished st) (executed st) (codesep st).
Definition with_codesep (st : state) (c : nat) : state :=
  mkState (stack st) (alt_stack st) (finished st) (executed st) c.
Definition push_executed (st : state) (o : N) : state :=
  mkState (stack st) (alt_stack st) (finished st) (executed st ++ [o]) (codesep st).
Definition set_finished (st : state) : state :=
  mkState (stack st) (alt_stack st) true (executed st) (codesep st).

Definition verify (b : bool) : outcome unit := if b then Ok tt else Err.

Definition OP_DATA := 251%N.

Section Interp.
  (* the transaction side of OP_CHECKSIG / OP_CHECKMULTISIG (property C15) *)
  Variable txctx : Type.
  (* flag byte = last byte of the signature (Err when there is none or it is not a SigHash),
     then calculate_sighash_preimage(txscript, sighash, codeseparator_offset) *)
  Variable sig_preimage : txctx -> nat -> bytes -> outcome bytes.
  (* verify_tx_signature(preimage, txscript, signature, public_key) *)
  Variable sig_verify : txctx -> bytes -> bytes -> bytes -> outcome bool.

  (* ---------------------------------------------------------------- *)
  (* arms of match_opcode, on the stacks                                *)
  Definition lift_stack (st : state) (r : outcome vec) : outcome state :=
    do s <- r; Ok (with_stack st s).

  Definition op_push_number (n : Z) (st : state) : outcome state :=
    lift_stack st (push_number n (stack st)).

  Definition op_nop (st : state) : outcome state := Ok st.

  Definition op_verify (st : state) : outcome state :=
    do x <- pop_bool (stack st); let '(p, s) := x in
    do _ <- verify p; Ok (with_stack st s).

  (* OP_RETURN: `return Ok(state.clone())` — execution simply goes on *)
  Definition op_return (st : state) : outcome state := Ok st.

  Definition op_toaltstack (st : state) : outcome state :=
    do x <- pop_bytes (stack st); let '(a, s) := x in
    Ok (with_stacks st s (push_bytes (alt_stack st) a)).
  Definition op_fromaltstack (st : state) : outcome state :=
    do x <- pop_bytes (alt_stack st); let '(a, al) := x in
    Ok (with_stacks st (push_bytes (stack st) a) al).

  Definition op_ifdup (st : state) : outcome state :=
    match split_last (stack st) with
    | None => Err
    | Some (_, top_data) =>
        do x <- pop_bool (stack st); let '(p, s) := x in
        let s1 := s ++ [top_data] in
        Ok (with_stack st (if p then s1 ++ [top_data] else s1))
    end.

  Definition op_depth (st : state) : outcome state :=
    lift_stack st (push_number (Z.of_nat (length (stack st))) (stack st)).

  Definition op_drop (st : state) : outcome state :=
    do x <- pop_bytes (stack st); Ok (with_stack st (snd x)).

  Definition op_dup (st : state) : outcome state :=
    match split_last (stack st) with
    | None => Err
    | Some (_, top_data) => Ok (with_stack st (stack st ++ [top_data]))
    end.

  Definition op_nip (st : state) : outcome state :=
    let s := stack st in
    if Nat.ltb (length s) 2 then Err
    else do i <- usub (length s) 2; do x <- vremove i s; Ok (with_stack st (snd x)).

  Definition op_over (st : state) : outcome state :=
    let s := stack st in
    if Nat.ltb (length s) 2 then Err
    else do index <- usub (length s) 2;
         do second_last <- of_option (nth_error s index);
         Ok (with_stack st (push_bytes s second_last)).

  (* usize::try_from(BigInt) *)
  Definition usize_try_from (z : Z) : outcome nat :=
    if (z <? 0) || (18446744073709551615 <? z) then Err else Ok (Z.to_nat z).

  Definition op_pick (st : state) : outcome state :=
    do x <- pop_bigint (stack st); let '(index, s) := x in
    if (index <? 0) || (Z.of_nat (length s) <=? index) then Err
    else do index' <- usize_try_from index;
         do l1 <- usub (length s) 1; do i <- usub l1 index';
         do selected <- of_option (nth_error s i);
         Ok (with_stack st (push_bytes s selected)).

  Definition op_roll (st : state) : outcome state :=
    do x <- pop_bigint (stack st); let '(index, s) := x in
    if (index <? 0) || (Z.of_nat (length s) <=? index) then Err
    else do index' <- usize_try_from index;
         do l1 <- usub (length s) 1; do i <- usub l1 index';
         do y <- vremove i s; let '(selected, s') := y in
         Ok (with_stack st (push_bytes s' selected)).

  Definition op_rot (st : state) : outcome state :=
    let s := stack st in
    if Nat.ltb (length s) 3 then Err
    else do i <- usub (length s) 3; do y <- vremove i s; let '(third, s') := y in
         Ok (with_stack st (push_bytes s' third)).

  Definition op_swap (st : state) : outcome state :=
    let s := stack st in
    if Nat.ltb (length s) 2 then Err
    else do i <- usub (length s) 1; do j <- usub (length s) 2;
         do s' <- vswap i j s; Ok (with_stack st s').

  Definition op_tuck (st : state) : outcome state :=
    let s := stack st in
    if Nat.ltb (length s) 2 then Err
    else match split_last s with
         | None => Err
         | Some (_, selected) =>
             do i <- usub (length s) 2; do s' <- vinsert i selected s; Ok (with_stack st s')
         end.

  Definition op_2drop (st : state) : outcome state :=
    do x <- pop_bytes (stack st); do y <- pop_bytes (snd x); Ok (with_stack st (snd y)).

  Definition op_2dup (st : state) : outcome state :=
    let s := stack st in
    if Nat.ltb (length s) 2 then Err
    else match split_last s with
         | None => Err
         | Some (_, first) =>
             do i <- usub (length s) 2; do second <- of_option (nth_error s i);
             Ok (with_stack st (push_bytes (push_bytes s second) first))
         end.

  Definition op_3dup (st : state) : outcome state :=
    let s := stack st in
    if Nat.ltb (length s) 3 then Err
    else match split_last s with
         | None => Err
         | Some (_, first) =>
             do i <- usub (length s) 2; do second <- of_option (nth_error s i);
             do j <- usub (length s) 3; do third <- of_option (nth_error s j);
             Ok (with_stack st (push_bytes (push_bytes (push_bytes s third) second) first))
         end.

  Definition op_2over (st : state) : outcome state :=
    let s := stack st in
    if Nat.ltb (length s) 4 then Err
    else do i <- usub (length s) 3; do third <- vindex i s;
         do j <- usub (length s) 4; do fourth <- vindex j s;
         Ok (with_stack st (push_bytes (push_bytes s fourth) third)).

  Definition op_2rot (st : state) : outcome state :=
    let s := stack st in
    if Nat.ltb (length s) 6 then Err
    else do index <- usub (length s) 6;
         do x <- vremove index s; let '(sixth, s1) := x in
         do y <- vremove index s1; let '(fifth, s2) := y in
         Ok (with_stack st (push_bytes (push_bytes s2 sixth) fifth)).

  Definition op_2swap (st : state) : outcome state :=
    do a <- pop_bytes (stack st); let '(x1, s1) := a in
    do b <- pop_bytes s1; let '(x2, s2) := b in
    do c <- pop_bytes s2; let '(x3, s3) := c in
    do d <- pop_bytes s3; let '(x4, s4) := d in
    Ok (with_stack st (push_bytes (push_bytes (push_bytes (push_bytes s4 x2) x1) x4) x3)).

  Definition op_cat (st : state) : outcome state :=
    do a <- pop_bytes (stack st); let '(x2, s1) := a in
    do b <- pop_bytes s1; let '(x1, s2) := b in
    Ok (with_stack st (push_bytes s2 (x1 ++ x2))).

  Definition op_split (st : state) : outcome state :=
    do a <- pop_bigint (stack st); let '(n, s1) := a in
    do b <- pop_bytes s1; let '(x, s2) := b in
    if (n <? 0) || (Z.of_nat (length x) <? n) then Err
    else do n' <- usize_try_from n;
      (* x.split_at(n) panics when n > x.len() *)
      if Nat.leb n' (length x)
      then Ok (with_stack st (push_bytes (push_bytes s2 (firstn n' x)) (skipn n' x)))
      else Panic.

  Definition op_size (st : state) : outcome state :=
    match split_last (stack st) with
    | None => Err
    | Some (_, top) => lift_stack st (push_number (Z.of_nat (length top)) (stack st))
    end.

  Definition op_invert (st : state) : outcome state :=
    do a <- pop_bytes (stack st); let '(x, s) := a in
    Ok (with_stack st (s ++ [map bnot x])).

  (* b.iter().zip(a.iter()).map(f) *)
  Fixpoint zip_with (f : byte -> byte -> byte) (b a : bytes) : bytes :=
    match b, a with
    | x1 :: b', x2 :: a' => f x1 x2 :: zip_with f b' a'
    | _, _ => []
    end.
  Definition op_bitwise (f : byte -> byte -> byte) (st : state) : outcome state :=
    do p <- pop_bytes (stack st); let '(a, s1) := p in
    do q <- pop_bytes s1; let '(b, s2) := q in
    if negb (Nat.eqb (length a) (length b)) then Err
    else Ok (with_stack st (push_bytes s2 (zip_with f b a))).

  Definition op_equal (st : state) : outcome state :=
    do p <- pop_bytes (stack st); let '(a, s1) := p in
    do q <- pop_bytes s1; let '(b, s2) := q in
    lift_stack st (push_bool (bytes_eqb a b) s2).
  Definition op_equalverify (st : state) : outcome state :=
    do p <- pop_bytes (stack st); let '(a, s1) := p in
    do q <- pop_bytes s1; let '(b, s2) := q in
    do _ <- verify (bytes_eqb a b); Ok (with_stack st s2).

  (* unary numeric: pop_bigint, f, push_bigint *)
  Definition op_unary (f : Z -> Z) (st : state) : outcome state :=
    do p <- pop_bigint (stack st); let '(a, s) := p in
    lift_stack st (push_bigint (f a) s).
  (* OP_NOT / OP_0NOTEQUAL: pop_bigint, push_number(0 or 1) *)
  Definition op_unary_num (f : Z -> Z) (st : state) : outcome state :=
    do p <- pop_bigint (stack st); let '(a, s) := p in
    lift_stack st (push_number (f a) s).

  (* binary numeric, `top` popped first, `second` next; f top second *)
  Definition op_binary (f : Z -> Z -> Z) (st : state) : outcome state :=
    do p <- pop_bigint (stack st); let '(t, s1) := p in
    do q <- pop_bigint s1; let '(u, s2) := q in
    lift_stack st (push_bigint (f t u) s2).
  Definition op_binary_bool (f : Z -> Z -> bool) (st : state) : outcome state :=
    do p <- pop_bigint (stack st); let '(t, s1) := p in
    do q <- pop_bigint s1; let '(u, s2) := q in
    lift_stack st (push_bool (f t u) s2).

  (* OP_DIV / OP_MOD: b popped first, a second; zero divisor is an error *)
  Definition op_divmod (f : Z -> Z -> Z) (st : state) : outcome state :=
    do p <- pop_bigint (stack st); let '(b, s1) := p in
    do q <- pop_bigint s1; let '(a, s2) := q in
    if b =? 0 then Err else lift_stack st (push_bigint (f a b) s2).

  (* OP_LSHIFT / OP_RSHIFT: the VALUE is popped first (top), the COUNT second (pop_number) *)
  Definition op_shift (f : Z -> Z -> Z) (st : state) : outcome state :=
    do p <- pop_bigint (stack st); let '(a, s1) := p in
    do q <- pop_number s1; let '(b, s2) := q in
    if b <? 0 then Err else lift_stack st (push_bigint (f a b) s2).

  Definition op_boolop (f : bool -> bool -> bool) (st : state) : outcome state :=
    do p <- pop_bool (stack st); let '(a, s1) := p in
    do q <- pop_bool s1; let '(b, s2) := q in
    lift_stack st (push_bool (f a b) s2).

  Definition op_numequalverify (st : state) : outcome state :=
    do p <- pop_bigint (stack st); let '(a, s1) := p in
    do q <- pop_bigint s1; let '(b, s2) := q in
    do _ <- verify (a =? b); Ok (with_stack st s2).

  Definition op_within (st : state) : outcome state :=
    do p <- pop_bigint (stack st); let '(max, s1) := p in
    do q <- pop_bigint s1; let '(min, s2) := q in
    do r <- pop_bigint s2; let '(x, s3) := r in
    lift_stack st (push_bool ((min <=? x) && (x <? max)) s3).

  Definition op_num2bin (st : state) : outcome state :=
    do p <- pop_number (stack st); let '(length_, s1) := p in
    do q <- pop_bytes s1; let '(bs, s2) := q in
    if (length_ <? 1) || (length_ <? i32_of_usize (length bs)) then Err
    else
      let z := to_bigint bs in
      let bin_array := vresize (Z.to_nat length_) x00 (biguint_to_bytes_le (Z.abs_N z)) in
      let bin_array_len := length bin_array in
      do i <- usub bin_array_len 1;
      do lastb <- vindex i bin_array;
      let bin_array1 := if top_bit lastb then bin_array ++ [x00] else bin_array in
      if z =? 0 then Err                                   (* Sign::NoSign *)
      else
        do bin_array2 <- (if 0 <? z then vupdate i (fun b => b) bin_array1
                          else vupdate i set_top bin_array1);
        Ok (with_stack st (push_bytes s2 bin_array2)).

  Definition op_bin2num (st : state) : outcome state :=
    do p <- pop_bigint (stack st); let '(a, s) := p in
    lift_stack st (push_bigint a s).

  Definition op_hash (h : bytes -> bytes) (st : state) : outcome state :=
    do p <- pop_bytes (stack st); let '(data, s) := p in
    Ok (with_stack st (s ++ [h data])).

  Definition op_codeseparator (script_index : nat) (st : state) : outcome state :=
    Ok (with_codesep st (script_index + 1)).

  (* ---------------------------------------------------------------- *)
  (* checksig / multisig                                                *)
  Definition checksig (st : state) (tx : txctx) : outcome (bool * state) :=
    do p <- pop_bytes (stack st); let '(public_key, s1) := p in
    do q <- pop_bytes s1; let '(signature, s2) := q in
    do preimage <- sig_preimage tx (codesep st) signature;
    do ok <- sig_verify tx preimage signature public_key;
    Ok (ok, with_stack st s2).

  (* `while let Some(public_key) = pubkeys.pop()` on the reversed list = front to back *)
  Fixpoint try_keys (tx : txctx) (preimage sig : bytes) (pubkeys : list bytes) : outcome (bool * list bytes) :=
    match pubkeys with
    | [] => Ok (false, [])
    | pk :: r => do ok <- sig_verify tx preimage sig pk;
                 if ok then Ok (true, r) else try_keys tx preimage sig r
    end.
  Fixpoint multisig_loop (tx : txctx) (cs : nat) (sigs pubkeys : list bytes) (successes : Z) : outcome Z :=
    match sigs with
    | [] => Ok successes
    | sig :: r =>
        do preimage <- sig_preimage tx cs sig;
        do x <- try_keys tx preimage sig pubkeys; let '(hit, pubkeys') := x in
        multisig_loop tx cs r pubkeys' (if hit then successes + 1 else successes)
    end.

  Definition multisig (st : state) (tx : txctx) : outcome (bool * state) :=
    do p <- pop_number (stack st); let '(pubkey_count, s1) := p in
    if pubkey_count <? 1 then Err
    else if Z.of_nat (length s1) <? pubkey_count then Err
    else
      do k <- usub (length s1) (Z.to_nat pubkey_count);
      do sp <- vsplit_off k s1; let '(s2, pubkeys) := sp in
      do q <- pop_number s2; let '(sig_count, s3) := q in
      if sig_count <? 1 then Err
      else if pubkey_count <? sig_count then Err
      else if Z.of_nat (length s3) <? sig_count then Err
      else
        do k2 <- usub (length s3) (Z.to_nat sig_count);
        do sp2 <- vsplit_off k2 s3; let '(s4, sigs) := sp2 in
        do r <- pop_bytes s4; let '(_, s5) := r in
        do successes <- multisig_loop tx (codesep st) sigs pubkeys 0;
        Ok (successes =? sig_count, with_stack st s5).

  Definition op_checksig (st : state) (tx : option txctx) : outcome state :=
    match tx with
    | None => Err
    | Some t => do x <- checksig st t; let '(ok, st') := x in lift_stack st' (push_bool ok (stack st'))
    end.
  Definition op_checksigverify (st : state) (tx : option txctx) : outcome state :=
    match tx with
    | None => Err
    | Some t => do x <- checksig st t; let '(ok, st') := x in do _ <- verify ok; Ok st'
    end.
  Definition op_checkmultisig (st : state) (tx : option txctx) : outcome state :=
    match tx with
    | None => Err
    | Some t => do x <- multisig st t; let '(ok, st') := x in lift_stack st' (push_bool ok (stack st'))
    end.
  Definition op_checkmultisigverify (st : state) (tx : option txctx) : outcome state :=
    match tx with
    | None => Err
    | Some t => do x <- multisig st t; let '(ok, st') := x in do _ <- verify ok; Ok st'
    end.

  (* ---------------------------------------------------------------- *)
  (* match_opcode: one arm per opcode of the enum                       *)
  Definition match_opcode (script_index : nat) (opcode : N) (st : state) (tx : option txctx) : outcome state :=
    match opcode with
    | 0%N (* OP_0 *) => op_push_number 0 st
    | 79%N (* OP_1NEGATE *) => op_push_number (-1) st
    | 81%N => op_push_number 1 st | 82%N => op_push_number 2 st | 83%N => op_push_number 3 st
    | 84%N => op_push_number 4 st | 85%N => op_push_number 5 st | 86%N => op_push_number 6 st
    | 87%N => op_push_number 7 st | 88%N => op_push_number 8 st | 89%N => op_push_number 9 st
    | 90%N => op_push_number 10 st | 91%N => op_push_number 11 st | 92%N => op_push_number 12 st
    | 93%N => op_push_number 13 st | 94%N => op_push_number 14 st | 95%N => op_push_number 15 st
    | 96%N => op_push_number 16 st
    | 97%N (* OP_NOP *) => op_nop st
    | 99%N | 100%N | 103%N | 104%N (* OP_IF | OP_NOTIF | OP_ELSE | OP_ENDIF outside a parsed If *) => Err
    | 105%N (* OP_VERIFY *) => op_verify st
    | 106%N (* OP_RETURN *) => op_return st
    | 107%N (* OP_TOALTSTACK *) => op_toaltstack st
    | 108%N (* OP_FROMALTSTACK *) => op_fromaltstack st
    | 115%N (* OP_IFDUP *) => op_ifdup st
    | 116%N (* OP_DEPTH *) => op_depth st
    | 117%N (* OP_DROP *) => op_drop st
    | 118%N (* OP_DUP *) => op_dup st
    | 119%N (* OP_NIP *) => op_nip st
    | 120%N (* OP_OVER *) => op_over st
    | 121%N (* OP_PICK *) => op_pick st
    | 122%N (* OP_ROLL *) => op_roll st
    | 123%N (* OP_ROT *) => op_rot st
    | 124%N (* OP_SWAP *) => op_swap st
    | 125%N (* OP_TUCK *) => op_tuck st
    | 109%N (* OP_2DROP *) => op_2drop st
    | 110%N (* OP_2DUP *) => op_2dup st
    | 111%N (* OP_3DUP *) => op_3dup st
    | 112%N (* OP_2OVER *) => op_2over st
    | 113%N (* OP_2ROT *) => op_2rot st
    | 114%N (* OP_2SWAP *) => op_2swap st
    | 126%N (* OP_CAT *) => op_cat st
    | 127%N (* OP_SPLIT *) => op_split st
    | 130%N (* OP_SIZE *) => op_size st
    | 131%N (* OP_INVERT *) => op_invert st
    | 132%N (* OP_AND *) => op_bitwise band st
    | 133%N (* OP_OR *) => op_bitwise bor st
    | 134%N (* OP_XOR *) => op_bitwise bxor2 st
    | 135%N (* OP_EQUAL *) => op_equal st
    | 136%N (* OP_EQUALVERIFY *) => op_equalverify st
    | 139%N (* OP_1ADD *) => op_unary (fun a => a + 1) st
    | 140%N (* OP_1SUB *) => op_unary (fun a => a - 1) st
    | 143%N (* OP_NEGATE *) => op_unary (fun a => - a) st
    | 144%N (* OP_ABS *) => op_unary (fun a => if a <? 0 then - a else a) st
    | 145%N (* OP_NOT *) => op_unary_num (fun a => if a =? 0 then 1 else 0) st
    | 146%N (* OP_0NOTEQUAL *) => op_unary_num (fun a => if a =? 0 then 0 else 1) st
    | 147%N (* OP_ADD *) => op_binary (fun a b => a + b) st
    | 148%N (* OP_SUB *) => op_binary (fun b a => a - b) st
    | 149%N (* OP_MUL *) => op_binary (fun a b => a * b) st
    | 150%N (* OP_DIV *) => op_divmod Z.quot st
    | 151%N (* OP_MOD *) => op_divmod Z.rem st
    | 152%N (* OP_LSHIFT *) => op_shift bigint_shl st
    | 153%N (* OP_RSHIFT *) => op_shift bigint_shr st
    | 154%N (* OP_BOOLAND *) => op_boolop andb st
    | 155%N (* OP_BOOLOR *) => op_boolop orb st
    | 156%N (* OP_NUMEQUAL *) => op_binary_bool (fun a b => a =? b) st
    | 157%N (* OP_NUMEQUALVERIFY *) => op_numequalverify st
    | 158%N (* OP_NUMNOTEQUAL *) => op_binary_bool (fun a b => negb (a =? b)) st
    | 159%N (* OP_LESSTHAN *) => op_binary_bool (fun b a => a <? b) st
    | 161%N (* OP_LESSTHANOREQUAL *) => op_binary_bool (fun b a => a <=? b) st
    | 160%N (* OP_GREATERTHAN *) => op_binary_bool (fun b a => b <? a) st
    | 162%N (* OP_GREATERTHANOREQUAL *) => op_binary_bool (fun b a => b <=? a) st
    | 163%N (* OP_MIN *) => op_binary (fun a b => if b <? a then b else a) st
    | 164%N (* OP_MAX *) => op_binary (fun a b => if a <? b then b else a) st
    | 165%N (* OP_WITHIN *) => op_within st
    | 128%N (* OP_NUM2BIN *) => op_num2bin st
    | 129%N (* OP_BIN2NUM *) => op_bin2num st
    | 166%N (* OP_RIPEMD160 *) => op_hash ripemd_160 st
    | 167%N (* OP_SHA1 *) => op_hash sha_1 st
    | 168%N (* OP_SHA256 *) => op_hash sha_256 st
    | 169%N (* OP_HASH160 *) => op_hash hash_160 st
    | 170%N (* OP_HASH256 *) => op_hash sha_256d st
    | 171%N (* OP_CODESEPARATOR *) => op_codeseparator script_index st
    | 172%N (* OP_CHECKSIG *) => op_checksig st tx
    | 173%N (* OP_CHECKSIGVERIFY *) => op_checksigverify st tx
    | 174%N (* OP_CHECKMULTISIG *) => op_checkmultisig st tx
    | 175%N (* OP_CHECKMULTISIGVERIFY *) => op_checkmultisigverify st tx
    | 177%N (* OP_CHECKLOCKTIMEVERIFY *) => Err
    | 178%N (* OP_CHECKSEQUENCEVERIFY *) => Err
    | 98%N (* OP_VER *) => Err
    | 101%N (* OP_VERIF *) => Err
    | 102%N (* OP_VERNOTIF *) => Err
    | 80%N (* OP_RESERVED *) => Err
    | 137%N (* OP_RESERVED1 *) => Err
    | 138%N (* OP_RESERVED2 *) => Err
    | 176%N (* OP_NOP1 *) => op_nop st
    | 179%N | 180%N | 181%N | 182%N | 183%N | 184%N | 185%N (* OP_NOP4 .. OP_NOP10 *) => op_nop st
    | 141%N (* OP_2MUL *) => op_unary (fun a => a * 2) st
    | 142%N (* OP_2DIV *) => op_unary (fun a => Z.quot a 2) st
    | _ => Err                                     (* InvalidOpcode *)
    end.

  (* ---------------------------------------------------------------- *)
  (* Interpreter                                                        *)
  Record interp : Type := mkInterp {
    script_bits : list bit;
    script_index : nat;
    istate : state;
    tx_script : option txctx
  }.
  Definition with_istate (i : interp) (st : state) : interp :=
    mkInterp (script_bits i) (script_index i) st (tx_script i).

  (* match_script_bit mutates `self` even when it fails: the result is the interpreter as it is
     left behind plus the Result<State, _> *)
  Definition match_script_bit (i : interp) (b : bit) : interp * outcome state :=
    let st := istate i in
    match b with
    | BOp o =>
        match match_opcode (script_index i) o st (tx_script i) with
        | Ok next_state => (i, Ok (push_executed next_state o))
        | Err => (with_istate i (push_executed st o), Err)
        | Panic => (i, Panic)
        end
    | BPush v =>
        let st' := push_executed (with_stack st (stack st ++ [v])) OP_DATA in
        (with_istate i st', Ok st')
    | BPushData size v =>
        let st' := push_executed (with_stack st (stack st ++ [v])) size in
        (with_istate i st', Ok st')
    | BIf code pass fail =>
        match pop_bool (stack st) with
        | Err => (i, Err)
        | Panic => (i, Panic)
        | Ok (b, s) =>
            let predicate := if (code =? OP_NOTIF)%N || (code =? OP_VERNOTIF)%N then negb b else b in
            let st' := push_executed (with_stack st s) code in
            let branch := if predicate then pass else match fail with Some f => f | None => [] end in
            match vsplice (script_index i + 1) branch (script_bits i) with
            | Ok bits' => (mkInterp bits' (script_index i) st' (tx_script i), Ok st')
            | Err => (i, Err)
            | Panic => (i, Panic)
            end
        end
    | BCoinbase _ => (i, Err)
    end.

  Inductive step_result : Type :=
  | StepNone (i : interp)               (* next() = None; status := Finished *)
  | StepOk (i : interp)                 (* next() = Some(Ok(state)), state = istate i *)
  | StepErr (i : interp)                (* next() = Some(Err(_)) *)
  | StepPanic.

  Definition next_impl (i : interp) : step_result :=
    match nth_error (script_bits i) (script_index i) with
    | None => StepNone (with_istate i (set_finished (istate i)))
    | Some b =>
        match match_script_bit i b with
        | (i', Ok new_state) => StepOk (mkInterp (script_bits i') (script_index i' + 1) new_state (tx_script i'))
        | (i', Err) => StepErr i'
        | (_, Panic) => StepPanic
        end
    end.

  (* run_impl: `while let Some(state) = self.next_impl() { state?; }` *)
  Inductive run_result : Type :=
  | RunOk (i : interp) | RunErr (i : interp) | RunPanic | RunOutOfFuel.

  Fixpoint run_fuel (fuel : nat) (i : interp) : run_result :=
    match fuel with
    | O => RunOutOfFuel
    | S f =>
        match next_impl i with
        | StepNone i' => RunOk i'
        | StepOk i' => run_fuel f i'
        | StepErr i' => RunErr i'
        | StepPanic => RunPanic
        end
    end.

  (* number of steps that are certainly enough: every bit, at any nesting depth, is executed at
     most once (the splice copies a branch in front of the rest exactly once) *)
  Fixpoint bit_size (b : bit) : nat :=
    let fix bits_size (l : list bit) : nat :=
      match l with [] => O | x :: r => (bit_size x + bits_size r)%nat end in
    match b with
    | BIf _ p q => S (bits_size p + match q with Some q' => bits_size q' | None => O end)
    | _ => 1%nat
    end.
  Fixpoint bits_size (l : list bit) : nat :=
    match l with [] => O | x :: r => (bit_size x + bits_size r)%nat end.

  Definition remaining (i : interp) : nat := bits_size (skipn (script_index i) (script_bits i)).
  Definition run (i : interp) : run_result := run_fuel (S (remaining i)) i.

  (* Interpreter::from_script / from_transaction_and_script_bits *)
  Definition from_script_bits (bits : list bit) (tx : option txctx) : interp :=
    mkInterp bits 0 default_state tx.
End Interp.

Arguments mkInterp {txctx}. Arguments script_bits {txctx}. Arguments script_index {txctx}. Arguments istate {txctx}. Arguments tx_script {txctx}.
Arguments StepNone {txctx}. Arguments StepOk {txctx}. Arguments StepErr {txctx}. Arguments StepPanic {txctx}.
Arguments RunOk {txctx}. Arguments RunErr {txctx}. Arguments RunPanic {txctx}. Arguments RunOutOfFuel {txctx}.
