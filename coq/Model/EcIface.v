(* Model/EcIface.v — the elliptic-curve operations the key-handling models (Model/Bip32.v, Model/Ecies.v)
   call, bundled as a record so that
     * the models are written once and executed with the BigZ instance of Prim/Secp256k1.v ([ec_fast]),
     * the theorems quantify over every [ec_ops] (so they hold for [ec_fast], the instance that the
       correspondence run ties to k256), with the group laws they need as explicit premises.
   Nothing here is specific to secp256k1 except the two instances at the end.  No proofs. *)
From BSV Require Import Base.Bytes.
From BSV Require Import Prim.Num Prim.Secp256k1.
Local Open Scope Z_scope.

Record ec_ops : Type := MkEc {
  ec_pt : Type;                              (* k256 ProjectivePoint / AffinePoint, identity included *)
  ec_add : ec_pt -> ec_pt -> ec_pt;          (* ProjectivePoint + ProjectivePoint *)
  ec_smul : Z -> ec_pt -> ec_pt;             (* point * scalar *)
  ec_G : ec_pt;                              (* ProjectivePoint::GENERATOR *)
  ec_is_inf : ec_pt -> bool;                 (* is_identity; PublicKey::from_affine fails exactly there *)
  ec_enc : bool -> ec_pt -> bytes;           (* to_encoded_point(compress).as_bytes() *)
  ec_dec : bytes -> option ec_pt             (* k256::PublicKey::from_sec1_bytes(..).to_projective() *)
}.

(* execution instance: BigZ arithmetic inside, Z-valued points at the boundary *)
Definition ec_fast : ec_ops :=
  MkEc point padd_fast smul_fast G is_inf sec1_encode sec1_decode_fast.

(* reference instance (Z arithmetic); equal to [ec_fast] field by field by Proofs/Secp256k1Refine.v *)
Definition ec_ref : ec_ops :=
  MkEc point padd smul G is_inf sec1_encode sec1_decode.

(* k256 SecretKey::from_be_bytes (elliptic-curve 0.11.12 secret_key.rs): the length must be 32, the
   value must be below the group order and must not be zero.  Also PrivateKey::from_bytes_impl. *)
Definition secret_of_bytes (bs : bytes) : outcome Z :=
  if Nat.eqb (length bs) 32 then
    let v := be_Z bs in if in_scalar v then Ok v else Err
  else Err.
