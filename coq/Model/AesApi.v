(* Model/AesApi.v — transcription of src/encryption/mod.rs (`AES::encrypt` / `AES::decrypt`,
   both forward to `encrypt_impl` / `decrypt_impl`) together with the parts of the crates it calls:
   block-modes 0.8.1 (`Cbc::new_from_slices`, `encrypt_vec`, `decrypt_vec`), block-padding 0.2.1
   (`Pkcs7`), aes 0.7.5 (`Aes128Ctr`/`Aes256Ctr` = 64-bit big-endian counter in the low 8 IV bytes).

   The model describes the library with the two repairs of C09/C20 in place:
     * d992bd9: wrong key / IV sizes give Err in all four modes (`T::new_from_slices` in `aes_ctr`;
       the unrepaired CTR arms panicked in `key.into()` / `iv.into()`);
     * d6b6852: CBC decryption rejects a removed padding longer than one block
       (`message.len() - result.len() > 16`; block-padding 0.2.1 `Pkcs7::unpad` only checks
       n <= buffer length, so the unrepaired code accepted 17..255).
   `decrypt_unrepaired` keeps the old behaviour for the witness lemmas.
   No proofs here (Proofs/AesApiProofs.v). *)
From BSV Require Import Base.Bytes Prim.Aes.

Inductive algo : Type := AES128_CBC | AES256_CBC | AES128_CTR | AES256_CTR.

Definition key_len (a : algo) : nat :=
  match a with AES128_CBC | AES128_CTR => 16 | AES256_CBC | AES256_CTR => 32 end.
Definition iv_len : nat := 16.

(* `Cbc::new_from_slices(key, iv)?` and `T::new_from_slices(key, iv)` in `aes_ctr` *)
Definition sizes_ok (a : algo) (key iv : bytes) : bool :=
  Nat.eqb (length key) (key_len a) && Nat.eqb (length iv) iv_len.

(* block-modes `encrypt_vec`: copy the message, append one zero block as space, `Pkcs7::pad`
   at pos = |msg| (fills buf[pos .. next block boundary] with the fill count), truncate to that
   boundary, encrypt the blocks in place in CBC mode. *)
Definition encrypt_vec (key iv msg : bytes) : bytes := cbc_raw_enc key iv (pad msg).

(* block-modes `decrypt_vec`: length must be a multiple of the block size; decrypt the blocks
   in place; `Pkcs7::unpad` (block-padding 0.2.1: empty -> error; n = last byte; n = 0 or
   n > |buf| -> error; the n-1 bytes before the last must equal n); truncate. *)
Definition decrypt_vec (key iv ct : bytes) : outcome bytes :=
  if negb (Nat.eqb (Nat.modulo (length ct) 16) 0) then Err
  else of_option (unpad_lax (cbc_raw_dec key iv ct)).

(* CBC arm of decrypt_impl followed by the check `message.len() - result.len() > 16 -> Err` *)
Definition decrypt_cbc (key iv ct : bytes) : outcome bytes :=
  do m <- decrypt_vec key iv ct;
  if Nat.ltb 16 (length ct - length m) then Err else Ok m.

(* `aes_ctr`: T::new(key, iv); seek(0); apply_keystream(copy of message) *)
Definition aes_ctr (key iv msg : bytes) : bytes := ctr64 key iv msg.

Definition encrypt (a : algo) (key iv msg : bytes) : outcome bytes :=
  if negb (sizes_ok a key iv) then Err
  else match a with
       | AES128_CBC | AES256_CBC => Ok (encrypt_vec key iv msg)
       | AES128_CTR | AES256_CTR => Ok (aes_ctr key iv msg)
       end.

Definition decrypt (a : algo) (key iv ct : bytes) : outcome bytes :=
  if negb (sizes_ok a key iv) then Err
  else match a with
       | AES128_CBC | AES256_CBC => decrypt_cbc key iv ct
       | AES128_CTR | AES256_CTR => Ok (aes_ctr key iv ct)
       end.

(* `AES::encrypt` / `AES::decrypt` only forward to `encrypt_impl` / `decrypt_impl`, which are public
   themselves (ECIES calls them); the four entry points share these two definitions. *)
Definition encrypt_impl := encrypt.
Definition decrypt_impl := decrypt.

(* The unrepaired library, kept to state the witnesses of the two defects. *)
Definition decrypt_unrepaired (a : algo) (key iv ct : bytes) : outcome bytes :=
  match a with
  | AES128_CBC | AES256_CBC => if negb (sizes_ok a key iv) then Err else decrypt_vec key iv ct
  | AES128_CTR | AES256_CTR => if negb (sizes_ok a key iv) then Panic else Ok (aes_ctr key iv ct)
  end.

(* the domain on which property C20 claims CTR: the low 64 bits of the counter block do not
   wrap while the message is processed *)
Definition ctr_in_domain (iv msg : bytes) : bool :=
  (le_val (firstn 8 (rev iv)) + N.of_nat (Nat.div (length msg) 16 + 1) <=? 18446744073709551616)%N.
