(* Model/Criteria.v — transcription of src/transaction/match_criteria.rs:
   Transaction::is_matching_output / is_matching_input, match_output(s) / match_input(s), and of
   TxIn::get_finalised_script_impl (src/transaction/txin.rs).  Definitions only.
   Only the fields the functions read are modelled: an output is (value, script), an input is
   (satoshis option, unlocking script, locking script option). *)
From BSV Require Import Base.Hex Model.Opcodes Model.Script Model.Template.

Record criteria := {
  c_template : option (list mtoken);
  c_exact : option N;
  c_min : option N;
  c_max : option N }.

Record txout := { o_value : N; o_script : list bit }.
Record txin := { i_satoshis : option N; i_unlocking : list bit; i_locking : option (list bit) }.

(* PartialOrd / PartialEq on Option<u64>: None < Some(_) *)
Definition opt_eqb (a b : option N) : bool :=
  match a, b with
  | None, None => true
  | Some x, Some y => (x =? y)%N
  | _, _ => false
  end.
Definition opt_ltb (a b : option N) : bool :=
  match a, b with
  | None, Some _ => true
  | Some x, Some y => (x <? y)%N
  | _, None => false
  end.
Definition is_some {A} (o : option A) : bool := match o with Some _ => true | None => false end.

Section Criteria.
  Variable is_sig : bytes -> bool.
  Variable is_pubkey : bytes -> bool.

  Definition is_matching_output (o : txout) (c : criteria) : bool :=
    if match c_template c with Some t => negb (is_match is_sig is_pubkey (o_script o) t) | None => false end then false
    else if is_some (c_exact c) && negb (opt_eqb (c_exact c) (Some (o_value o))) then false
    else if is_some (c_min c) && opt_ltb (Some (o_value o)) (c_min c) then false
    else if is_some (c_max c) && opt_ltb (c_max c) (Some (o_value o)) then false
    else true.

  (* unlocking script bytes ++ locking script bytes re-parsed, or the unlocking script alone *)
  Definition finalised_script (i : txin) : outcome (list bit) :=
    match i_locking i with
    | Some l => from_bytes (to_bytes (i_unlocking i) ++ to_bytes l)
    | None => Ok (i_unlocking i)
    end.

  Definition is_matching_input (i : txin) (c : criteria) : bool :=
    if match c_template c with
       | Some t => negb (match finalised_script i with Ok s => is_match is_sig is_pubkey s t | _ => false end)
       | None => false
       end then false
    else if is_some (c_exact c) && negb (opt_eqb (c_exact c) (i_satoshis i)) then false
    else if is_some (c_min c) && opt_ltb (i_satoshis i) (c_min c) then false
    else if is_some (c_max c) && (negb (is_some (i_satoshis i)) || opt_ltb (c_max c) (i_satoshis i)) then false
    else true.

  (* iter().enumerate().filter_map / find_map *)
  Fixpoint indices_from {A} (p : A -> bool) (k : nat) (l : list A) : list nat :=
    match l with
    | [] => []
    | x :: r => if p x then k :: indices_from p (S k) r else indices_from p (S k) r
    end.
  Fixpoint first_from {A} (p : A -> bool) (k : nat) (l : list A) : option nat :=
    match l with
    | [] => None
    | x :: r => if p x then Some k else first_from p (S k) r
    end.

  Definition match_outputs (outs : list txout) (c : criteria) : list nat :=
    indices_from (fun o => is_matching_output o c) 0 outs.
  Definition match_output (outs : list txout) (c : criteria) : option nat :=
    first_from (fun o => is_matching_output o c) 0 outs.
  Definition match_inputs (ins : list txin) (c : criteria) : list nat :=
    indices_from (fun i => is_matching_input i c) 0 ins.
  Definition match_input (ins : list txin) (c : criteria) : option nat :=
    first_from (fun i => is_matching_input i c) 0 ins.
End Criteria.
