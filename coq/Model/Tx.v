(* Model/Tx.v — transcription of src/transaction/{mod,txin,txout}.rs: wire parsing and serialisation,
   accessors, construction API.  Definitions only.  Integers are N with the Rust type's range as an
   explicit well-formedness predicate (u32 / u64); the hash is a parameter of the functions that need it. *)
From BSV Require Import Base.Hex Model.Opcodes Model.Script Model.VarInt.

Record txin := mk_txin {
  prev_tx_id : bytes;            (* stored big-endian (display order); serialised reversed *)
  vout : N;                      (* u32 *)
  unlocking : list bit;          (* Script *)
  sequence : N;                  (* u32 *)
  locking : option (list bit);   (* extended format *)
  satoshis : option N            (* extended format, u64 *)
}.
Record txout := mk_txout { value : N (* u64 *); script_pub_key : list bit }.
Record tx := mk_tx { version : N; inputs : list txin; outputs : list txout; locktime : N }.

Definition zeros32 : bytes := repeat x00 32.
Definition is_coinbase_outpoint (id : bytes) (v : N) : bool := bytes_eqb id zeros32 && (v =? 4294967295)%N.

(* `Read::read` of a 32-byte buffer: takes what is there, the rest stays zero *)
Definition read32_padded (bs : bytes) : bytes * bytes :=
  let got := firstn 32 bs in (got ++ repeat x00 (32 - length got), skipn 32 bs).

(* TxIn::read_in *)
Definition txin_read (bs : bytes) : outcome (txin * bytes) :=
  let '(idle, r0) := read32_padded bs in
  let id := rev idle in
  do x1 <- of_option (read_le 4 r0); let '(vo, r1) := x1 in
  do x2 <- read_varint r1; let '(slen, r2) := x2 in
  do x3 <- of_option (read_exactN slen r2); let '(sbytes, r3) := x3 in
  do x4 <- of_option (read_le 4 r3); let '(sq, r4) := x4 in
  do scr <- (if is_coinbase_outpoint id vo then Ok [BCoinbase sbytes] else from_bytes sbytes);
  Ok (mk_txin id vo scr sq None None, r4).

(* TxOut::read_in *)
Definition txout_read (bs : bytes) : outcome (txout * bytes) :=
  do x1 <- of_option (read_le 8 bs); let '(v, r1) := x1 in
  do x2 <- read_varint r1; let '(slen, r2) := x2 in
  do x3 <- of_option (read_exactN slen r2); let '(sbytes, r3) := x3 in
  do scr <- from_bytes sbytes;
  Ok (mk_txout v scr, r3).

(* `for _ in 0..n { read }`: n is a u64 taken from the input; every successful read consumes input, so
   fuel = S (length input) is never exhausted (lemma in the proofs). *)
Fixpoint read_many {A} (rd : bytes -> outcome (A * bytes)) (fuel : nat) (n : N) (bs : bytes) : outcome (list A * bytes) :=
  if (n =? 0)%N then Ok ([], bs)
  else match fuel with
       | O => Err
       | S f =>
           do x <- rd bs; let '(a, r) := x in
           do y <- read_many rd f (n - 1)%N r; let '(l, r') := y in
           Ok (a :: l, r')
       end.

(* Transaction::from_bytes_impl *)
Definition tx_from_bytes (bs : bytes) : outcome tx :=
  do x0 <- of_option (read_le 4 bs); let '(ver, r0) := x0 in
  do x1 <- read_varint r0; let '(nin, r1) := x1 in
  do x2 <- read_many txin_read (S (length r1)) nin r1; let '(ins, r2) := x2 in
  do x3 <- read_varint r2; let '(nout, r3) := x3 in
  do x4 <- read_many txout_read (S (length r3)) nout r3; let '(outs, r4) := x4 in
  do x5 <- of_option (read_le 4 r4); let '(lt, _) := x5 in     (* trailing bytes are ignored *)
  Ok (mk_tx ver ins outs lt).

(* TxIn::to_bytes_impl / TxOut::to_bytes_impl / Transaction::to_bytes_impl (usize = u64) *)
Definition txin_bytes (i : txin) : bytes :=
  let s := to_bytes (unlocking i) in
  rev (prev_tx_id i) ++ le_bytes 4 (vout i) ++ write_varint (N.of_nat (length s)) ++ s ++ le_bytes 4 (sequence i).
Definition txout_bytes (o : txout) : bytes :=
  let s := to_bytes (script_pub_key o) in
  le_bytes 8 (value o) ++ write_varint (N.of_nat (length s)) ++ s.
Definition tx_bytes (t : tx) : bytes :=
  le_bytes 4 (version t)
  ++ write_varint (N.of_nat (length (inputs t))) ++ List.concat (map txin_bytes (inputs t))
  ++ write_varint (N.of_nat (length (outputs t))) ++ List.concat (map txout_bytes (outputs t))
  ++ le_bytes 4 (locktime t).

(* accessors *)
Section WithHash.
  Variable sha256d : bytes -> bytes.
  Definition tx_id (t : tx) : bytes := rev (sha256d (tx_bytes t)).
End WithHash.
Definition tx_size (t : tx) : N := N.of_nat (length (tx_bytes t)).
Definition tx_outpoints (t : tx) : list bytes :=
  map (fun i => rev (prev_tx_id i) ++ le_bytes 4 (vout i)) (inputs t).
Definition txin_outpoint_bytes (i : txin) (little_endian : bool) : bytes :=
  (if little_endian then rev (prev_tx_id i) else prev_tx_id i) ++ le_bytes 4 (vout i).
Definition tx_is_coinbase (t : tx) : bool :=
  match inputs t with [i] => is_coinbase_outpoint (prev_tx_id i) (vout i) | _ => false end.
(* satoshis_out: u64 sum; overflow panics with overflow checks (debug/test profile) and wraps in release *)
Definition satoshis_out (overflow_checks : bool) (t : tx) : outcome N :=
  fold_left (fun acc o => do a <- acc;
                          let s := (a + value o)%N in
                          if (s <=? u64max)%N then Ok s else if overflow_checks then Panic else Ok (s mod 18446744073709551616)%N)
            (outputs t) (Ok 0%N).
(* satoshis_in: None as soon as any input has no value (reduce); empty input list gives None *)
Definition satoshis_in (overflow_checks : bool) (t : tx) : outcome (option N) :=
  match inputs t with
  | [] => Ok None
  | i0 :: rest =>
      fold_left (fun acc i => do a <- acc;
                   match a, satoshis i with
                   | Some x, Some y => let s := (x + y)%N in
                                       if (s <=? u64max)%N then Ok (Some s) else if overflow_checks then Panic else Ok (Some (s mod 18446744073709551616)%N)
                   | _, _ => Ok None
                   end) rest (Ok (satoshis i0))
  end.

(* construction API *)
Definition txin_new (id : bytes) (vo : N) (scr : list bit) (sq : option N) : txin :=
  mk_txin id vo scr (match sq with Some v => v | None => 4294967295%N end) None None.
Definition txout_new (v : N) (scr : list bit) : txout := mk_txout v scr.
Definition tx_new (ver lt : N) : tx := mk_tx ver [] [] lt.
Definition add_input (t : tx) (i : txin) : tx := mk_tx (version t) (inputs t ++ [i]) (outputs t) (locktime t).
Definition add_output (t : tx) (o : txout) : tx := mk_tx (version t) (inputs t) (outputs t ++ [o]) (locktime t).
(* TxIn::from_outpoint_bytes *)
Definition txin_from_outpoint (op : bytes) : outcome txin :=
  if Nat.eqb (length op) 36 then
    Ok (mk_txin (rev (firstn 32 op)) (le_val (skipn 32 op)) [] 4294967295%N None None)
  else Err.

(* well-formedness of values that Rust's types guarantee *)
Definition u32_ok (n : N) : bool := (n <? 4294967296)%N.
Definition u64_ok (n : N) : bool := (n <=? u64max)%N.
