(* Model/Template.v — transcription of src/script/script_template.rs:
   ScriptTemplate::map_string_to_match_token / from_asm_string / from_script and Script::match_impl
   (matches / is_match).  Definitions only.

   `Signature::from_der_impl` and `PublicKey::from_bytes_impl` are parameters of the model
   (`is_sig`, `is_pubkey` : does the buffer decode?): what they accept is the subject of C06 / C07.
   Run/Exec_C19.v instantiates them with Prim/Der.v (strict DER, r and s in 1..n-1, optionally followed
   by one sighash-flag byte) and Prim/Secp256k1.v (SEC1 encodings of curve points), and the driver
   exercises the real decoders on real and corrupted signatures and keys. *)
From BSV Require Import Base.Hex Model.Opcodes Model.Script Model.Asm.

Inductive lencmp := CEquals | CGreaterThan | CLessThan | CGreaterThanOrEquals | CLessThanOrEquals.

(* MatchToken *)
Inductive mtoken :=
| MOp (c : N)
| MPush (d : bytes)
| MPushData (c : N) (d : bytes)
| MAnyData
| MData (len : N) (k : lencmp)
| MSignature
| MPublicKey
| MPublicKeyHash.

(* MatchDataTypes *)
Inductive mkind := KData | KSignature | KPublicKey | KPublicKeyHash.

(* ------------------------------------------------------------------ *)
(* u8::from_str / usize::from_str: an optional '+', then at least one decimal digit, nothing else;
   values above the type's maximum are an error.  (A '-' is an invalid digit for unsigned types.) *)
Definition u8_max := 255%N.
Definition usize_max := 18446744073709551615%N.
Definition parse_uint (max : N) (s : string) : option N :=
  let body := match s with String "+" r => r | _ => s end in
  match N_of_dec body with
  | Some n => if (n <=? max)%N then Some n else None
  | None => None
  end.

(* str::split(' ') : every piece, including empty ones *)
Fixpoint split_space (s : string) : list string :=
  match s with
  | EmptyString => [EmptyString]
  | String c r =>
      if Ascii.eqb c " " then EmptyString :: split_space r
      else match split_space r with
           | h :: t => String c h :: t
           | [] => [String c EmptyString]
           end
  end.

(* str::strip_prefix / starts_with / split_once(pat).map(|(_, after)| after) *)
Fixpoint strip_prefix (p s : string) : option string :=
  match p with
  | EmptyString => Some s
  | String a p' =>
      match s with
      | String b s' => if Ascii.eqb a b then strip_prefix p' s' else None
      | EmptyString => None
      end
  end.
Definition starts_with (p s : string) : bool := match strip_prefix p s with Some _ => true | None => false end.
Fixpoint find_after (p s : string) : option string :=
  match strip_prefix p s with
  | Some rest => Some rest
  | None => match s with EmptyString => None | String _ r => find_after p r end
  end.

(* pseudo-opcodes of the template language *)
Definition OP_DATA := 251%N.
Definition OP_SIG := 252%N.
Definition OP_PUBKEYHASH := 253%N.
Definition OP_PUBKEY := 254%N.

(* the OP_DATA<op><len> forms, tried in the order >=, <=, =, >, < ; None = no operator present *)
Definition data_token (code : string) : option (outcome mtoken) :=
  let try (op : string) (k : lencmp) (next : option (outcome mtoken)) : option (outcome mtoken) :=
    match find_after op code with
    | Some ls => Some (match parse_uint usize_max ls with Some n => Ok (MData n k) | None => Err end)
    | None => next
    end in
  try ">=" CGreaterThanOrEquals
    (try "<=" CLessThanOrEquals
      (try "=" CEquals
        (try ">" CGreaterThan
          (try "<" CLessThan None)))).

Definition push_token (d : bytes) : mtoken :=
  match get_pushdata_opcode (N.of_nat (length d)) with
  | Some c => MPushData c d
  | None => MPush d
  end.

Definition map_match_token (code : string) : outcome mtoken :=
  let rest :=
    match opcode_of_name code with
    | Some c =>
        if (c =? OP_SIG)%N then Ok MSignature
        else if (c =? OP_PUBKEY)%N then Ok MPublicKey
        else if (c =? OP_PUBKEYHASH)%N then Ok MPublicKeyHash
        else if (c =? OP_DATA)%N then Ok MAnyData
        else Ok (MOp c)
    | None =>
        let hex := match bytes_of_hex code with Some d => Ok (push_token d) | None => Err end in
        if starts_with (op_text OP_DATA) code then
          match data_token code with Some r => r | None => hex end
        else hex
    end in
  (* if code.len() < 3 { if let Ok(n) = u8::from_str(code) { 0 => OP_0, 1..=16 => from_u8(n + 80).unwrap() } } *)
  if Nat.ltb (slength code) 3 then
    match parse_uint u8_max code with
    | Some n =>
        if (n =? 0)%N then Ok (MOp OP_0)
        else if (n <=? 16)%N then (if is_opcode (n + 80) then Ok (MOp (n + 80)) else Panic)
        else rest
    | None => rest
    end
  else rest.

Fixpoint map_match_tokens (l : list string) : outcome (list mtoken) :=
  match l with
  | [] => Ok []
  | t :: r => do b <- map_match_token t; do bs <- map_match_tokens r; Ok (b :: bs)
  end.

(* ScriptTemplate::from_asm_string, from_script *)
Definition template_from_asm (asm : string) : outcome (list mtoken) := map_match_tokens (split_space asm).
Definition template_from_script (s : list bit) : outcome (list mtoken) := template_from_asm (to_asm false s).

(* ------------------------------------------------------------------ *)
(* Script::match_impl *)
Section Match.
  Variable is_sig : bytes -> bool.       (* Signature::from_der_impl(buf).is_ok() *)
  Variable is_pubkey : bytes -> bool.    (* PublicKey::from_bytes_impl(buf).is_ok() *)

  Definition len_ok (k : lencmp) (dlen len : N) : bool :=
    match k with
    | CEquals => (dlen =? len)%N
    | CGreaterThan => (len <? dlen)%N
    | CLessThan => (dlen <? len)%N
    | CGreaterThanOrEquals => (len <=? dlen)%N
    | CLessThanOrEquals => (dlen <=? len)%N
    end.

  (* Ok(true); Ok(false) and Err(_) both end the match with an error *)
  Definition token_matches (t : mtoken) (b : bit) : bool :=
    match t, b with
    | MOp tc, BOp c => (tc =? c)%N
    | MPush td, BPush d => bytes_eqb td d
    | MPushData tc td, BPushData c d => (tc =? c)%N && bytes_eqb td d
    | MData len k, BPushData _ d => len_ok k (N.of_nat (length d)) len
    | MData len k, BPush d => len_ok k (N.of_nat (length d)) len
    | MAnyData, BPush _ => true
    | MAnyData, BPushData _ _ => true
    | MSignature, BPush d => is_sig d
    | MPublicKey, BPush d => is_pubkey d
    | MPublicKeyHash, BPush d => Nat.eqb (length d) 20
    | _, _ => false
    end.

  Definition token_extract (t : mtoken) (b : bit) : list (mkind * bytes) :=
    match t, b with
    | MData _ _, BPushData _ d => [(KData, d)]
    | MData _ _, BPush d => [(KData, d)]
    | MAnyData, BPush d => [(KData, d)]
    | MAnyData, BPushData _ d => [(KData, d)]
    | MSignature, BPush d => [(KSignature, d)]
    | MPublicKey, BPush d => [(KPublicKey, d)]
    | MPublicKeyHash, BPush d => [(KPublicKeyHash, d)]
    | _, _ => []
    end.

  (* the loop over template.iter().zip(script.iter()) *)
  Fixpoint match_loop (ts : list mtoken) (s : list bit) : outcome (list (mkind * bytes)) :=
    match ts, s with
    | t :: ts', b :: s' =>
        if token_matches t b then do ms <- match_loop ts' s'; Ok (token_extract t b ++ ms) else Err
    | _, _ => Ok []
    end.

  Definition match_impl (s : list bit) (ts : list mtoken) : outcome (list (mkind * bytes)) :=
    if negb (Nat.eqb (length s) (length ts)) then Err else match_loop ts s.

  Definition is_match (s : list bit) (ts : list mtoken) : bool :=
    match match_impl s ts with Ok _ => true | _ => false end.
End Match.
