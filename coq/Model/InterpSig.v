(* Model/InterpSig.v — the transaction side of OP_CHECKSIG / OP_CHECKMULTISIG: transcription of
     src/interpreter/script_matching.rs   checksig / multisig (flag byte), verify_tx_signature,
                                          calculate_sighash_preimage
     src/interpreter/mod.rs               TxScript, Interpreter::from_transaction, run
     src/transaction/txin.rs              TxIn::get_finalised_script_impl
     src/transaction/sighash.rs           Transaction::_verify
     src/ecdsa/verify.rs                  ECDSA::verify_hashbuf_impl
   (the code after the `fix:` commits 7c585a6, 387d2b0, 4d915e8, e8fa159).  It instantiates the two Section
   variables of Model/Interp.v.  Definitions only.

   Conventions
   * `usize` input index: a `nat`; callers clamp an index beyond the number of inputs to that number
     (every such index takes the `get_input(..) == None` path).
   * The memoised hashes of the transaction (hash_cache) are not part of this model: the preimage is the
     uncached one of Model/Sighash.v.  Property C04 (Model/Cache.v) is the statement that a cache that was
     filled from the same transaction is transparent; the interpreter never edits its copy of the transaction.
   * The elliptic-curve primitives come from the record [ec_prims] of Model/Ecdsa.v (Z instance for the
     theorems, BigZ instance for execution). *)
From BSV Require Import Base.Bytes Base.Hex.
From BSV Require Import Prim.Num Prim.Secp256k1 Prim.Der.
From BSV Require Import Model.Opcodes Model.Script Model.VarInt Model.Tx Model.HashApi Model.Sighash Model.Ecdsa Model.Sig
  Model.Interp.

(* TxScript { tx, input_index } *)
Record txctx : Type := mk_ctx { ctx_tx : tx; ctx_idx : nat }.

(* TxIn::get_finalised_script_impl: the two scripts are serialised, concatenated and parsed again;
   without a locking script the unlocking script alone *)
Definition finalised_script (i : txin) : outcome (list bit) :=
  match locking i with
  | Some l => from_bytes (to_bytes (unlocking i) ++ to_bytes l)
  | None => Ok (unlocking i)
  end.

Section WithPrims.
  Variable P : ec_prims.

  (* calculate_sighash_preimage(txscript, sighash, codeseparator_offset)
       unlock_script_len = number of top-level bits of the input's unlocking script
       script_offset     = codeseparator_offset.saturating_sub(unlock_script_len)
       unsigned_script   = locking_script.to_script_bits().get(script_offset..)      (None when out of range)
     in the order of the source: input, locking script, range, satoshis, preimage *)
  Definition calculate_sighash_preimage (c : txctx) (f : N) (codeseparator_offset : nat) : outcome bytes :=
    match nth_error (inputs (ctx_tx c)) (ctx_idx c) with
    | None => Err
    | Some i =>
        let unlock_script_len := length (unlocking i) in
        let script_offset := (codeseparator_offset - unlock_script_len)%nat in
        match locking i with
        | None => Err
        | Some l =>
            if Nat.ltb (length l) script_offset then Err
            else
              let unsigned_script := skipn script_offset l in
              match satoshis i with
              | None => Err
              | Some v => sighash_preimage sha_256d (ctx_tx c) (ctx_idx c) f unsigned_script v
              end
        end
    end.

  (* the head of checksig / of the loop body of multisig: signature.last() must be a SigHash value *)
  Definition sig_preimage (c : txctx) (codeseparator_offset : nat) (signature : bytes) : outcome bytes :=
    match last_opt signature with
    | None => Err
    | Some b => if is_flag b then calculate_sighash_preimage c (b2n b) codeseparator_offset else Err
    end.

  (* ECDSA::verify_hashbuf_impl(digest, pub_key, signature): AffinePoint::from_encoded_point(..).unwrap(),
     verify_prehashed(..)? ; Ok(true) *)
  Definition verify_hashbuf_impl (digest : bytes) (pk : pubkey) (sg : signature) : outcome bool :=
    match p_decode P (pk_point pk) with
    | None => Panic
    | Some Q => if p_verify P Q (scalar_be digest) (sig_r sg, sig_s sg) then Ok true else Err
    end.

  (* Transaction::_verify(pub_key, sig, reverse_k = false):
       digest = get_hash_digest(Sha256d, sig.sighash_buffer).finalize_fixed();  verify_hashbuf_impl(..).unwrap_or(false) *)
  Definition tx_verify (pk : pubkey) (ss : sighash_signature) : outcome bool :=
    match verify_hashbuf_impl (message_digest SHSha256d (ss_buffer ss)) pk (ss_sig ss) with
    | Ok b => Ok b
    | Err => Ok false
    | Panic => Panic
    end.

  (* verify_tx_signature(preimage, txscript, signature, public_key) *)
  Definition sig_verify (_ : txctx) (preimage signature public_key : bytes) : outcome bool :=
    do ss <- sighashsig_from_bytes signature preimage;
    do pk <- pubkey_from_bytes P public_key;
    tx_verify pk ss.

  (* Interpreter::from_transaction(tx, txin) *)
  Definition from_transaction (t : tx) (txin_index : nat) : outcome (interp txctx) :=
    match nth_error (inputs t) txin_index with
    | None => Err
    | Some i =>
        do bits <- finalised_script i;
        Ok (from_script_bits txctx bits (Some (mk_ctx t txin_index)))
    end.

  Definition run_tx (i : interp txctx) : run_result txctx := Interp.run txctx sig_preimage sig_verify i.
  Definition next_tx (i : interp txctx) : step_result txctx := Interp.next_impl txctx sig_preimage sig_verify i.

  (* from_transaction + run *)
  Definition spend (t : tx) (txin_index : nat) : outcome (run_result txctx) :=
    do i <- from_transaction t txin_index; Ok (run_tx i).
End WithPrims.

(* setters used to attach the extended fields (TxIn::set_satoshis / set_locking_script / Transaction::set_input) *)
Definition set_satoshis (i : txin) (v : N) : txin :=
  mk_txin (prev_tx_id i) (vout i) (unlocking i) (sequence i) (locking i) (Some v).
Definition set_locking_script (i : txin) (l : list bit) : txin :=
  mk_txin (prev_tx_id i) (vout i) (unlocking i) (sequence i) (Some l) (satoshis i).
Definition set_inputs (t : tx) (ins : list txin) : tx := mk_tx (version t) ins (outputs t) (locktime t).

(* ------------------------------------------------------------------ *)
(* Assembling a spend through the library's own API.
   Transaction::sign(priv_key, sighash, n_tx_in, unsigned_script, value).to_bytes():
     buffer = sighash_preimage_impl(..);  signature = ECDSA::sign_with_deterministic_k_impl(key, buffer, Sha256d, true);
     SighashSignature::to_bytes = DER(signature) || flag byte
   (the shape of Model/Sighash.tx_sign, with the signer of Model/Ecdsa.v and the DER encoder of Model/Sig.v). *)
Definition tx_sign_element (P : ec_prims) (t : tx) (sk : privkey) (f : N) (n_tx_in : nat) (unsigned_script : list bit) (value : N)
  : outcome bytes :=
  do buffer <- sighash_preimage sha_256d t n_tx_in f unsigned_script value;
  do s <- sign_with_deterministic_k P sk buffer SHSha256d true;
  Ok (to_der_bytes s ++ [n2b f]).

(* Transaction::sign_with_k(priv_key, ephemeral_key, ..).to_bytes(): the same with ECDSA::sign_with_k_impl(.., Sha256d) *)
Definition tx_sign_with_k_element (P : ec_prims) (t : tx) (sk ephemeral : privkey) (f : N) (n_tx_in : nat)
           (unsigned_script : list bit) (value : N) : outcome bytes :=
  do buffer <- sighash_preimage sha_256d t n_tx_in f unsigned_script value;
  do s <- sign_with_k P sk ephemeral buffer SHSha256d;
  Ok (to_der_bytes s ++ [n2b f]).

(* PublicKey::from_private_key(sk).to_bytes() *)
Definition pubkey_bytes (P : ec_prims) (sk : privkey) : bytes := pk_point (to_public_key P sk).

(* TxIn::set_unlocking_script + Transaction::set_input(k, ..) *)
Definition set_unlocking_at (t : tx) (k : nat) (s : list bit) : tx :=
  match nth_error (inputs t) k with
  | Some i => set_inputs t (set_nth k (set_unlocking i s) (inputs t))
  | None => t
  end.
