(* Model/Asm.v — transcription of the ASM text functions of src/script/mod.rs:
   script_bits_to_asm_string (plain and extended), map_string_to_script_bit, from_asm_string,
   together with the std / crate functions they call (str::split_whitespace and str::trim on ASCII,
   strum EnumString / Debug names via the generated table, hex::encode / hex::decode,
   VarInt::get_pushdata_opcode).  Definitions only.

   Text is `string`, one `ascii` per UTF-8 byte.  The transcription of `trim` is exact for ASCII
   text; for text with bytes >= 0x80 it is exact as long as the text contains none of the non-ASCII
   Unicode White_Space characters (U+0085, U+00A0, U+1680, U+2000..U+200A, U+2028, U+2029, U+202F,
   U+205F, U+3000), because the remaining steps work on bytes and every byte >= 0x80 is
   rejected by `hex::decode` and occurs in no opcode name. *)
From BSV Require Import Base.Hex Model.Opcodes Model.Script.

(* ------------------------------------------------------------------ *)
(* char::is_whitespace restricted to ASCII: U+0009..U+000D and U+0020 *)
Definition is_ws (c : ascii) : bool :=
  let n := N_of_ascii c in ((9 <=? n)%N && (n <=? 13)%N) || (n =? 32)%N.

Definition is_empty (s : string) : bool := match s with EmptyString => true | _ => false end.

(* str::trim_start / trim_end / trim *)
Fixpoint ltrim (s : string) : string :=
  match s with
  | EmptyString => EmptyString
  | String c r => if is_ws c then ltrim r else s
  end.
Fixpoint rtrim (s : string) : string :=
  match s with
  | EmptyString => EmptyString
  | String c r =>
      match rtrim r with
      | EmptyString => if is_ws c then EmptyString else String c EmptyString
      | r' => String c r'
      end
  end.
Definition trim (s : string) : string := rtrim (ltrim s).

(* str::split_whitespace(): the pieces between whitespace characters, empty pieces dropped.
   `ws_split` cuts at every whitespace character (always at least one piece; linear). *)
Fixpoint ws_split (s : string) : list string :=
  match s with
  | EmptyString => [EmptyString]
  | String c r =>
      if is_ws c then EmptyString :: ws_split r
      else match ws_split r with
           | h :: t => String c h :: t
           | [] => [String c EmptyString]
           end
  end.
Definition split_whitespace (s : string) : list string :=
  filter (fun x => negb (is_empty x)) (ws_split s).

(* ------------------------------------------------------------------ *)
(* map_string_to_script_bit *)
Definition alias_table : list (string * N) :=
  [("0", 0); ("1", 81); ("2", 82); ("3", 83); ("4", 84); ("5", 85); ("6", 86); ("7", 87); ("8", 88); ("9", 89);
   ("10", 90); ("11", 91); ("12", 92); ("13", 93); ("14", 94); ("15", 95); ("16", 96)]%N.
Definition alias_of (s : string) : option N := lookup_val alias_table s.

Definition push_bit (d : bytes) : bit :=
  match get_pushdata_opcode (N.of_nat (length d)) with
  | Some c => BPushData c d
  | None => BPush d
  end.

Definition map_token (code : string) : outcome bit :=
  let code := trim code in
  match alias_of code with
  | Some c => Ok (BOp c)
  | None =>
    match opcode_of_name code with          (* OpCodes::from_str: exact variant names *)
    | Some c => Ok (BOp c)
    | None =>
      match bytes_of_hex code with          (* hex::decode: both cases, even length *)
      | Some d => Ok (push_bit d)
      | None => Err
      end
    end
  end.

(* Iterator<Item = Result<..>>::collect::<Result<Vec<_>, _>>() *)
Fixpoint map_tokens (l : list string) : outcome (list bit) :=
  match l with
  | [] => Ok []
  | t :: r => do b <- map_token t; do bs <- map_tokens r; Ok (b :: bs)
  end.

(* asm.split_whitespace().map(Script::map_string_to_script_bit).collect() *)
Definition asm_tokens (s : string) : list string := split_whitespace s.

Definition from_asm (s : string) : outcome (list bit) :=
  do bits <- map_tokens (asm_tokens s); nest_top bits.

(* ------------------------------------------------------------------ *)
(* script_bits_to_asm_string *)
(* Display for OpCodes = Debug = the variant name; a Rust OpCodes value is always in the table *)
Definition op_text (c : N) : string := match opcode_name c with Some s => s | None => EmptyString end.

Definition nonempty_part (s : string) : list string := if is_empty s then [] else [s].

Fixpoint bit_asm (ext : bool) (b : bit) : string :=
  match b with
  | BOp c => if (c =? OP_0)%N then (if ext then op_text OP_0 else "0") else op_text c
  | BPush d =>
      if ext then "OP_PUSH " +++ dec_of_N (N.of_nat (length d)) +++ " " +++ hex_of_bytes d
      else hex_of_bytes d
  | BPushData c d =>
      if ext then op_text c +++ " " +++ dec_of_N (N.of_nat (length d)) +++ " " +++ hex_of_bytes d
      else hex_of_bytes d
  | BIf c p q =>
      join " " ([op_text c]
                ++ nonempty_part (join " " (map (bit_asm ext) p))
                ++ match q with
                   | None => []
                   | Some q' => op_text OP_ELSE :: nonempty_part (join " " (map (bit_asm ext) q'))
                   end
                ++ [op_text OP_ENDIF])
  | BCoinbase d => hex_of_bytes d
  end.

Definition to_asm (ext : bool) (l : list bit) : string := join " " (map (bit_asm ext) l).
