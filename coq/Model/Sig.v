(* Model/Sig.v — transcription of src/signature/mod.rs and of SighashSignature::{to_bytes,from_bytes}
   (src/transaction/sighash.rs), CURRENT code (after the `fix:` commits d200bf1, 1fd16b9, 245eddf, 3b86143, e8fa159).

   External: ecdsa::Signature::{from_der, to_der, from_scalars} = Prim/Der.v (der_decode / der_encode,
   range rule 1 <= v < n); k256 recoverable signatures = Prim/Secp256k1.v (recover_g).
   The fourteen sighash flag values come from the regenerated enum table (Model/Opcodes.v, sighash_of_u8).
   Definitions only. *)
From BSV Require Import Base.Bytes Base.Hex.
From BSV Require Import Prim.Num Prim.Secp256k1 Prim.Der Model.HashApi Model.Opcodes Model.Ecdsa.
Local Open Scope Z_scope.

Fixpoint last_opt {A} (l : list A) : option A :=
  match l with
  | [] => None
  | [x] => Some x
  | _ :: r => last_opt r
  end.

Definition mk_sig (rs : Z * Z) : signature := {| sig_r := fst rs; sig_s := snd rs; sig_rec := None |}.

(* SigHash::from_u8(b).is_some() *)
Definition is_flag (b : byte) : bool := sighash_of_u8 (b2n b).

(* Signature::from_der_impl: the whole input first; only if that fails and the last byte is a sighash flag,
   the input without its last byte *)
Definition from_der_impl (bs : bytes) : outcome signature :=
  match der_decode bs with
  | Some rs => Ok (mk_sig rs)
  | None =>
      match last_opt bs with
      | Some b =>
          if is_flag b then
            match der_decode (removelast bs) with Some rs => Ok (mk_sig rs) | None => Err end
          else Err
      | None => Err
      end
  end.

(* Signature::from_hex_der: hex::decode (both cases, even length), then from_der_impl *)
Definition from_hex_der (s : string) : outcome signature :=
  match bytes_of_hex s with Some bs => from_der_impl bs | None => Err end.

(* Signature::to_der_bytes *)
Definition to_der_bytes (sg : signature) : bytes := der_encode (sig_r sg) (sig_s sg).

(* ------------------------------------------------------------------ *)
(* SighashSignature { signature, sighash_type, sighash_buffer }; the flag is kept as its byte *)
Record sighash_signature : Type := { ss_sig : signature; ss_flag : byte; ss_buffer : bytes }.

(* to_bytes_impl: DER, then the flag byte (to_u8 cannot fail on an enum value) *)
Definition sighashsig_to_bytes (ss : sighash_signature) : outcome bytes :=
  Ok (to_der_bytes (ss_sig ss) ++ [ss_flag ss]).

(* from_bytes_impl (after fix e8fa159): bytes.split_last() -> (flag, der_bytes); Err on empty input;
   k256::ecdsa::Signature::from_der(der_bytes)?  (strict: no flag-strip retry);  flag.try_into()?  *)
Definition sighashsig_from_bytes (bs buffer : bytes) : outcome sighash_signature :=
  match last_opt bs with
  | None => Err
  | Some b =>
      match der_decode (removelast bs) with
      | None => Err
      | Some rs => if is_flag b then Ok {| ss_sig := mk_sig rs; ss_flag := b; ss_buffer := buffer |} else Err
      end
  end.

(* ------------------------------------------------------------------ *)
(* Compact (65-byte, recoverable) form.                                *)
Definition default_recinfo : recinfo := {| ri_y_odd := false; ri_x_reduced := false; ri_compressed := false |}.

(* to_compact_bytes(recovery_info): recovery_info.or(self.recovery).unwrap_or_default();
     recovery = ((x_reduced as u8) << 1 | (y_odd as u8)) + 27 + 4;  if !compressed { recovery -= 4 }
   (u8 arithmetic: at most 3 + 31, no overflow, no underflow) *)
Definition compact_header (ri : recinfo) : N :=
  let id := ((if ri_x_reduced ri then 2 else 0) + (if ri_y_odd ri then 1 else 0))%N in
  let h := (id + 27 + 4)%N in
  if ri_compressed ri then h else (h - 4)%N.
Definition to_compact_bytes (sg : signature) (info : option recinfo) : bytes :=
  let ri := match info with
            | Some i => i
            | None => match sig_rec sg with Some i => i | None => default_recinfo end
            end in
  n2b (compact_header ri) :: be32 (sig_r sg) ++ be32 (sig_s sg).

(* RecoveryInfo::from_byte *)
Definition recinfo_from_byte (b : N) (compressed : bool) : recinfo :=
  {| ri_y_odd := N.testbit b 0; ri_x_reduced := N.testbit b 1; ri_compressed := compressed |}.

(* from_compact_impl (after fix 1fd16b9):
     len != 65 -> Err;  header not in 27..=34 -> Err;
     match (header - 27) as i8 - 4 { x if x < 0 => (x + 4, false), x => (x, true) };  recovery > 3 -> Err (unreachable)
     SecpSignature::from_scalars(bytes[1..33], bytes[33..65])?   (both scalars in [1, n-1])              *)
Definition from_compact_impl (bs : bytes) : outcome signature :=
  if negb (Nat.eqb (length bs) 65) then Err
  else
    match bs with
    | [] => Panic                                   (* compact_bytes[0] on an empty slice: unreachable *)
    | h :: body =>
        let hv := Z.of_N (b2n h) in
        if negb ((27 <=? hv) && (hv <=? 34)) then Err
        else
          let x := hv - 27 - 4 in                   (* i8 arithmetic, -4 .. 3 *)
          let '(recovery, compressed) := if x <? 0 then (x + 4, false) else (x, true) in
          if 3 <? recovery then Err
          else
            let r := be_Z (firstn 32 body) in
            let s := be_Z (skipn 32 body) in
            if sig_in_range secp_n r s then
              Ok {| sig_r := r; sig_s := s; sig_rec := Some (recinfo_from_byte (Z.to_N recovery) compressed) |}
            else Err
    end.

(* ------------------------------------------------------------------ *)
(* Public key recovery (after fix 3b86143).
   get_public_key: no recovery info -> Err; RecoveryId -> k256 Id: Err for an x-reduced id;
   recovers_identity: R = decompress(r, is_y_odd); none -> false; else s*R == z*G  -> Err when true;
   recover_verify_key_from_digest(get_hash_digest(..)): z = from_be_bytes_reduced(digest.finalize()),
   which would PANIC inside k256 when the recovered point is the identity (Prim recover_g);
   PublicKey::from_bytes(verify_key.to_encoded_point(is_pubkey_compressed)) *)
Definition point_eqb (A B : point) : bool :=
  match A, B with
  | None, None => true
  | Some (x1, y1), Some (x2, y2) => (x1 =? x2) && (y1 =? y2)
  | _, _ => false
  end.

Definition recovers_identity (P : ec_prims) (r s : Z) (odd : bool) (z : Z) : bool :=
  match p_lift P r odd with
  | None => false
  | Some R => point_eqb (p_smul P s R) (p_smul P z G)
  end.

Definition recover_with (P : ec_prims) (sg : signature) (z : Z) : outcome pubkey :=
  match sig_rec sg with
  | None => Err
  | Some ri =>
      if ri_x_reduced ri then Err
      else if recovers_identity P (sig_r sg) (sig_s sg) (ri_y_odd ri) z then Err
      else
        do Q <- p_recover P (sig_r sg) (sig_s sg) (ri_y_odd ri) z;
        pubkey_from_bytes P (sec1_encode (ri_compressed ri) Q)
  end.

Definition get_public_key (P : ec_prims) (sg : signature) (message : bytes) (algo : signing_hash) : outcome pubkey :=
  recover_with P sg (scalar_be (message_digest algo message)).

(* get_public_key_from_digest: the length guard of fix 245eddf comes first *)
Definition get_public_key_from_digest (P : ec_prims) (sg : signature) (digest : bytes) : outcome pubkey :=
  if Nat.eqb (length digest) 32 then recover_with P sg (scalar_be digest) else Err.
