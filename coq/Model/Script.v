(* Model/Script.v — transcription of src/script/mod.rs (parsing, nesting, serialisation,
   push encoding helpers) and the VarInt push-class helper.  Definitions only. *)
From BSV Require Import Base.Hex Model.Opcodes.

(* ScriptBit.  Opcodes are carried as their byte value; `wf_bit` states that the value is
   a member of the Rust enum (the only values a Rust `OpCodes` can hold). *)
Inductive bit : Type :=
| BOp (c : N)
| BPush (d : bytes)
| BPushData (c : N) (d : bytes)
| BIf (c : N) (pass : list bit) (fail : option (list bit))
| BCoinbase (d : bytes).

Definition u64max := 18446744073709551615%N.

(* ------------------------------------------------------------------ *)
(* Script::from_bytes, first loop: flat bits.
   Direct pushes use `Read::read` (takes what is there); OP_PUSHDATAn require the declared
   length to be present (read_exact, after the fix).                                       *)
Fixpoint tokenize (fuel : nat) (bs : bytes) : outcome (list bit) :=
  match bs with
  | [] => Ok []
  | b :: r =>
    match fuel with
    | O => Err
    | S f =>
      let n := b2n b in
      if negb (n =? 0)%N && (n <? 76)%N then
        let k := N.to_nat n in
        do rest <- tokenize f (skipn k r);
        Ok (BPush (firstn k r) :: rest)
      else if is_opcode n then
        if (n =? 76)%N || (n =? 77)%N || (n =? 78)%N then
          let w := if (n =? 76)%N then 1 else if (n =? 77)%N then 2 else 4 in
          match read_le w r with
          | None => Err
          | Some (len, r1) =>
            match read_exactN len r1 with
            | None => Err
            | Some (d, r2) => do rest <- tokenize f r2; Ok (BPushData n d :: rest)
            end
          end
        else do rest <- tokenize f r; Ok (BOp n :: rest)
      else Err
    end
  end.

(* ------------------------------------------------------------------ *)
(* if_statement_pass / read_pass / read_fail / read_if_statement *)
Inductive mode := Top | Pass | Fail.
Inductive term := TEnd | TElse | TEndif.

Fixpoint nest (fuel : nat) (m : mode) (ts : list bit) : outcome (list bit * term * list bit) :=
  match fuel with
  | O => Err
  | S f =>
    match ts with
    | [] => match m with Top => Ok ([], TEnd, []) | _ => Err end
    | BOp c :: r =>
      if is_if c then
        match nest f Pass r with
        | Ok (p, TEndif, r1) =>
          do x <- nest f m r1; let '(bs, t, r') := x in Ok (BIf c p None :: bs, t, r')
        | Ok (p, TElse, r1) =>
          match nest f Fail r1 with
          | Ok (q, TEndif, r2) =>
            do x <- nest f m r2; let '(bs, t, r') := x in Ok (BIf c p (Some q) :: bs, t, r')
          | Ok _ => Err
          | Err => Err
          | Panic => Panic
          end
        | Ok (_, TEnd, _) => Err
        | Err => Err
        | Panic => Panic
        end
      else
        match m, (c =? OP_ELSE)%N, (c =? OP_ENDIF)%N with
        | Pass, true, _ => Ok ([], TElse, r)
        | Pass, _, true => Ok ([], TEndif, r)
        | Fail, _, true => Ok ([], TEndif, r)
        | _, _, _ => do x <- nest f m r; let '(bs, t, r') := x in Ok (BOp c :: bs, t, r')
        end
    | o :: r => do x <- nest f m r; let '(bs, t, r') := x in Ok (o :: bs, t, r')
    end
  end.

Definition nest_top (ts : list bit) : outcome (list bit) :=
  do x <- nest (S (length ts)) Top ts; let '(bs, _, _) := x in Ok bs.

Definition from_bytes (bs : bytes) : outcome (list bit) :=
  do ts <- tokenize (length bs) bs; nest_top ts.

(* ------------------------------------------------------------------ *)
(* Script::script_bits_to_bytes, with the `as u8/u16/u32` casts. *)
Definition pushdata_width (c : N) : nat :=
  if (c =? 76)%N then 1 else if (c =? 77)%N then 2 else 4.

Fixpoint bit_bytes (b : bit) : bytes :=
  let fix bits_bytes (l : list bit) : bytes :=
    match l with [] => [] | x :: r => bit_bytes x ++ bits_bytes r end in
  match b with
  | BOp c => [n2b c]
  | BPush d => n2b (N.of_nat (length d)) :: d
  | BPushData c d => n2b c :: le_bytes (pushdata_width c) (N.of_nat (length d)) ++ d
  | BIf c p q =>
      n2b c :: bits_bytes p
        ++ match q with None => [] | Some q' => n2b OP_ELSE :: bits_bytes q' end
        ++ [n2b OP_ENDIF]
  | BCoinbase d => d
  end.
Fixpoint to_bytes (l : list bit) : bytes :=
  match l with [] => [] | x :: r => bit_bytes x ++ to_bytes r end.

(* ------------------------------------------------------------------ *)
(* VarInt::get_pushdata_opcode, Script::get_pushdata_prefix_bytes (usize = u64), encode_pushdata *)
Definition get_pushdata_opcode (len : N) : option N :=
  if (len <=? 75)%N then None
  else if (len <=? 255)%N then Some OP_PUSHDATA1
  else if (len <=? 65535)%N then Some OP_PUSHDATA2
  else Some OP_PUSHDATA4.

Definition get_pushdata_prefix_bytes (len : N) : outcome bytes :=
  if (1 <=? len)%N && (len <=? 75)%N then Ok [n2b len]
  else if (76 <=? len)%N && (len <=? 255)%N then Ok [n2b OP_PUSHDATA1; n2b len]
  else if (256 <=? len)%N && (len <=? 65535)%N then Ok (n2b OP_PUSHDATA2 :: le_bytes 2 len)
  else if (65536 <=? len)%N && (len <=? 4294967295)%N then Ok (n2b OP_PUSHDATA4 :: le_bytes 4 len)
  else Err.

Definition encode_pushdata (d : bytes) : outcome bytes :=
  do p <- get_pushdata_prefix_bytes (N.of_nat (length d)); Ok (p ++ d).

(* ------------------------------------------------------------------ *)
(* well-formedness of bits that Rust values always satisfy *)
Fixpoint wf_bit (b : bit) : bool :=
  let fix wf_bits (l : list bit) : bool :=
    match l with [] => true | x :: r => wf_bit x && wf_bits r end in
  match b with
  | BOp c => is_opcode c
  | BPush _ => true
  | BPushData c _ => (c =? 76)%N || (c =? 77)%N || (c =? 78)%N
  | BIf c p q => is_if c && wf_bits p && match q with None => true | Some q' => wf_bits q' end
  | BCoinbase _ => true
  end.
Fixpoint wf_bits (l : list bit) : bool :=
  match l with [] => true | x :: r => wf_bit x && wf_bits r end.

(* S-expression rendering of a bit tree, shared with the Rust driver *)
Fixpoint show_bit (b : bit) : string :=
  let fix show_bits (l : list bit) : string :=
    match l with [] => "" | x :: r => show_bit x +++ show_bits r end in
  match b with
  | BOp c => "o" +++ dec_of_N c +++ ","
  | BPush d => "p" +++ show_bytes d +++ ","
  | BPushData c d => "d" +++ dec_of_N c +++ ":" +++ show_bytes d +++ ","
  | BIf c p q => "i" +++ dec_of_N c +++ "(" +++ show_bits p +++ ")"
                 +++ match q with None => "" | Some q' => "e(" +++ show_bits q' +++ ")" end +++ ","
  | BCoinbase d => "c" +++ show_bytes d +++ ","
  end.
Fixpoint show_bits (l : list bit) : string :=
  match l with [] => "" | x :: r => show_bit x +++ show_bits r end.
