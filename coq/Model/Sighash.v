(* Model/Sighash.v — transcription of src/transaction/sighash.rs (preimage computation, without the
   hash cache: see Model/Cache.v for the memoised version) and Script::remove_codeseparators
   (src/script/mod.rs).  Definitions only.  The double SHA-256 is a parameter. *)
From BSV Require Import Base.Hex Model.Opcodes Model.Script Model.VarInt Model.Tx.

(* ------------------------------------------------------------------ *)
(* enum SigHash: a value of the enum is carried as its discriminant (one byte).  The numbers are
   re-checked against the table regenerated from the Rust source (Proofs/SighashProofs.v). *)
Definition SH_FORKID := 64%N.
Definition SH_ALL := 1%N.
Definition SH_NONE := 2%N.
Definition SH_SINGLE := 3%N.
Definition SH_ANYONECANPAY := 128%N.
Definition SH_InputsOutputs := 65%N.          (* ALL | FORKID *)
Definition SH_Inputs := 66%N.                 (* NONE | FORKID *)
Definition SH_InputsOutput := 67%N.           (* SINGLE | FORKID *)
Definition SH_InputOutputs := 193%N.          (* ALL | ANYONECANPAY | FORKID *)
Definition SH_Input := 194%N.                 (* NONE | ANYONECANPAY | FORKID *)
Definition SH_InputOutput := 195%N.           (* SINGLE | ANYONECANPAY | FORKID *)
Definition SH_Legacy_InputOutputs := 129%N.   (* ALL | ANYONECANPAY *)
Definition SH_Legacy_Input := 130%N.          (* NONE | ANYONECANPAY *)
Definition SH_Legacy_InputOutput := 131%N.    (* SINGLE | ANYONECANPAY *)

(* TryFrom<u8> for SigHash (FromPrimitive::from_u8): exactly the fourteen discriminants *)
Definition is_sighash (f : N) : bool := sighash_of_u8 f.

(* `match sighash { A | B | C => ... }` *)
Definition inN (f : N) (l : list N) : bool := existsb (N.eqb f) l.

(* ------------------------------------------------------------------ *)
(* Script::remove_codeseparators: at every level, drop the bits equal to OpCode(OP_CODESEPARATOR),
   recurse into both branches of every conditional, keep everything else. *)
Definition is_codesep (b : bit) : bool :=
  match b with BOp c => (c =? OP_CODESEPARATOR)%N | _ => false end.

Fixpoint strip_bit (b : bit) : bit :=
  let fix strip (l : list bit) : list bit :=
    match l with
    | [] => []
    | x :: r => if is_codesep x then strip r else strip_bit x :: strip r
    end in
  match b with
  | BIf c p q => BIf c (strip p) (match q with None => None | Some q' => Some (strip q') end)
  | o => o
  end.
Fixpoint remove_codeseparators (l : list bit) : list bit :=
  match l with
  | [] => []
  | x :: r => if is_codesep x then remove_codeseparators r else strip_bit x :: remove_codeseparators r
  end.

(* ------------------------------------------------------------------ *)
(* small helpers for the in-place edits of the legacy algorithm *)
Definition set_unlocking (i : txin) (s : list bit) : txin :=
  mk_txin (prev_tx_id i) (vout i) s (sequence i) (locking i) (satoshis i).
Definition set_sequence (i : txin) (sq : N) : txin :=
  mk_txin (prev_tx_id i) (vout i) (unlocking i) sq (locking i) (satoshis i).

(* `v[k] = x` for k < len (callers check the range) *)
Fixpoint set_nth {A} (k : nat) (x : A) (l : list A) : list A :=
  match l, k with
  | [], _ => []
  | _ :: r, O => x :: r
  | y :: r, S k' => y :: set_nth k' x r
  end.

(* `for i in 0..len { if i == idx { continue; } v[i] = f(v[i]) }` *)
Fixpoint map_except {A} (from idx : nat) (f : A -> A) (l : list A) : list A :=
  match l with
  | [] => []
  | x :: r => (if Nat.eqb from idx then x else f x) :: map_except (S from) idx f r
  end.

Definition zero32 : bytes := repeat x00 32.

Section WithHash.
  Variable sha256d : bytes -> bytes.          (* Hash::sha_256d(..).to_bytes() *)

  (* the three byte strings that get hashed *)
  Definition outpoints_bytes (t : tx) : bytes :=       (* flat_map get_outpoint_bytes(Some(true)) *)
    List.concat (map (fun i => txin_outpoint_bytes i true) (inputs t)).
  Definition sequences_bytes (t : tx) : bytes :=       (* flat_map get_sequence().to_le_bytes() *)
    List.concat (map (fun i => le_bytes 4 (sequence i)) (inputs t)).
  Definition outputs_bytes (t : tx) : bytes :=         (* every output's to_bytes_impl *)
    List.concat (map txout_bytes (outputs t)).

  (* fn hash_inputs: the arms that give 32 zero bytes, as written *)
  Definition hash_inputs_zero (f : N) : bool :=
    inN f [SH_ANYONECANPAY; SH_Input; SH_InputOutput; SH_Legacy_Input; SH_Legacy_InputOutput; SH_InputOutputs].
  Definition hash_inputs (t : tx) (f : N) : bytes :=
    if hash_inputs_zero f then zero32 else sha256d (outpoints_bytes t).

  (* fn hash_sequence: only ALL | InputsOutputs hash *)
  Definition hash_sequence_hashed (f : N) : bool := inN f [SH_ALL; SH_InputsOutputs].
  Definition hash_sequence (t : tx) (f : N) : bytes :=
    if hash_sequence_hashed f then sha256d (sequences_bytes t) else zero32.

  (* fn hash_outputs *)
  Definition hash_outputs_single (f : N) : bool :=
    inN f [SH_SINGLE; SH_InputOutput; SH_Legacy_InputOutput; SH_InputsOutput].
  Definition hash_outputs_all (f : N) : bool :=
    inN f [SH_ALL; SH_InputOutputs; SH_Legacy_InputOutputs; SH_InputsOutputs].
  Definition hash_outputs (t : tx) (f : N) (idx : nat) : outcome bytes :=
    if hash_outputs_single f then
      if Nat.ltb (length (outputs t)) idx then Err                 (* n_tx_in > get_noutputs() *)
      else match nth_error (outputs t) idx with
           | None => Err                                            (* get_output(n_tx_in) == None *)
           | Some o => Ok (sha256d (txout_bytes o))
           end
    else if hash_outputs_all f then Ok (sha256d (outputs_bytes t))
    else Ok zero32.

  (* fn sighash_bip143 *)
  Definition sighash_bip143 (t : tx) (idx : nat) (f : N) (sub : list bit) (value : N) : outcome bytes :=
    match nth_error (inputs t) idx with
    | None => Err
    | Some input =>
        do hashed_outputs <- hash_outputs t f idx;
        let sb := to_bytes sub in
        Ok (le_bytes 4 (version t)
            ++ hash_inputs t f
            ++ hash_sequence t f
            ++ txin_outpoint_bytes input true
            ++ write_varint (N.of_nat (length sb))
            ++ sb
            ++ le_bytes 8 value
            ++ le_bytes 4 (sequence input)
            ++ hashed_outputs
            ++ le_bytes 4 (locktime t)
            ++ le_bytes 4 f)                                        (* sighash.to_u32(), LE *)
    end.

  (* fn sighash_legacy.  `sighash.ge(&SigHash::ANYONECANPAY)` is the derived ordering of the enum; on the
     eight variants that reach this function the order of declaration and the order of the
     discriminants agree, and the test is `128 <= f`. *)
  Definition blank_out : txout := mk_txout u64max [].
  Definition sighash_legacy (t : tx) (idx : nat) (f : N) (sub : list bit) : outcome bytes :=
    let script := remove_codeseparators sub in
    let ins0 := map (fun i => set_unlocking i []) (inputs t) in
    match nth_error ins0 idx with
    | None => Err
    | Some prev =>
        let ins1 := set_nth idx (set_unlocking prev script) ins0 in
        do x <- (if inN f [SH_SINGLE; SH_Legacy_InputOutput] then
                   match nth_error (outputs t) idx with
                   | None => Err
                   | Some o => Ok (map_except 0 idx (fun i => set_sequence i 0) ins1, repeat blank_out idx ++ [o])
                   end
                 else if inN f [SH_NONE; SH_Legacy_Input] then
                   Ok (map_except 0 idx (fun i => set_sequence i 0) ins1, [])
                 else Ok (ins1, outputs t));
        let '(ins2, outs2) := x in
        do ins3 <- (if (SH_ANYONECANPAY <=? f)%N then
                      match nth_error ins2 idx with
                      | Some i => Ok [i]
                      | None => Panic                               (* tx.inputs[n_tx_in] *)
                      end
                    else Ok ins2);
        Ok (tx_bytes (mk_tx (version t) ins3 outs2 (locktime t)) ++ le_bytes 4 f)   (* to_i32(), LE *)
    end.

  (* fn sighash_preimage_impl *)
  Definition is_forkid_variant (f : N) : bool :=
    inN f [SH_Input; SH_InputOutput; SH_InputOutputs; SH_Inputs; SH_InputsOutput; SH_InputsOutputs].
  Definition sighash_preimage (t : tx) (idx : nat) (f : N) (sub : list bit) (value : N) : outcome bytes :=
    if is_forkid_variant f then sighash_bip143 t idx f sub value
    else sighash_legacy t idx f sub.

  (* fn sign_impl: the buffer handed to ECDSA (hash Sha256d) is the preimage; SighashSignature::to_bytes
     is DER || flag byte.  The signer and the DER encoder are parameters (properties C05 / C06). *)
  Section WithSigner.
    Variable sig : Type.
    Variable ecdsa_sign_sha256d : bytes -> bytes -> outcome sig.   (* private key, message *)
    Variable der_bytes : sig -> bytes.
    Definition tx_sign (t : tx) (key : bytes) (f : N) (idx : nat) (sub : list bit) (value : N)
      : outcome (bytes * bytes) :=                                  (* (to_bytes(), sighash_buffer) *)
      do buffer <- sighash_preimage t idx f sub value;
      do s <- ecdsa_sign_sha256d key buffer;
      Ok (der_bytes s ++ [n2b f], buffer).
  End WithSigner.
End WithHash.
