(* Model/Bip32.v — transcription of src/keypair/extended_private_key.rs and
   src/keypair/extended_public_key.rs (as repaired: from_string verifies the checksum and rejects
   trailing bytes, derive at depth 255 is an error), together with what they call in
   src/keypair/private_key.rs / public_key.rs.

   Data.  `PrivateKey { secret_key, is_pub_key_compressed }`: the SecretKey type invariant is
   1 <= k < n, so the model keeps the scalar [xs_key : Z] and the flag [xs_comp].
   `PublicKey { point: Vec<u8>, is_compressed }`: the extended-key code only ever calls
   `to_bytes_impl()` = the stored SEC1 bytes, so the model keeps those bytes ([xs_pub], [xp_pub]);
   every constructor of PublicKey validates them (from_bytes_impl) or produces them from a scalar.
   chain_code and parent_fingerprint are `Vec<u8>` of ANY length when the key is built with `new`;
   the model keeps them as byte strings without a length constraint.

   What the code does that the standard does not say (all visible in the definitions below):
     * IL = 0 is refused in both derivations (`SecretKey::from_be_bytes` rejects zero); BIP32 only
       excludes IL >= n and a zero/identity result.
     * a key built with `new` from a PrivateKey whose is_pub_key_compressed is false (or an
       uncompressed PublicKey) hashes the 65-byte encoding in the fingerprint and in the HMAC data
       of normal derivation.  Keys that come from a seed, a string or a derivation are always compressed.
     * derive_from_path: see [parse_path] at the end.

   Elliptic-curve operations come from an [ec_ops] record (Model/EcIface.v); hashes are the models of
   src/hash/mod.rs (Model/HashApi.v); Base58 is Prim/Base58.v (bs58 0.4.0).  No proofs in this file. *)
From BSV Require Import Base.Bytes Base.Hex.
From BSV Require Import Prim.Secp256k1 Prim.Base58 Model.HashApi Model.EcIface.
Local Open Scope Z_scope.

Definition HARDENED_KEY_OFFSET : N := 2147483648.        (* 0x80000000 *)
Definition XPRIV_VERSION_BYTE : N := 76066276.           (* 0x0488ade4 *)
Definition XPUB_VERSION_BYTE : N := 76067358.            (* 0x0488b21e *)

Record xprv : Type := MkXprv {
  xs_key : Z;          (* private_key.secret_key, 1 <= k < n *)
  xs_comp : bool;      (* private_key.is_pub_key_compressed *)
  xs_pub : bytes;      (* public_key.point *)
  xs_cc : bytes;       (* chain_code *)
  xs_depth : N;        (* u8 *)
  xs_index : N;        (* u32 *)
  xs_fp : bytes        (* parent_fingerprint *)
}.

Record xpub : Type := MkXpub {
  xp_pub : bytes;      (* public_key.point *)
  xp_cc : bytes;
  xp_depth : N;
  xp_index : N;
  xp_fp : bytes
}.

(* `seed_bytes.chunks_exact(32)`, `.next()` twice: Err when fewer than 32 / 64 bytes are there *)
Definition split_I (I : bytes) : outcome (bytes * bytes) :=
  if Nat.ltb (length I) 32 then Err
  else if Nat.ltb (length I) 64 then Err
  else Ok (firstn 32 I, firstn 32 (skipn 32 I)).

Definition ser_u32 (i : N) : bytes := be_bytes 4 i.       (* u32::to_be_bytes / write_u32::<BigEndian> *)

Section Bip32.
  Variable E : ec_ops.

  (* PublicKey::from_private_key_impl: priv_key.get_point() =
     secret_key.public_key().as_affine().to_encoded_point(is_pub_key_compressed) *)
  Definition pub_of_priv (k : Z) (comp : bool) : bytes := ec_enc E comp (ec_smul E k (ec_G E)).

  (* ExtendedPrivateKey::new (fingerprint None -> [0,0,0,0]) *)
  Definition xprv_new (k : Z) (comp : bool) (cc : bytes) (depth index : N) (fp : option bytes) : xprv :=
    MkXprv k comp (pub_of_priv k comp) cc depth index (match fp with Some f => f | None => zeros 4 end).

  (* ExtendedPublicKey::new; the PublicKey argument is given by its bytes *)
  Definition xpub_new (pk : bytes) (cc : bytes) (depth index : N) (fp : option bytes) : xpub :=
    MkXpub pk cc depth index (match fp with Some f => f | None => zeros 4 end).

  (* ExtendedPublicKey::from_xpriv *)
  Definition xpub_from_xprv (x : xprv) : xpub :=
    MkXpub (xs_pub x) (xs_cc x) (xs_depth x) (xs_index x) (xs_fp x).

  (* ---------------------------------------------------------------- from_seed_impl *)
  Definition xprv_from_seed (seed : bytes) : outcome xprv :=
    let I := sha_512_hmac seed (bytes_of_string "Bitcoin seed") in
    do (il, ir) <- split_I I;
    do k <- secret_of_bytes il;                       (* PrivateKey::from_bytes_impl *)
    Ok (MkXprv k true (pub_of_priv k true) ir 0 0 (zeros 4)).

  (* ExtendedPublicKey::from_seed_impl *)
  Definition xpub_from_seed (seed : bytes) : outcome xpub :=
    do x <- xprv_from_seed seed; Ok (xpub_from_xprv x).

  (* ---------------------------------------------------------------- derive_impl (private)
     `Hash::hash_160(..).to_bytes()[0..4]` cannot panic (20-byte digest).
     `SecretKey::from_be_bytes(&self.private_key.to_bytes())` re-reads the parent's own scalar (cannot fail).
     `parent_scalar.add(il_scalar)` is addition modulo n; `PrivateKey::from_bytes_impl(sum.to_bytes())`
     fails exactly when the sum is zero. *)
  Definition xprv_derive (x : xprv) (index : N) : outcome xprv :=
    let key_data :=
      if (HARDENED_KEY_OFFSET <=? index)%N
      then [x00] ++ be32 (xs_key x) ++ ser_u32 index
      else xs_pub x ++ ser_u32 index in
    let fingerprint := firstn 4 (hash_160 (xs_pub x)) in
    let I := sha_512_hmac key_data (xs_cc x) in
    do (il, ir) <- split_I I;
    do ilz <- secret_of_bytes il;
    let sum := (xs_key x + ilz) mod secp_n in
    if sum =? 0 then Err
    else if (xs_depth x =? 255)%N then Err               (* depth.checked_add(1) *)
    else Ok (MkXprv sum true (pub_of_priv sum true) ir (xs_depth x + 1)%N index fingerprint).

  (* ---------------------------------------------------------------- derive_impl (public)
     `K256PublicKey::from_sec1_bytes(&parent_pub_key_bytes)?`, `SecretKey::from_be_bytes(IL)?`,
     `parent + GENERATOR * il`, `K256PublicKey::from_affine(..)?` (identity -> Err),
     `PublicKey::from_bytes_impl(compressed encoding)` (k256 re-reading its own encoding). *)
  Definition xpub_derive (x : xpub) (index : N) : outcome xpub :=
    if (HARDENED_KEY_OFFSET <=? index)%N then Err
    else
      let key_data := xp_pub x ++ ser_u32 index in
      let fingerprint := firstn 4 (hash_160 (xp_pub x)) in
      let I := sha_512_hmac key_data (xp_cc x) in
      do (il, ir) <- split_I I;
      do P <- of_option (ec_dec E (xp_pub x));
      do ilz <- secret_of_bytes il;
      let C := ec_add E P (ec_smul E ilz (ec_G E)) in
      if ec_is_inf E C then Err
      else if (xp_depth x =? 255)%N then Err
      else Ok (MkXpub (ec_enc E true C) ir (xp_depth x + 1)%N index fingerprint).

  (* ---------------------------------------------------------------- to_string_impl *)
  Definition xprv_payload (x : xprv) : bytes :=
    ser_u32 XPRIV_VERSION_BYTE ++ [n2b (xs_depth x)] ++ xs_fp x ++ ser_u32 (xs_index x) ++ xs_cc x
    ++ [x00] ++ be32 (xs_key x).
  Definition xpub_payload (x : xpub) : bytes :=
    ser_u32 XPUB_VERSION_BYTE ++ [n2b (xp_depth x)] ++ xp_fp x ++ ser_u32 (xp_index x) ++ xp_cc x
    ++ xp_pub x.
  Definition with_checksum (p : bytes) : bytes := p ++ firstn 4 (sha_256d p).
  Definition xprv_to_string (x : xprv) : string := b58_encode (with_checksum (xprv_payload x)).
  Definition xpub_to_string (x : xpub) : string := b58_encode (with_checksum (xpub_payload x)).

  (* ---------------------------------------------------------------- from_string_impl (as repaired, 15973cd, 7aed395)
     A Cursor over the decoded bytes: read_u32 BE must equal the version constant; read_u8 (depth);
     read_exact(4); read_u32 BE; depth 0 with a non-zero index or fingerprint -> Err; read_exact(32); [private: read_u8 must be 0;] read_exact(32 | 33);
     key validation; read_exact(4); then `decoded.len() != position` -> Err; checksum over
     decoded[..position-4].  Every failure is an Err. *)
  Definition xkey_header (version : N) (bs : bytes) : outcome (N * bytes * N * bytes * bytes) :=
    do (v, c0) <- of_option (read_exact 4 bs);
    if negb (be_val v =? version)%N then Err else
    do (d, c1) <- of_option (read_exact 1 c0);
    do (fp, c2) <- of_option (read_exact 4 c1);
    do (ix, c3) <- of_option (read_exact 4 c2);
    (* 7aed395: a master key has no parent *)
    if (be_val d =? 0)%N && (negb (be_val ix =? 0)%N || negb (bytes_eqb fp (zeros 4))) then Err else
    do (cc, c4) <- of_option (read_exact 32 c3);
    Ok (be_val d, fp, be_val ix, cc, c4).

  Definition checksum_ok (bs : bytes) (ck : bytes) (total : nat) : bool :=
    Nat.eqb (length bs) total && bytes_eqb ck (firstn 4 (sha_256d (firstn (total - 4) bs))).

  Definition xprv_from_string (s : string) : outcome xprv :=
    do bs <- of_option (b58_decode s);
    do (depth, fp, index, cc, c4) <- xkey_header XPRIV_VERSION_BYTE bs;
    do (pad, c5) <- of_option (read_exact 1 c4);
    if negb (be_val pad =? 0)%N then Err else
    do (kb, c6) <- of_option (read_exact 32 c5);
    do k <- secret_of_bytes kb;
    do (ck, _) <- of_option (read_exact 4 c6);
    if checksum_ok bs ck 82 then Ok (MkXprv k true (pub_of_priv k true) cc depth index fp) else Err.

  Definition xpub_from_string (s : string) : outcome xpub :=
    do bs <- of_option (b58_decode s);
    do (depth, fp, index, cc, c4) <- xkey_header XPUB_VERSION_BYTE bs;
    do (kb, c5) <- of_option (read_exact 33 c4);
    do _ <- of_option (ec_dec E kb);                   (* PublicKey::from_bytes_impl *)
    do (ck, _) <- of_option (read_exact 4 c5);
    if checksum_ok bs ck 82 then Ok (MkXpub kb cc depth index fp) else Err.
End Bip32.

(* ------------------------------------------------------------------ *)
(* derive_from_path_impl / parse_str_to_idx (identical in both files).  Text is one [ascii] per
   UTF-8 byte; every function used is transcribed for ASCII, and any byte >= 0x80 inside a component
   makes u32::from_str fail exactly as a non-digit ASCII character does.

     if !path.to_ascii_lowercase().starts_with('m') -> Err
     path[1..].split('/').filter(non-empty).map(parse_str_to_idx).collect::<Result<Vec<u32>,_>>()?
     no component -> Err; derive_impl along the list.

   parse_str_to_idx(x):
     is_hardened = x.ends_with('\'') || x.to_lowercase().ends_with('h')
     index_str   = x.trim_end_matches('\'').trim_end_matches('h').trim_end_matches('H')
     index       = index_str.parse::<u32>()?          (optional leading '+', then 1.. decimal digits, < 2^32)
     index >= 2^31 -> Err;  hardened adds 2^31.                                                          *)
Definition ch_m : ascii := "m"%char.
Definition ch_M : ascii := "M"%char.
Definition ch_slash : ascii := "/"%char.
Definition ch_tick : ascii := "'"%char.
Definition ch_h : ascii := "h"%char.
Definition ch_H : ascii := "H"%char.
Definition ch_plus : ascii := "+"%char.

(* str::split(sep): n separators give n+1 pieces, the empty string gives one empty piece *)
Fixpoint split_l (sep : ascii) (l : list ascii) : list (list ascii) :=
  match l with
  | [] => [[]]
  | c :: r =>
      if Ascii.eqb c sep then [] :: split_l sep r
      else match split_l sep r with
           | h :: t => (c :: h) :: t
           | [] => [[c]]
           end
  end.

Fixpoint drop_while (p : ascii -> bool) (l : list ascii) : list ascii :=
  match l with
  | [] => []
  | c :: r => if p c then drop_while p r else l
  end.
Definition trim_end (c : ascii) (l : list ascii) : list ascii := rev (drop_while (Ascii.eqb c) (rev l)).
Definition ends_with (c : ascii) (l : list ascii) : bool :=
  match rev l with x :: _ => Ascii.eqb x c | [] => false end.

(* u32::from_str.  Checked multiplication/addition fail at the first partial value above u32::MAX;
   partial values only grow, so that is the same as comparing the complete value. *)
Fixpoint digits_val (l : list ascii) (acc : N) : option N :=
  match l with
  | [] => Some acc
  | c :: r => match digit_val c with Some d => digits_val r (10 * acc + d)%N | None => None end
  end.
Definition parse_u32 (l : list ascii) : option N :=
  let ds := match l with c :: r => if Ascii.eqb c ch_plus then r else l | [] => [] end in
  match ds with
  | [] => None
  | _ => match digits_val ds 0 with
         | Some v => if (v <? 4294967296)%N then Some v else None
         | None => None
         end
  end.

Definition parse_idx (x : list ascii) : outcome N :=
  let hardened := ends_with ch_tick x || ends_with ch_h x || ends_with ch_H x in
  let s := trim_end ch_H (trim_end ch_h (trim_end ch_tick x)) in
  match parse_u32 s with
  | None => Err
  | Some v =>
      if (HARDENED_KEY_OFFSET <=? v)%N then Err
      else Ok (if hardened then v + HARDENED_KEY_OFFSET else v)%N
  end.

Fixpoint map_outcome {A B} (f : A -> outcome B) (l : list A) : outcome (list B) :=
  match l with
  | [] => Ok []
  | a :: r => do b <- f a; do bs <- map_outcome f r; Ok (b :: bs)
  end.

Definition is_nil {A} (l : list A) : bool := match l with [] => true | _ => false end.

Definition parse_path (p : list ascii) : outcome (list N) :=
  match p with
  | c :: rest =>
      if Ascii.eqb c ch_m || Ascii.eqb c ch_M then
        let children := filter (fun x => negb (is_nil x)) (split_l ch_slash rest) in
        do idx <- map_outcome parse_idx children;
        match idx with [] => Err | _ => Ok idx end
      else Err
  | [] => Err
  end.

Fixpoint derive_all {X} (derive : X -> N -> outcome X) (x : X) (idx : list N) : outcome X :=
  match idx with
  | [] => Ok x
  | i :: r => do y <- derive x i; derive_all derive y r
  end.

Definition xprv_derive_path (E : ec_ops) (x : xprv) (path : list ascii) : outcome xprv :=
  do idx <- parse_path path; derive_all (xprv_derive E) x idx.
Definition xpub_derive_path (E : ec_ops) (x : xpub) (path : list ascii) : outcome xpub :=
  do idx <- parse_path path; derive_all (xpub_derive E) x idx.
