(* Model/Serde.v — C18: the serde data model as a tree, and what the derived Serialize / Deserialize
   implementations of Transaction, TxIn, TxOut, Script, ScriptBit (untagged) and OpCodes do at that level.
   Transcribed from: the serde attributes in src/transaction/{mod,txin,txout}.rs, src/script/{mod,script_bit,
   op_codes}.rs, src/utils/mod.rs; serde_derive 1.0.229 (de/struct_.rs, de/enum_untagged.rs, de.rs),
   serde 1.0.229 private/de.rs (Content, ContentRefDeserializer), serde_json 1.0.151 and ciborium 0.2.2
   (only as far as they decide WHICH tree a document denotes, which container forms a struct accepts, how null
   is buffered, and where their recursion guards sit).  The text / byte layers themselves (serde_json's parser
   and printer, ciborium's encoder and decoder) are external code: `json_of` / `cbor_of` below are printing
   functions that are compared with the real output on every run, nothing is proved about parsing text.
   Definitions only. *)
From BSV Require Import Base.Hex Model.Opcodes Model.Script Model.VarInt Model.Tx.

(* ------------------------------------------------------------------ *)
(* The tree.  CNull is JSON null / CBOR null; CNeg n is the integer -n (n >= 1); map keys are text. *)
Inductive content : Type :=
| CNull
| CBool (b : bool)
| CU64 (n : N)
| CNeg (n : N)
| CStr (s : string)
| CSeq (l : list content)
| CMap (m : list (string * content)).

Inductive fmt := Json | Cbor.

(* nesting depth of containers: what the decoders' recursion guards count *)
Fixpoint cdepth (c : content) : nat :=
  let fix dl (l : list content) : nat := match l with [] => 0 | x :: r => Nat.max (cdepth x) (dl r) end in
  let fix dm (m : list (string * content)) : nat := match m with [] => 0 | (_, v) :: r => Nat.max (cdepth v) (dm r) end in
  match c with
  | CSeq l => S (dl l)
  | CMap m => S (dm m)
  | _ => 0
  end.
Fixpoint cdepth_list (l : list content) : nat := match l with [] => 0 | x :: r => Nat.max (cdepth x) (cdepth_list r) end.
Fixpoint cdepth_map (m : list (string * content)) : nat :=
  match m with [] => 0 | (_, v) :: r => Nat.max (cdepth v) (cdepth_map r) end.

(* serde_json: remaining_depth starts at 128 and entering a container fails when it reaches 0 -> 127 levels.
   ciborium: recurse starts at 256 and entering a container fails when it is 0 -> 256 levels. *)
Definition limit (f : fmt) : nat := match f with Json => 127 | Cbor => 256 end.

(* ------------------------------------------------------------------ *)
(* Serialize *)

(* OpCodes: unit variants, serialised as the variant name *)
Definition opname (c : N) : string := match opcode_name c with Some s => s | None => "?" end.

(* #[serde(untagged)] ScriptBit: newtype variants serialise their field, the struct variant as a 3-field struct
   (`fail: None` is written as null — no skip attribute), the tuple variant as a 2-tuple *)
Fixpoint ser_bit (b : bit) : content :=
  let fix ser_bits (l : list bit) : list content :=
    match l with [] => [] | x :: r => ser_bit x :: ser_bits r end in
  match b with
  | BOp c => CStr (opname c)
  | BIf c p q => CMap [("code", CStr (opname c)); ("pass", CSeq (ser_bits p));
                       ("fail", match q with None => CNull | Some q' => CSeq (ser_bits q') end)]
  | BPush d => CStr (hex_of_bytes d)
  | BPushData c d => CSeq [CStr (opname c); CStr (hex_of_bytes d)]
  | BCoinbase d => CStr (hex_of_bytes d)
  end.
Fixpoint ser_bits (l : list bit) : list content :=
  match l with [] => [] | x :: r => ser_bit x :: ser_bits r end.
(* Script(Vec<ScriptBit>): newtype struct = its field *)
Definition ser_script (s : list bit) : content := CSeq (ser_bits s).

(* TxIn: prev_tx_id through to_reverse_hex; renames; the two Option fields are skipped when None *)
Definition ser_txin (i : txin) : content :=
  CMap ([("prev_tx_id", CStr (hex_of_bytes (rev (prev_tx_id i))));
         ("vout", CU64 (vout i));
         ("script_sig", ser_script (unlocking i));
         ("sequence", CU64 (sequence i))]
        ++ match locking i with Some s => [("unlocking_script", ser_script s)] | None => [] end
        ++ match satoshis i with Some v => [("satoshis", CU64 v)] | None => [] end).
Definition ser_txout (o : txout) : content :=
  CMap [("value", CU64 (value o)); ("script_pub_key", ser_script (script_pub_key o))].
(* Transaction: hash_cache is #[serde(skip)] *)
Definition ser_tx (t : tx) : content :=
  CMap [("version", CU64 (version t));
        ("inputs", CSeq (map ser_txin (inputs t)));
        ("outputs", CSeq (map ser_txout (outputs t)));
        ("n_locktime", CU64 (locktime t))].

(* ------------------------------------------------------------------ *)
(* Deserialize, part 1: ScriptBit from a buffered tree (serde's Content / ContentRefDeserializer).
   There is no depth guard at this level: the guard applies while the tree is being buffered. *)

Notation "'opt!' x <- e ; f" := (match e with Some x => f | None => None end)
  (at level 200, x pattern, e at level 100, f at level 200, right associativity).

Section Bits.
  Variable f : fmt.

  (* OpCodes::deserialize on ContentRefDeserializer::deserialize_enum: a string is the variant name; a map with
     exactly one entry is {name: value} and a unit variant then demands value = unit.  JSON null is buffered as
     Content::Unit (accepted), CBOR null as Content::None (refused by deserialize_unit). *)
  Definition de_opcode (c : content) : option N :=
    match c with
    | CStr s => opcode_of_name s
    | CMap [(k, v)] =>
        match opcode_of_name k, v, f with
        | Some o, CNull, Json => Some o
        | _, _, _ => None
        end
    | _ => None
    end.

  (* from_hex on a buffered tree: String::deserialize accepts a string only; hex::decode *)
  Definition de_hex (c : content) : option bytes :=
    match c with CStr s => bytes_of_hex s | _ => None end.

  (* The untagged enum: variants are tried in declaration order on the same buffered tree,
       1 OpCode(OpCodes)   2 If{code,pass,fail}   3 Push(hex)   4 PushData(OpCodes, hex)   5 Coinbase(hex)
     the first that succeeds wins.  The struct variant is visited with deserialize_any, and serde_derive gives
     an untagged struct variant no visit_seq: only a map is accepted, read by field name (a repeated field is an
     error, unknown fields are ignored, a missing Option field is None, any other missing field an error).
     The tuple variant needs a sequence of exactly 2 elements.  `fail`: unit/none -> None, anything else must be a sequence. *)
  Fixpoint de_bit (c : content) : option bit :=
    let fix de_bits (l : list content) : option (list bit) :=
      match l with
      | [] => Some []
      | x :: r => opt! b <- de_bit x; opt! bs <- de_bits r; Some (b :: bs)
      end in
    let fix if_map (m : list (string * content))
                   (code : option N) (pass : option (list bit)) (fail : option (option (list bit))) : option bit :=
      match m with
      | [] =>
          opt! c' <- code; opt! p <- pass;
          Some (BIf c' p (match fail with Some q => q | None => None end))
      | (k, v) :: r =>
          if String.eqb k "code" then
            match code with
            | Some _ => None
            | None => opt! o <- de_opcode v; if_map r (Some o) pass fail
            end
          else if String.eqb k "pass" then
            match pass with
            | Some _ => None
            | None => match v with
                      | CSeq l => opt! p <- de_bits l; if_map r code (Some p) fail
                      | _ => None
                      end
            end
          else if String.eqb k "fail" then
            match fail with
            | Some _ => None
            | None => match v with
                      | CNull => if_map r code pass (Some None)
                      | CSeq l => opt! q <- de_bits l; if_map r code pass (Some (Some q))
                      | _ => None
                      end
            end
          else if_map r code pass fail
      end in
    match de_opcode c with
    | Some o => Some (BOp o)
    | None =>
      match (match c with
             | CMap m => if_map m None None None
             | _ => None
             end) with
      | Some b => Some b
      | None =>
        match c with
        | CStr s =>
            match bytes_of_hex s with
            | Some d => Some (BPush d)
            | None => None              (* PushData refuses a string; Coinbase runs the same from_hex again *)
            end
        | CSeq [a; CStr s] => opt! o <- de_opcode a; opt! d <- bytes_of_hex s; Some (BPushData o d)
        | _ => None
        end
      end
    end.

  Fixpoint de_bits (l : list content) : option (list bit) :=
    match l with
    | [] => Some []
    | x :: r => opt! b <- de_bit x; opt! bs <- de_bits r; Some (b :: bs)
    end.

  Fixpoint if_map (m : list (string * content))
                  (code : option N) (pass : option (list bit)) (fail : option (option (list bit))) : option bit :=
    match m with
    | [] =>
        opt! c' <- code; opt! p <- pass;
        Some (BIf c' p (match fail with Some q => q | None => None end))
    | (k, v) :: r =>
        if String.eqb k "code" then
          match code with
          | Some _ => None
          | None => opt! o <- de_opcode v; if_map r (Some o) pass fail
          end
        else if String.eqb k "pass" then
          match pass with
          | Some _ => None
          | None => match v with
                    | CSeq l => opt! p <- de_bits l; if_map r code (Some p) fail
                    | _ => None
                    end
          end
        else if String.eqb k "fail" then
          match fail with
          | Some _ => None
          | None => match v with
                    | CNull => if_map r code pass (Some None)
                    | CSeq l => opt! q <- de_bits l; if_map r code pass (Some (Some q))
                    | _ => None
                    end
          end
        else if_map r code pass fail
    end.

  (* the five variant attempts, named, in declaration order *)
  Definition try_opcode (c : content) : option bit := opt! o <- de_opcode c; Some (BOp o).
  Definition try_if (c : content) : option bit :=
    match c with
    | CMap m => if_map m None None None
    | _ => None
    end.
  Definition try_push (c : content) : option bit := opt! d <- de_hex c; Some (BPush d).
  Definition try_pushdata (c : content) : option bit :=
    match c with
    | CSeq [a; h] => opt! o <- de_opcode a; opt! d <- de_hex h; Some (BPushData o d)
    | _ => None
    end.
  Definition try_coinbase (c : content) : option bit := opt! d <- de_hex c; Some (BCoinbase d).

  Fixpoint first_some {A} (l : list (option A)) : option A :=
    match l with [] => None | Some a :: _ => Some a | None :: r => first_some r end.
  Definition variants (c : content) : list (option bit) :=
    [try_opcode c; try_if c; try_push c; try_pushdata c; try_coinbase c].

  (* ---------------------------------------------------------------- *)
  (* Deserialize, part 2: the structs, read directly from the format's deserializer.  `rem` is the number of
     container levels the recursion guard still allows.  All errors collapse to None. *)

  Definition de_u (bound : N) (c : content) : option N :=
    match c with CU64 n => if (n <=? bound)%N then Some n else None | _ => None end.
  Definition de_u32 := de_u 4294967295%N.
  Definition de_u64 := de_u u64max.

  (* from_reverse_hex *)
  Definition de_revhex (c : content) : option bytes :=
    match c with CStr s => opt! b <- bytes_of_hex s; Some (rev b) | _ => None end.

  (* Script = newtype over Vec<ScriptBit>: a sequence; every element is first buffered (that is where the
     depth guard acts), then resolved *)
  Definition de_script (rem : nat) (c : content) : option (list bit) :=
    match c, rem with
    | CSeq l, S r => if Nat.leb (cdepth_list l) r then de_bits l else None
    | _, _ => None
    end.

  (* Option<T>: null -> None, anything else -> Some(T) *)
  Definition de_opt {A} (d : content -> option A) (c : content) : option (option A) :=
    match c with CNull => Some None | _ => opt! a <- d c; Some (Some a) end.

  Fixpoint field_get (k : string) (m : list (string * content)) : option content :=
    match m with [] => None | (k', v) :: r => if String.eqb k' k then Some v else field_get k r end.
  Fixpoint count_key (k : string) (m : list (string * content)) : nat :=
    match m with [] => 0 | (k', _) :: r => (if String.eqb k' k then 1 else 0) + count_key k r end.

  (* derive(Deserialize) visit_map: a known field twice is an error; an unknown field's value is skipped
     (serde_json: ignore_value, no depth guard; ciborium: deserialize_any into IgnoredAny, guarded); ciborium
     reads a struct field name with deserialize_identifier, which refuses text longer than its 4096-byte
     scratch buffer. *)
  Definition fields_ok (rem : nat) (known : list string) (m : list (string * content)) : bool :=
    forallb (fun k => Nat.leb (count_key k m) 1) known
    && forallb (fun kv => if existsb (String.eqb (fst kv)) known then true
                          else match f with Json => true | Cbor => Nat.leb (cdepth (snd kv)) rem end) m
    && match f with Json => true | Cbor => forallb (fun kv => Nat.leb (slength (fst kv)) 4096) m end.
  (* a missing field: error, except that an Option field is None (serde's missing_field) *)
  Definition req {A} (d : content -> option A) (k : string) (m : list (string * content)) : option A :=
    opt! v <- field_get k m; d v.
  Definition opt_field {A} (d : content -> option A) (k : string) (m : list (string * content)) : option (option A) :=
    match field_get k m with Some v => de_opt d v | None => Some None end.

  Fixpoint de_list {A} (d : content -> option A) (l : list content) : option (list A) :=
    match l with [] => Some [] | x :: r => opt! a <- d x; opt! r' <- de_list d r; Some (a :: r') end.
  Definition de_vec {A} (d : nat -> content -> option A) (rem : nat) (c : content) : option (list A) :=
    match c, rem with CSeq l, S r => de_list (d r) l | _, _ => None end.

  Definition txin_fields := ["prev_tx_id"; "vout"; "script_sig"; "sequence"; "unlocking_script"; "satoshis"].
  Definition txout_fields := ["value"; "script_pub_key"].
  Definition tx_fields := ["version"; "inputs"; "outputs"; "n_locktime"].

  (* deserialize_struct: serde_json accepts an object or (positionally, exact length) an array;
     ciborium accepts a map only *)
  Definition de_txin (rem : nat) (c : content) : option txin :=
    match c, rem with
    | CMap m, S r =>
        if fields_ok r txin_fields m then
          opt! id <- req de_revhex "prev_tx_id" m;
          opt! vo <- req de_u32 "vout" m;
          opt! us <- req (de_script r) "script_sig" m;
          opt! sq <- req de_u32 "sequence" m;
          opt! ls <- opt_field (de_script r) "unlocking_script" m;
          opt! sa <- opt_field de_u64 "satoshis" m;
          Some (mk_txin id vo us sq ls sa)
        else None
    | CSeq [a; b; c1; d; e; g], S r =>
        match f with
        | Json =>
            opt! id <- de_revhex a; opt! vo <- de_u32 b; opt! us <- de_script r c1; opt! sq <- de_u32 d;
            opt! ls <- de_opt (de_script r) e; opt! sa <- de_opt de_u64 g;
            Some (mk_txin id vo us sq ls sa)
        | Cbor => None
        end
    | _, _ => None
    end.

  Definition de_txout (rem : nat) (c : content) : option txout :=
    match c, rem with
    | CMap m, S r =>
        if fields_ok r txout_fields m then
          opt! v <- req de_u64 "value" m;
          opt! s <- req (de_script r) "script_pub_key" m;
          Some (mk_txout v s)
        else None
    | CSeq [a; b], S r =>
        match f with
        | Json => opt! v <- de_u64 a; opt! s <- de_script r b; Some (mk_txout v s)
        | Cbor => None
        end
    | _, _ => None
    end.

  Definition de_tx_at (rem : nat) (c : content) : option tx :=
    match c, rem with
    | CMap m, S r =>
        if fields_ok r tx_fields m then
          opt! ver <- req de_u32 "version" m;
          opt! ins <- req (de_vec de_txin r) "inputs" m;
          opt! outs <- req (de_vec de_txout r) "outputs" m;
          opt! lt <- req de_u32 "n_locktime" m;
          Some (mk_tx ver ins outs lt)
        else None
    | CSeq [a; b; c1; d], S r =>
        match f with
        | Json =>
            opt! ver <- de_u32 a; opt! ins <- de_vec de_txin r b; opt! outs <- de_vec de_txout r c1;
            opt! lt <- de_u32 d; Some (mk_tx ver ins outs lt)
        | Cbor => None
        end
    | _, _ => None
    end.
End Bits.

(* Transaction::from_json_string / from_compact_bytes, TxIn::from_compact_bytes — given the tree the document
   denotes *)
Definition de_tx (f : fmt) (c : content) : outcome tx := of_option (de_tx_at f (limit f) c).
Definition de_txin_top (f : fmt) (c : content) : outcome txin := of_option (de_txin f (limit f) c).

(* ------------------------------------------------------------------ *)
(* what the types guarantee: every OpCodes value is a member of the enum; u32 / u64 ranges *)
Fixpoint enum_bit (b : bit) : bool :=
  let fix enum_bits (l : list bit) : bool :=
    match l with [] => true | x :: r => enum_bit x && enum_bits r end in
  match b with
  | BOp c => is_opcode c
  | BPush _ => true
  | BPushData c _ => is_opcode c
  | BIf c p q => is_opcode c && enum_bits p && match q with None => true | Some q' => enum_bits q' end
  | BCoinbase _ => true
  end.
Fixpoint enum_bits (l : list bit) : bool := match l with [] => true | x :: r => enum_bit x && enum_bits r end.

Definition wf_txin (i : txin) : bool :=
  u32_ok (vout i) && u32_ok (sequence i) && enum_bits (unlocking i)
  && match locking i with Some s => enum_bits s | None => true end
  && match satoshis i with Some v => u64_ok v | None => true end.
Definition wf_txout (o : txout) : bool := u64_ok (value o) && enum_bits (script_pub_key o).
Definition wf_fields (t : tx) : bool :=
  u32_ok (version t) && u32_ok (locktime t) && forallb wf_txin (inputs t) && forallb wf_txout (outputs t).

(* the known-finding class `coinbase-script-bit`: some script of the transaction contains a Coinbase bit *)
Fixpoint has_cb (b : bit) : bool :=
  let fix has_cbs (l : list bit) : bool :=
    match l with [] => false | x :: r => has_cb x || has_cbs r end in
  match b with
  | BCoinbase _ => true
  | BIf _ p q => has_cbs p || match q with None => false | Some q' => has_cbs q' end
  | _ => false
  end.
Fixpoint has_cbs (l : list bit) : bool := match l with [] => false | x :: r => has_cb x || has_cbs r end.
Definition txin_has_cb (i : txin) : bool :=
  has_cbs (unlocking i) || match locking i with Some s => has_cbs s | None => false end.
Definition tx_has_cb (t : tx) : bool :=
  existsb txin_has_cb (inputs t) || existsb (fun o => has_cbs (script_pub_key o)) (outputs t).

(* what a Coinbase bit comes back as *)
Fixpoint uncb (b : bit) : bit :=
  let fix uncbs (l : list bit) : list bit := match l with [] => [] | x :: r => uncb x :: uncbs r end in
  match b with
  | BCoinbase d => BPush d
  | BIf c p q => BIf c (uncbs p) (match q with None => None | Some q' => Some (uncbs q') end)
  | o => o
  end.
Fixpoint uncbs (l : list bit) : list bit := match l with [] => [] | x :: r => uncb x :: uncbs r end.
Definition uncb_txin (i : txin) : txin :=
  mk_txin (prev_tx_id i) (vout i) (uncbs (unlocking i)) (sequence i)
          (match locking i with Some s => Some (uncbs s) | None => None end) (satoshis i).
Definition uncb_txout (o : txout) : txout := mk_txout (value o) (uncbs (script_pub_key o)).
Definition uncb_tx (t : tx) : tx :=
  mk_tx (version t) (map uncb_txin (inputs t)) (map uncb_txout (outputs t)) (locktime t).

(* the known-finding class `nesting-exceeds-decoder-limit` *)
Definition exceeds_limit (f : fmt) (c : content) : bool := negb (Nat.leb (cdepth c) (limit f)).

(* depth of conditional nesting of a script, the quantity a user sees *)
Fixpoint if_depth (b : bit) : nat :=
  let fix if_depths (l : list bit) : nat := match l with [] => 0 | x :: r => Nat.max (if_depth x) (if_depths r) end in
  match b with
  | BIf _ p q => S (Nat.max (if_depths p) (match q with None => 0 | Some q' => if_depths q' end))
  | _ => 0
  end.
Fixpoint if_depths (l : list bit) : nat := match l with [] => 0 | x :: r => Nat.max (if_depth x) (if_depths r) end.
Definition txin_if_depth (i : txin) : nat :=
  Nat.max (if_depths (unlocking i)) (match locking i with Some s => if_depths s | None => 0 end).
Definition tx_if_depth (t : tx) : nat :=
  Nat.max (fold_right (fun i a => Nat.max (txin_if_depth i) a) 0 (inputs t))
          (fold_right (fun o a => Nat.max (if_depths (script_pub_key o)) a) 0 (outputs t)).

(* ------------------------------------------------------------------ *)
(* decidable equality of values (PartialEq) for the executable check *)
Fixpoint bit_eqb (a b : bit) : bool :=
  let fix bits_eqb (x y : list bit) : bool :=
    match x, y with
    | [], [] => true
    | a' :: x', b' :: y' => bit_eqb a' b' && bits_eqb x' y'
    | _, _ => false
    end in
  match a, b with
  | BOp c, BOp c' => (c =? c')%N
  | BPush d, BPush d' => bytes_eqb d d'
  | BPushData c d, BPushData c' d' => (c =? c')%N && bytes_eqb d d'
  | BIf c p q, BIf c' p' q' =>
      (c =? c')%N && bits_eqb p p'
      && match q, q' with None, None => true | Some x, Some y => bits_eqb x y | _, _ => false end
  | BCoinbase d, BCoinbase d' => bytes_eqb d d'
  | _, _ => false
  end.
Fixpoint bits_eqb (x y : list bit) : bool :=
  match x, y with
  | [], [] => true
  | a :: x', b :: y' => bit_eqb a b && bits_eqb x' y'
  | _, _ => false
  end.
Definition opt_eqb {A} (e : A -> A -> bool) (a b : option A) : bool :=
  match a, b with None, None => true | Some x, Some y => e x y | _, _ => false end.
Fixpoint list_eqb {A} (e : A -> A -> bool) (a b : list A) : bool :=
  match a, b with [] , [] => true | x :: a', y :: b' => e x y && list_eqb e a' b' | _, _ => false end.
Definition txin_eqb (a b : txin) : bool :=
  bytes_eqb (prev_tx_id a) (prev_tx_id b) && (vout a =? vout b)%N && bits_eqb (unlocking a) (unlocking b)
  && (sequence a =? sequence b)%N && opt_eqb bits_eqb (locking a) (locking b) && opt_eqb N.eqb (satoshis a) (satoshis b).
Definition txout_eqb (a b : txout) : bool :=
  (value a =? value b)%N && bits_eqb (script_pub_key a) (script_pub_key b).
Definition tx_eqb (a b : tx) : bool :=
  (version a =? version b)%N && list_eqb txin_eqb (inputs a) (inputs b)
  && list_eqb txout_eqb (outputs a) (outputs b) && (locktime a =? locktime b)%N.

(* ------------------------------------------------------------------ *)
(* Printing functions modelling the external encoders (compared with the real output on every run).
   Strings produced by the serialisers above consist of [0-9a-zA-Z_] only, so no JSON escaping is modelled. *)
Definition quote (s : string) : string := String """" (s +++ String """" EmptyString).

(* serde_json::to_string: compact, fields in serialisation order *)
Fixpoint json_of (c : content) : string :=
  let fix jl (l : list content) : string :=
    match l with [] => "" | [x] => json_of x | x :: r => json_of x +++ "," +++ jl r end in
  let fix jm (m : list (string * content)) : string :=
    match m with
    | [] => ""
    | [(k, v)] => quote k +++ ":" +++ json_of v
    | (k, v) :: r => quote k +++ ":" +++ json_of v +++ "," +++ jm r
    end in
  match c with
  | CNull => "null"
  | CBool true => "true"
  | CBool false => "false"
  | CU64 n => dec_of_N n
  | CNeg n => String "-" (dec_of_N n)
  | CStr s => quote s
  | CSeq l => "[" +++ jl l +++ "]"
  | CMap m => "{" +++ jm m +++ "}"
  end.

(* serde_json::to_string_pretty (TxIn::to_json_string, TxOut::to_json_string): two-space indentation,
   ": " after keys, empty containers as [] and {} *)
Fixpoint indent (n : nat) : string := match n with O => "" | S k => "  " +++ indent k end.
Definition nl : string := String (ascii_of_N 10) EmptyString.
Fixpoint json_pretty (ind : nat) (c : content) : string :=
  let fix jl (l : list content) : string :=
    match l with
    | [] => ""
    | [x] => indent (S ind) +++ json_pretty (S ind) x +++ nl
    | x :: r => indent (S ind) +++ json_pretty (S ind) x +++ "," +++ nl +++ jl r
    end in
  let fix jm (m : list (string * content)) : string :=
    match m with
    | [] => ""
    | [(k, v)] => indent (S ind) +++ quote k +++ ": " +++ json_pretty (S ind) v +++ nl
    | (k, v) :: r => indent (S ind) +++ quote k +++ ": " +++ json_pretty (S ind) v +++ "," +++ nl +++ jm r
    end in
  match c with
  | CSeq [] => "[]"
  | CMap [] => "{}"
  | CSeq l => "[" +++ nl +++ jl l +++ indent ind +++ "]"
  | CMap m => "{" +++ nl +++ jm m +++ indent ind +++ "}"
  | o => json_of o
  end.

(* serde_json::to_value(..).to_string(): objects are BTreeMaps, i.e. keys in byte-wise order *)
Fixpoint str_leb (a b : string) : bool :=
  match a, b with
  | EmptyString, _ => true
  | String _ _, EmptyString => false
  | String x a', String y b' =>
      if (N_of_ascii x <? N_of_ascii y)%N then true
      else if (N_of_ascii x =? N_of_ascii y)%N then str_leb a' b' else false
  end.
Fixpoint insert_kv {A} (kv : string * A) (m : list (string * A)) : list (string * A) :=
  match m with
  | [] => [kv]
  | kv' :: r => if str_leb (fst kv) (fst kv') then kv :: m else kv' :: insert_kv kv r
  end.
Fixpoint sort_kv {A} (m : list (string * A)) : list (string * A) :=
  match m with [] => [] | kv :: r => insert_kv kv (sort_kv r) end.
Fixpoint canon (c : content) : content :=
  let fix cl (l : list content) : list content := match l with [] => [] | x :: r => canon x :: cl r end in
  let fix cm (m : list (string * content)) : list (string * content) :=
    match m with [] => [] | (k, v) :: r => (k, canon v) :: cm r end in
  match c with
  | CSeq l => CSeq (cl l)
  | CMap m => CMap (sort_kv (cm m))
  | o => o
  end.
Definition json_value_of (c : content) : string := json_of (canon c).

(* ciborium::ser::into_writer: definite lengths, shortest heads, structs as maps with text keys *)
Definition cbor_head (major : N) (n : N) : bytes :=
  let m := (major * 32)%N in
  if (n <? 24)%N then [n2b (m + n)]
  else if (n <? 256)%N then [n2b (m + 24); n2b n]
  else if (n <? 65536)%N then n2b (m + 25) :: be_bytes 2 n
  else if (n <? 4294967296)%N then n2b (m + 26) :: be_bytes 4 n
  else n2b (m + 27) :: be_bytes 8 n.
Definition cbor_text (s : string) : bytes :=
  cbor_head 3 (N.of_nat (slength s)) ++ bytes_of_string s.
Fixpoint cbor_of (c : content) : bytes :=
  let fix cl (l : list content) : bytes := match l with [] => [] | x :: r => cbor_of x ++ cl r end in
  let fix cm (m : list (string * content)) : bytes :=
    match m with [] => [] | (k, v) :: r => cbor_text k ++ cbor_of v ++ cm r end in
  match c with
  | CNull => [xf6]
  | CBool false => [xf4]
  | CBool true => [xf5]
  | CU64 n => cbor_head 0 n
  | CNeg n => cbor_head 1 (n - 1)
  | CStr s => cbor_text s
  | CSeq l => cbor_head 4 (N.of_nat (length l)) ++ cl l
  | CMap m => cbor_head 5 (N.of_nat (length m)) ++ cm m
  end.
