(* Model/VarInt.v — transcription of src/traits/varint.rs. Definitions only. *)
From BSV Require Import Base.Hex.

(* VarIntWriter::write_varint (u64 argument) *)
Definition write_varint (n : N) : bytes :=
  if (n <=? 252)%N then [n2b n]
  else if (n <=? 65535)%N then n2b 253 :: le_bytes 2 n
  else if (n <=? 4294967295)%N then n2b 254 :: le_bytes 4 n
  else n2b 255 :: le_bytes 8 n.

(* VarIntReader::read_varint on a cursor: first byte selects the width; read_uN needs N bytes. *)
Definition read_varint (bs : bytes) : outcome (N * bytes) :=
  match bs with
  | [] => Err
  | b :: r =>
      let c := b2n b in
      if (c =? 255)%N then of_option (read_le 8 r)
      else if (c =? 254)%N then of_option (read_le 4 r)
      else if (c =? 253)%N then of_option (read_le 2 r)
      else Ok (c, r)
  end.

(* VarInt::get_varint_bytes (helper; after the fix it agrees with write_varint) *)
Definition get_varint_bytes (n : N) : bytes :=
  if (n <=? 252)%N then [n2b n]
  else if (n <=? 65535)%N then n2b 253 :: le_bytes 2 n
  else if (n <=? 4294967295)%N then n2b 254 :: le_bytes 4 n
  else n2b 255 :: le_bytes 8 n.

(* VarInt::get_varint_size: size of the payload class, exactly as written *)
Definition get_varint_size (n : N) : N :=
  if (n <=? 252)%N then 1 else if (n <=? 65535)%N then 2 else if (n <=? 4294967295)%N then 4 else 8.
