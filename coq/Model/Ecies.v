(* Model/Ecies.v — transcription of src/ecies/mod.rs and src/ecies/ecies_ciphertext.rs (as repaired:
   from_bytes returns Err on short buffers (ab035a5) and on a buffer that does not start with "BIE1"
   (6907284)), with the convenience methods of src/keypair/{private,public}_key.rs.

   Data.  A private key is its scalar (SecretKey invariant 1 <= d < n); `is_pub_key_compressed` only
   selects the encoding of the key's own public key.  A PublicKey is its validated SEC1 bytes.
   `ECIESCiphertext { public_key_bytes, ciphertext_bytes, hmac_bytes, keys }`: [keys] is only a memo of
   the cipher keys for the accessor and is left out of the record (derive_cipher_keys gives it).

   The functions are written over a record [ecies_ops] of the operations the code calls (curve, SHA-512,
   HMAC-SHA256, AES-128-CBC), so that the theorems hold for every implementation of them that satisfies
   the stated laws; [ecies_std E] is the instance that uses the models of src/hash and src/encryption
   (Model/HashApi.v, Model/AesApi.v) and is the one the correspondence run executes with E = ec_fast.

   What the code does (visible below):
     * decrypt_impl does not use the embedded public key for ECDH; the caller passes the sender key.
       The embedded bytes are only MACed (and validated as a point by from_bytes).
     * order in decrypt_impl: derive keys (invalid point / identity -> Err), MAC comparison (-> Err),
       AES-CBC decryption (bad padding / length -> Err).  from_bytes: length, magic, embedded key, split.
   No proofs in this file. *)
From BSV Require Import Base.Bytes Base.Hex.
From BSV Require Import Prim.Secp256k1 Model.EcIface Model.HashApi Model.AesApi.
Local Open Scope Z_scope.

Record ecies_ops : Type := MkEcies {
  eo_ec : ec_ops;
  eo_sha512 : bytes -> bytes;                          (* Hash::sha_512 *)
  eo_hmac256 : bytes -> bytes -> bytes;                (* Hash::sha_256_hmac(input, key) *)
  eo_cbc_enc : bytes -> bytes -> bytes -> outcome bytes;   (* AES::encrypt_impl(key, iv, msg, AES128_CBC) *)
  eo_cbc_dec : bytes -> bytes -> bytes -> outcome bytes    (* AES::decrypt_impl(key, iv, ct, AES128_CBC) *)
}.

Definition ecies_std (E : ec_ops) : ecies_ops :=
  MkEcies E sha_512 sha_256_hmac (AesApi.encrypt AES128_CBC) (AesApi.decrypt AES128_CBC).

Record cipher_keys : Type := MkKeys { ck_iv : bytes; ck_ke : bytes; ck_km : bytes }.

Record ciphertext : Type := MkCt {
  ct_pub : option bytes;      (* public_key_bytes *)
  ct_body : bytes;            (* ciphertext_bytes *)
  ct_mac : bytes              (* hmac_bytes *)
}.

Definition magic : bytes := ["B"; "I"; "E"; "1"]%byte.
Definition opt_bytes (o : option bytes) : bytes := match o with Some b => b | None => [] end.

(* `hash[a..b]` on a Vec: panics when the vector is shorter than b *)
Definition slice (a b : nat) (h : bytes) : outcome bytes :=
  if Nat.ltb (length h) b then Panic else Ok (firstn (b - a) (skipn a h)).

Section Ecies.
  Variable O : ecies_ops.
  Local Notation E := (eo_ec O).

  (* PublicKey::from_bytes_impl: EncodedPoint::from_bytes + k256::PublicKey::from_sec1_bytes; keeps the bytes *)
  Definition pubkey_of_bytes (bs : bytes) : outcome bytes :=
    match ec_dec E bs with Some _ => Ok bs | None => Err end.

  (* PrivateKey::to_public_key_impl: the key's public key in the encoding selected by the flag *)
  Definition to_public_key (d : Z) (comp : bool) : bytes := ec_enc E comp (ec_smul E d (ec_G E)).

  (* ---------------------------------------------------------------- derive_cipher_keys_impl
     K256PublicKey::from_sec1_bytes(pub)? ; shared = point * scalar ; from_affine(shared)? (identity -> Err);
     sha512 of the compressed encoding; iv = h[0..16], ke = h[16..32], km = h[32..64] *)
  Definition derive_cipher_keys (d : Z) (pk : bytes) : outcome cipher_keys :=
    do P <- of_option (ec_dec E pk);
    let S := ec_smul E d P in
    if ec_is_inf E S then Err
    else
      let h := eo_sha512 O (ec_enc E true S) in
      do iv <- slice 0 16 h;
      do ke <- slice 16 32 h;
      do km <- slice 32 64 h;
      Ok (MkKeys iv ke km).

  Definition mac_preimage (pub : option bytes) (body : bytes) : bytes := magic ++ opt_bytes pub ++ body.

  (* ---------------------------------------------------------------- encrypt_impl
     r_buf = private_key.to_public_key_impl()?.to_compressed_impl()?.to_bytes_impl()? : the compressed
     encoding of d*G whatever the flag (decompress-then-compress of a valid point cannot fail) *)
  Definition encrypt_with (k : cipher_keys) (message : bytes) (d : Z) (exclude_pub_key : bool) : outcome ciphertext :=
    do ct <- eo_cbc_enc O (ck_ke k) (ck_iv k) message;
    let r_buf := if exclude_pub_key then None else Some (to_public_key d true) in
    let buffer := mac_preimage r_buf ct in
    Ok (MkCt r_buf ct (eo_hmac256 O buffer (ck_km k))).

  Definition encrypt (message : bytes) (d : Z) (recipient_pub : bytes) (exclude_pub_key : bool) : outcome ciphertext :=
    do k <- derive_cipher_keys d recipient_pub;
    encrypt_with k message d exclude_pub_key.

  (* ---------------------------------------------------------------- decrypt_impl *)
  Definition decrypt_with (k : cipher_keys) (c : ciphertext) : outcome bytes :=
    let preimage := mac_preimage (ct_pub c) (ct_body c) in
    if negb (bytes_eqb (ct_mac c) (eo_hmac256 O preimage (ck_km k))) then Err
    else eo_cbc_dec O (ck_ke k) (ck_iv k) (ct_body c).

  Definition decrypt (c : ciphertext) (d : Z) (sender_pub : bytes) : outcome bytes :=
    do k <- derive_cipher_keys d sender_pub;
    decrypt_with k c.

  (* ---------------------------------------------------------------- ECIESCiphertext *)
  Definition to_bytes (c : ciphertext) : bytes := magic ++ opt_bytes (ct_pub c) ++ ct_body c ++ ct_mac c.

  Definition from_bytes (buffer : bytes) (has_pub_key : bool) : outcome ciphertext :=
    let min_length := if has_pub_key then 69%nat else 36%nat in
    if Nat.ltb (length buffer) min_length then Err
    else if negb (bytes_eqb (firstn 4 buffer) magic) then Err
    else
      let n := length buffer in
      if has_pub_key then
        let pkb := firstn 33 (skipn 4 buffer) in
        do _ <- pubkey_of_bytes pkb;
        Ok (MkCt (Some pkb) (firstn (n - 32 - 37) (skipn 37 buffer)) (skipn (n - 32) buffer))
      else
        Ok (MkCt None (firstn (n - 32 - 4) (skipn 4 buffer)) (skipn (n - 32) buffer)).

  Definition extract_public_key (c : ciphertext) : outcome bytes :=
    match ct_pub c with None => Err | Some b => pubkey_of_bytes b end.

  (* ---------------------------------------------------------------- convenience methods
     PrivateKey::encrypt_message: to the key's own public key, key included;
     PublicKey::encrypt_message(message, sender_private_key): key included;
     PrivateKey::decrypt_message = decrypt_impl;
     ECIES::encrypt_with_ephemeral_private_key: a fresh random key (argument [r]), key included. *)
  Definition priv_encrypt_message (d : Z) (comp : bool) (message : bytes) : outcome ciphertext :=
    encrypt message d (to_public_key d comp) false.
  Definition pub_encrypt_message (pk : bytes) (message : bytes) (sender : Z) : outcome ciphertext :=
    encrypt message sender pk false.
  Definition priv_decrypt_message (d : Z) (c : ciphertext) (sender_pub : bytes) : outcome bytes :=
    decrypt c d sender_pub.
  Definition encrypt_ephemeral (r : Z) (message : bytes) (recipient_pub : bytes) : outcome ciphertext :=
    encrypt message r recipient_pub false.
End Ecies.
