(* Model/Keys.v — transcription of src/keypair/private_key.rs, src/keypair/public_key.rs,
   src/address/mod.rs (and the one field of src/chainparams/mod.rs they use), post-fix.
   Definitions only.

   External code, modelled by its documented behaviour and tied by the correspondence run:
     bs58 0.4.0 encode/decode                         = Prim/Base58.v  b58_encode / b58_decode
     hex::encode / hex::decode                        = Base/Hex.v     hex_of_bytes / bytes_of_hex
     elliptic_curve 0.11 SecretKey::from_be_bytes     : exactly 32 bytes, value in [1, n-1]
     sec1 0.2.1 EncodedPoint::from_bytes              : tag 00 (1 byte), 02/03/05 (33), 04 (65); `compress`
                                                        works on the bytes only (tag from the last y byte)
     k256 0.10.4 PublicKey::from_sec1_bytes           = Prim/Secp256k1.v sec1_decode (tags 02/03/04 of
                                                        canonical non-identity curve points)
     k256 AffinePoint::decompress / to_encoded_point  = lift_x / sec1_encode
     k256 scalar multiplication of the generator      = pubkey
     Script::from_asm_string                          = Model/Asm.v from_asm

   The curve operations are taken from a record so that the same transcription is used with the
   reference instance (Z; all theorems) and the execution instance (BigZ; Run/Exec_C07.v). *)
From BSV Require Import Base.Bytes Base.Hex.
From BSV Require Import Prim.Num Prim.Secp256k1 Prim.Base58.
From BSV Require Import Model.HashApi Model.Opcodes Model.Script Model.Asm.

Record curve_impl : Type := {
  ci_pubkey : Z -> point;                     (* d |-> d*G *)
  ci_decode : bytes -> option point;          (* PublicKey::from_sec1_bytes *)
  ci_lift : Z -> bool -> option point         (* AffinePoint::decompress *)
}.
Definition curve_ref : curve_impl :=
  {| ci_pubkey := pubkey; ci_decode := sec1_decode; ci_lift := lift_x |}.
Definition curve_fast : curve_impl :=
  {| ci_pubkey := pubkey_fast; ci_decode := sec1_decode_fast; ci_lift := lift_x_fast |}.

(* first four bytes of Hash::sha_256d: `shad_bytes[0..4]` (the hash has 32 bytes, the slice cannot panic) *)
Definition checksum4 (payload : bytes) : bytes := firstn 4 (sha_256d payload).

(* ------------------------------------------------------------------ *)
(* PrivateKey { secret_key: SecretKey, is_pub_key_compressed: bool }    *)
Record privkey : Type := { sk_scalar : Z; sk_compressed : bool }.

(* PrivateKey::to_bytes: secret_key.to_be_bytes() *)
Definition priv_to_bytes (k : privkey) : bytes := be32 (sk_scalar k).
Definition priv_to_hex (k : privkey) : string := hex_of_bytes (priv_to_bytes k).

(* from_bytes_impl: SecretKey::from_be_bytes(bytes)?; compressed := true.
   from_be_bytes: len != 32 -> Err; value >= n -> Err (ScalarCore::from_be_bytes is None); 0 -> Err *)
Definition priv_from_bytes (bs : bytes) : outcome privkey :=
  if negb (Nat.eqb (length bs) 32) then Err
  else let v := be_Z bs in
       if in_scalar v then Ok {| sk_scalar := v; sk_compressed := true |} else Err.

(* from_hex_impl: hex::decode(hex_str)? (odd length or a non-hex character -> Err) *)
Definition priv_from_hex (s : string) : outcome privkey :=
  match bytes_of_hex s with Some bs => priv_from_bytes bs | None => Err end.

Definition compress_public_key (k : privkey) (c : bool) : privkey :=
  {| sk_scalar := sk_scalar k; sk_compressed := c |}.

(* to_wif_impl: "80" ++ hex ++ ("01" if compressed); hex::decode; sha256d; first 4 bytes; bs58.
   (hex::decode of text produced by hex::encode cannot fail, so the function never returns Err.) *)
Definition wif_payload (prefix : byte) (k : privkey) : bytes :=
  prefix :: priv_to_bytes k ++ (if sk_compressed k then [x01] else []).
Definition to_wif (k : privkey) : string :=
  let padded := wif_payload x80 k in
  b58_encode (padded ++ checksum4 padded).

(* from_wif_impl.  The version byte wif_bytes[0] is NOT inspected. *)
Definition wif_is_compressed (unchecksum : bytes) : bool :=
  if Nat.ltb (length unchecksum) 34 then false
  else match rev unchecksum with last_byte :: _ => byte_eqb last_byte x01 | [] => false end.

Definition from_wif (s : string) : outcome privkey :=
  match b58_decode s with
  | None => Err
  | Some wif_bytes =>
      if Nat.ltb (length wif_bytes) 5 then Err
      else
        let n := (length wif_bytes - 4)%nat in
        let without := firstn n wif_bytes in            (* wif_bytes[0..len-4] *)
        let checksum := skipn n wif_bytes in            (* wif_bytes[len-4..] *)
        if negb (bytes_eqb (checksum4 without) checksum) then Err
        else
          let c := wif_is_compressed without in
          let key_bytes :=
            if c then firstn (length without - 2) (skipn 1 without)   (* [1..len-1] *)
            else skipn 1 without in                                   (* [1..] *)
          do k <- priv_from_hex (hex_of_bytes key_bytes);
          Ok (compress_public_key k c)
  end.

(* ------------------------------------------------------------------ *)
(* PublicKey { point: Vec<u8>, is_compressed: bool }                    *)
Record pubkey_t : Type := { pk_point : bytes; pk_compressed : bool }.

(* sec1 EncodedPoint::from_bytes: returns the tag when tag and length fit *)
Definition ep_from_bytes (bs : bytes) : option byte :=
  match bs with
  | [] => None
  | tag :: _ =>
      let want :=
        if byte_eqb tag x00 then Some 1%nat
        else if byte_eqb tag x02 || byte_eqb tag x03 || byte_eqb tag x05 then Some 33%nat
        else if byte_eqb tag x04 then Some 65%nat
        else None in
      match want with
      | Some l => if Nat.eqb (length bs) l then Some tag else None
      | None => None
      end
  end.

Definition tag_is_compressed (tag : byte) : bool := byte_eqb tag x02 || byte_eqb tag x03.

(* from_encoded_point(point): bytes as they are, flag from the tag *)
Definition pub_of_encoded (bs : bytes) (tag : byte) : pubkey_t :=
  {| pk_point := bs; pk_compressed := tag_is_compressed tag |}.

Section WithCurve.
  Variable C : curve_impl.

  (* PublicKey::from_bytes_impl (post-fix): EncodedPoint::from_bytes, then k256::PublicKey::from_sec1_bytes *)
  Definition pub_from_bytes (bs : bytes) : outcome pubkey_t :=
    match ep_from_bytes bs with
    | None => Err
    | Some tag =>
        match ci_decode C bs with
        | None => Err
        | Some _ => Ok (pub_of_encoded bs tag)
        end
    end.

  Definition pub_from_hex (s : string) : outcome pubkey_t :=
    match bytes_of_hex s with Some bs => pub_from_bytes bs | None => Err end.

  (* to_decompressed_impl: from_bytes(..).unwrap(); Compressed -> decompress -> to_encoded_point(false);
     Uncompressed -> itself; Compact / Identity -> None; then .unwrap() *)
  Definition pub_to_decompressed (pk : pubkey_t) : outcome pubkey_t :=
    match ep_from_bytes (pk_point pk) with
    | None => Panic
    | Some tag =>
        if tag_is_compressed tag then
          match ci_lift C (be_Z (skipn 1 (pk_point pk))) (byte_eqb tag x03) with
          | Some P => Ok (pub_of_encoded (sec1_encode false P) x04)
          | None => Panic
          end
        else if byte_eqb tag x04 then Ok (pub_of_encoded (pk_point pk) tag)
        else Panic
    end.

  (* to_compressed_impl: EncodedPoint::from_bytes(..)?.compress() — bytes only *)
  Definition pub_to_compressed (pk : pubkey_t) : outcome pubkey_t :=
    match ep_from_bytes (pk_point pk) with
    | None => Err
    | Some tag =>
        if byte_eqb tag x04 then
          let x := firstn 32 (skipn 1 (pk_point pk)) in
          let y := skipn 33 (pk_point pk) in
          let odd := match rev y with l :: _ => N.odd (b2n l) | [] => false end in
          let t := if odd then x03 else x02 in
          Ok (pub_of_encoded (t :: x) t)
        else Ok (pub_of_encoded (pk_point pk) tag)
    end.

  (* PrivateKey::get_point + PublicKey::from_private_key_impl *)
  Definition pub_from_private (k : privkey) : pubkey_t :=
    {| pk_point := sec1_encode (sk_compressed k) (ci_pubkey C (sk_scalar k));
       pk_compressed := sk_compressed k |}.

  (* PrivateKey::to_public_key_impl *)
  Definition to_public_key (k : privkey) : outcome pubkey_t :=
    let pk := pub_from_private k in
    if negb (sk_compressed k) then pub_to_decompressed pk else Ok pk.
End WithCurve.

(* ------------------------------------------------------------------ *)
(* P2PKHAddress(u8, [u8; 20], [u8; 4])                                   *)
Record address : Type := { a_prefix : byte; a_hash : bytes; a_checksum : bytes }.

(* from_pubkey_hash_impl: the checksum is computed first (any length), then `try_into` [u8; 20] *)
Definition addr_from_pubkey_hash (h : bytes) : outcome address :=
  let ck := checksum4 (x00 :: h) in
  if Nat.eqb (length h) 20 then Ok {| a_prefix := x00; a_hash := h; a_checksum := ck |} else Err.

Definition addr_from_pubkey (pk : pubkey_t) : outcome address :=
  addr_from_pubkey_hash (hash_160 (pk_point pk)).

(* set_chain_params_impl(chain): only chain.p2pkh is used *)
Definition addr_set_chain (a : address) (p2pkh : byte) : outcome address :=
  Ok {| a_prefix := p2pkh; a_hash := a_hash a; a_checksum := checksum4 (p2pkh :: a_hash a) |}.

(* to_string_impl: the stored checksum is not used, it is recomputed *)
Definition addr_to_string (a : address) : string :=
  let address_bytes := a_prefix a :: a_hash a in
  b58_encode (address_bytes ++ checksum4 address_bytes).

(* from_string_impl (post-fix: the DECODED length must be 25) *)
Definition addr_from_string (s : string) : outcome address :=
  match b58_decode s with
  | None => Err
  | Some decoded =>
      if negb (Nat.eqb (length decoded) 25) then Err
      else
        let n := (length decoded - 4)%nat in
        let address_bytes := firstn n decoded in
        let address_checksum := skipn n decoded in
        if negb (bytes_eqb (checksum4 address_bytes) address_checksum) then Err
        else
          match decoded with
          | chain_byte :: _ =>
              Ok {| a_prefix := chain_byte;
                    a_hash := firstn (n - 1) (skipn 1 decoded);      (* decoded[1..len-4] *)
                    a_checksum := address_checksum |}
          | [] => Panic                                              (* decoded[0]; unreachable, len = 25 *)
          end
  end.

(* to_locking_script_impl *)
Definition locking_asm (h : bytes) : string :=
  "OP_DUP OP_HASH160 " +++ hex_of_bytes h +++ " OP_EQUALVERIFY OP_CHECKSIG".
Definition addr_locking_script (a : address) : outcome (list bit) := from_asm (locking_asm (a_hash a)).

(* to_unlocking_script_impl (post-fix: the 20-byte hashes are compared); sig_bytes is
   SighashSignature::to_bytes_impl() = DER || flag, modelled with C06 *)
Definition unlocking_asm (sig_bytes pk_bytes : bytes) : string :=
  hex_of_bytes sig_bytes +++ " " +++ hex_of_bytes pk_bytes.
Definition addr_unlocking_script (a : address) (pk : pubkey_t) (sig_bytes : bytes) : outcome (list bit) :=
  do va <- addr_from_pubkey pk;
  if negb (bytes_eqb (a_hash va) (a_hash a)) then Err
  else from_asm (unlocking_asm sig_bytes (pk_point pk)).

(* PublicKey::to_p2pkh_address *)
Definition pub_to_address (pk : pubkey_t) : outcome address := addr_from_pubkey pk.
