(* Prim/Ripemd160.v — RIPEMD-160 (Dobbertin, Bosselaers, Preneel 1996; ISO/IEC 10118-3),
   executable reference. Words are N < 2^32, little-endian on the wire.          *)
From BSV Require Import Base.Bytes Base.Hex Prim.MD.
Local Open Scope N_scope.

Definition r_m32 : N := 0xFFFFFFFF.
Definition r_rotl (n x : N) : N := N.lor (N.land (N.shiftl x n) r_m32) (N.shiftr x (32 - n)).
Definition r_not (x : N) : N := N.lxor x r_m32.

(* the five boolean functions f(j, x, y, z), j = 0..15, 16..31, 32..47, 48..63, 64..79 *)
Definition rf1 (x y z : N) : N := N.lxor (N.lxor x y) z.
Definition rf2 (x y z : N) : N := N.lor (N.land x y) (N.land (r_not x) z).
Definition rf3 (x y z : N) : N := N.lxor (N.lor x (r_not y)) z.
Definition rf4 (x y z : N) : N := N.lor (N.land x z) (N.land y (r_not z)).
Definition rf5 (x y z : N) : N := N.lxor x (N.lor y (r_not z)).

(* message word selection r(j), r'(j) and rotation amounts s(j), s'(j), one row per group of 16 *)
Definition rl : list (list nat) :=
  [[0; 1; 2; 3; 4; 5; 6; 7; 8; 9; 10; 11; 12; 13; 14; 15];
   [7; 4; 13; 1; 10; 6; 15; 3; 12; 0; 9; 5; 2; 14; 11; 8];
   [3; 10; 14; 4; 9; 15; 8; 1; 2; 7; 0; 6; 13; 11; 5; 12];
   [1; 9; 11; 10; 0; 8; 12; 4; 13; 3; 7; 15; 14; 5; 6; 2];
   [4; 0; 5; 9; 7; 12; 2; 10; 14; 1; 3; 8; 11; 6; 15; 13]]%nat.
Definition rr : list (list nat) :=
  [[5; 14; 7; 0; 9; 2; 11; 4; 13; 6; 15; 8; 1; 10; 3; 12];
   [6; 11; 3; 7; 0; 13; 5; 10; 14; 15; 8; 12; 4; 9; 1; 2];
   [15; 5; 1; 3; 7; 14; 6; 9; 11; 8; 12; 2; 10; 0; 4; 13];
   [8; 6; 4; 1; 3; 11; 15; 0; 5; 12; 2; 13; 9; 7; 10; 14];
   [12; 15; 10; 4; 1; 5; 8; 7; 6; 2; 13; 14; 0; 3; 9; 11]]%nat.
Definition sl : list (list N) :=
  [[11; 14; 15; 12; 5; 8; 7; 9; 11; 13; 14; 15; 6; 7; 9; 8];
   [7; 6; 8; 13; 11; 9; 7; 15; 7; 12; 15; 9; 11; 7; 13; 12];
   [11; 13; 6; 7; 14; 9; 13; 15; 14; 8; 13; 6; 5; 12; 7; 5];
   [11; 12; 14; 15; 14; 15; 9; 8; 9; 14; 5; 6; 8; 6; 5; 12];
   [9; 15; 5; 11; 6; 8; 13; 12; 5; 12; 13; 14; 11; 8; 5; 6]].
Definition sr : list (list N) :=
  [[8; 9; 9; 11; 13; 15; 15; 5; 7; 7; 8; 11; 14; 14; 12; 6];
   [9; 13; 15; 7; 12; 8; 9; 11; 7; 7; 12; 7; 6; 15; 13; 11];
   [9; 7; 15; 11; 8; 6; 6; 14; 12; 13; 5; 14; 13; 13; 7; 5];
   [15; 5; 8; 11; 14; 14; 6; 14; 6; 9; 12; 9; 12; 5; 15; 8];
   [8; 5; 12; 9; 12; 5; 14; 6; 8; 13; 6; 5; 15; 13; 11; 11]].

Definition fl : list (N -> N -> N -> N) := [rf1; rf2; rf3; rf4; rf5].
Definition fr : list (N -> N -> N -> N) := [rf5; rf4; rf3; rf2; rf1].
Definition kl : list N := [0x00000000; 0x5a827999; 0x6ed9eba1; 0x8f1bbcdc; 0xa953fd4e].
Definition kr : list N := [0x50a28be6; 0x5c4dd124; 0x6d703ef3; 0x7a6d76e9; 0x00000000].

Definition rstate : Type := N * N * N * N * N.

Definition iv_rmd : rstate := (0x67452301, 0xefcdab89, 0x98badcfe, 0x10325476, 0xc3d2e1f0).

(* T = rol_s(A + f(B,C,D) + X[r] + K) + E; A := E; E := D; D := rol_10(C); C := B; B := T *)
Definition rmd_step (f : N -> N -> N -> N) (k : N) (x : list N) (st : rstate) (r : nat) (s : N) : rstate :=
  let '(a, b, c, d, e) := st in
  let t := N.land (r_rotl s (N.land (a + f b c d + nth r x 0 + k) r_m32) + e) r_m32 in
  (e, t, b, r_rotl 10 c, d).

(* one group of 16 steps *)
Fixpoint rmd_group (f : N -> N -> N -> N) (k : N) (x : list N) (rs : list nat) (ss : list N) (st : rstate) : rstate :=
  match rs, ss with
  | r :: rs', s :: ss' => rmd_group f k x rs' ss' (rmd_step f k x st r s)
  | _, _ => st
  end.

(* one line = five groups *)
Fixpoint rmd_line (fs : list (N -> N -> N -> N)) (ks : list N) (rss : list (list nat)) (sss : list (list N))
         (x : list N) (st : rstate) : rstate :=
  match fs, ks, rss, sss with
  | f :: fs', k :: ks', rs :: rss', ss :: sss' => rmd_line fs' ks' rss' sss' x (rmd_group f k x rs ss st)
  | _, _, _, _ => st
  end.

Definition compress_rmd (st : rstate) (x : list N) : rstate :=
  let '(h0, h1, h2, h3, h4) := st in
  let '(a, b, c, d, e) := rmd_line fl kl rl sl x st in
  let '(a', b', c', d', e') := rmd_line fr kr rr sr x st in
  (N.land (h1 + c + d') r_m32, N.land (h2 + d + e') r_m32, N.land (h3 + e + a') r_m32,
   N.land (h4 + a + b') r_m32, N.land (h0 + b + c') r_m32).

Definition out_rmd (st : rstate) : bytes :=
  let '(a, b, c, d, e) := st in le_words_bytes 4 [a; b; c; d; e].

Definition ripemd160 (m : bytes) : bytes :=
  out_rmd (md_fold compress_rmd iv_rmd (le32_words (pad_le64 m))).

(* ------------------------------------------------------------------ *)
Lemma out_rmd_length st : length (out_rmd st) = 20%nat.
Proof.
  destruct st as [[[[a b] c] d] e]. unfold out_rmd.
  rewrite le_words_bytes_length. reflexivity.
Qed.

Lemma ripemd160_length m : length (ripemd160 m) = 20%nat.
Proof. apply out_rmd_length. Qed.

(* ------------------------------------------------------------------ *)
(* Known answers: the test vectors of the RIPEMD-160 paper / ISO 10118-3, plus
   boundary lengths cross-checked with python hashlib.                          *)
Local Open Scope string_scope.
Definition ripemd160_hex (m : bytes) : string := hex_of_bytes (ripemd160 m).

Example rmd_empty : ripemd160_hex [] = "9c1185a5c5e9fc54612808977ee8f548b2258d31".
Proof. vm_compute; reflexivity. Qed.
Example rmd_a : ripemd160_hex (bytes_of_string "a") = "0bdc9d2d256b3ee9daae347be6f4dc835a467ffe".
Proof. vm_compute; reflexivity. Qed.
Example rmd_abc : ripemd160_hex (bytes_of_string "abc") = "8eb208f7e05d987a9b044a8e98c6b087f15a0bfc".
Proof. vm_compute; reflexivity. Qed.
Example rmd_md : ripemd160_hex (bytes_of_string "message digest") = "5d0689ef49d2fae572b881b123a85ffa21595f36".
Proof. vm_compute; reflexivity. Qed.
Example rmd_az : ripemd160_hex (bytes_of_string "abcdefghijklmnopqrstuvwxyz") = "f71c27109c692c1b56bbdceb5b9d2865b3708dbc".
Proof. vm_compute; reflexivity. Qed.
Example rmd_56 :
  ripemd160_hex (bytes_of_string "abcdbcdecdefdefgefghfghighijhijkijkljklmklmnlmnomnopnopq")
  = "12a053384a9c0c88e405a06c27dcf49ada62eb2b".
Proof. vm_compute; reflexivity. Qed.
Example rmd_AZ09 :
  ripemd160_hex (bytes_of_string "ABCDEFGHIJKLMNOPQRSTUVWXYZabcdefghijklmnopqrstuvwxyz0123456789")
  = "b0e20b6e3116640286ed3a87a5713079b21f5189".
Proof. vm_compute; reflexivity. Qed.
Example rmd_8x :
  ripemd160_hex (bytes_of_string "12345678901234567890123456789012345678901234567890123456789012345678901234567890")
  = "9b752e45573d4b39f4dbd3323cab82bf63326bfb".
Proof. vm_compute; reflexivity. Qed.
Example rmd_112 :
  ripemd160_hex (bytes_of_string
    "abcdefghbcdefghicdefghijdefghijkefghijklfghijklmghijklmnhijklmnoijklmnopjklmnopqklmnopqrlmnopqrsmnopqrstnopqrstu")
  = "6f3fa39b6b503c384f919a49a7aa5c2c08bdfb45".
Proof. vm_compute; reflexivity. Qed.
Example rmd_55 : ripemd160_hex (repeat "a"%byte 55) = "0d8a8c9063a48576a7c97e9f95253a6e53ff6765".
Proof. vm_compute; reflexivity. Qed.
Example rmd_64 : ripemd160_hex (repeat "a"%byte 64) = "9dfb7d374ad924f3f88de96291c33e9abed53e32".
Proof. vm_compute; reflexivity. Qed.
Example rmd_lcg1000 : ripemd160_hex (lcg_bytes 1000 1) = "62835fd4ede17c67da5bdb49fe1746e84478a9f8".
Proof. vm_compute; reflexivity. Qed.
