(* Prim/Rfc6979Inst.v — RFC 6979 instantiated with HMAC-SHA256 (Prim/Hmac.v), and the
   widely published secp256k1/SHA-256 known answers (bitcointalk "Test Vectors for
   RFC 6979 ECDSA, Secp256k1 Curve, SHA-256 Hash"; also in the test suites of
   bitcoinjs-lib, python-ecdsa, btcd, trezor-crypto).  The values were additionally
   cross-checked against an independent Python implementation (hashlib/hmac). *)
From BSV Require Import Base.Bytes Base.Hex.
From BSV Require Import Prim.Num Prim.Secp256k1 Prim.Rfc6979 Prim.Sha256 Prim.Hmac.
Local Open Scope Z_scope.

Definition rfc6979_k_sha256 : Z -> Z -> bytes -> option Z := generate_k hmac_sha256.
Definition sign_det_sha256_fast (d : Z) (digest : bytes) : option (Z * Z * bool) :=
  sign_digest_det_fast hmac_sha256 d digest.

(* ---------------------------------------------------------------- *)
Definition hexZ (s : string) : Z := match bytes_of_hex s with Some b => be_Z b | None => -1 end.
Definition hex32 (v : Z) : string := hex_of_bytes (be32 v).
Definition msg_k (d : Z) (msg : string) : option string :=
  option_map hex32 (rfc6979_k_sha256 d (scalar_of_digest (sha256 (bytes_of_string msg))) []).
Definition msg_sig (d : Z) (msg : string) : option (string * string * bool) :=
  match sign_det_sha256_fast d (sha256 (bytes_of_string msg)) with
  | Some (r, s, v) => Some (hex32 r, hex32 s, v)
  | None => None
  end.

Definition m_tears : string :=
  "All those moments will be lost in time, like tears in rain. Time to die...".
Definition m_feynman : string :=
  "There is a computer disease that anybody who works with computers knows about. It's a very serious disease and it interferes completely with the work. The trouble with computers is that you 'play' with them!".

Example k_satoshi_1 : msg_k 1 "Satoshi Nakamoto"
  = Some "8f8a276c19f4149656b280621e358cce24f5f52542772691ee69063b74f15d15".
Proof. vm_compute. reflexivity. Qed.
Example k_tears_1 : msg_k 1 m_tears
  = Some "38aa22d72376b4dbc472e06c3ba403ee0a394da63fc58d88686c611aba98d6b3".
Proof. vm_compute. reflexivity. Qed.
Example k_satoshi_nm1 : msg_k (secp_n - 1) "Satoshi Nakamoto"
  = Some "33a19b60e25fb6f4435af53a3d42d493644827367e6453928554f43e49aa6f90".
Proof. vm_compute. reflexivity. Qed.
Example k_turing : msg_k (hexZ "f8b8af8ce3c7cca5e300d33939540c10d45ce001b8f252bfbc57ba0342904181") "Alan Turing"
  = Some "525a82b70e67874398067543fd84c83d30c175fdc45fdeee082fe13b1d7cfdf1".
Proof. vm_compute. reflexivity. Qed.
Example k_feynman : msg_k (hexZ "e91671c46231f833a6406ccbea0e3e392c76c167bac1cb013f6f1013980455c2") m_feynman
  = Some "1f4b84c23a86a221d233f2521be018d9318639d5b8bbd6374a8a59232d16ad3d".
Proof. vm_compute. reflexivity. Qed.

(* full deterministic signatures (r, s low-S normalised, recovery bit) *)
Example sig_satoshi_1 : msg_sig 1 "Satoshi Nakamoto"
  = Some ("934b1ea10a4b3c1757e2b0c017d0b6143ce3c9a7e6a4a49860d7a6ab210ee3d8",
          "2442ce9d2b916064108014783e923ec36b49743e2ffa1c4496f01a512aafd9e5", true).
Proof. vm_compute. reflexivity. Qed.
Example sig_tears_1 : msg_sig 1 m_tears
  = Some ("8600dbd41e348fe5c9465ab92d23e3db8b98b873beecd930736488696438cb6b",
          "547fe64427496db33bf66019dacbf0039c04199abb0122918601db38a72cfc21", false).
Proof. vm_compute. reflexivity. Qed.
Example sig_satoshi_nm1 : msg_sig (secp_n - 1) "Satoshi Nakamoto"
  = Some ("fd567d121db66e382991534ada77a6bd3106f0a1098c231e47993447cd6af2d0",
          "6b39cd0eb1bc8603e159ef5c20a5c8ad685a45b06ce9bebed3f153d10d93bed5", false).
Proof. vm_compute. reflexivity. Qed.
Example sig_turing : msg_sig (hexZ "f8b8af8ce3c7cca5e300d33939540c10d45ce001b8f252bfbc57ba0342904181") "Alan Turing"
  = Some ("7063ae83e7f62bbb171798131b4a0564b956930092b33b07b395615d9ec7e15c",
          "58dfcc1e00a35e1572f366ffe34ba0fc47db1e7189759b9fb233c5b05ab388ea", false).
Proof. vm_compute. reflexivity. Qed.
Example sig_feynman : msg_sig (hexZ "e91671c46231f833a6406ccbea0e3e392c76c167bac1cb013f6f1013980455c2") m_feynman
  = Some ("b552edd27580141f3b2a5463048cb7cd3e047b97c9f98076c32dbdf85a68718b",
          "279fa72dd19bfae05577e06c7c0c1900c371fcd5893f7e1d56a37d30174671f6", true).
Proof. vm_compute. reflexivity. Qed.

(* additional data (RFC 6979 3.6, the "added entropy" of try_sign_digest_with_rng);
   expected value from the independent Python implementation *)
Example k_satoshi_1_data :
  option_map hex32 (rfc6979_k_sha256 1 (scalar_of_digest (sha256 (bytes_of_string "Satoshi Nakamoto")))
                      (map (fun i => n2b (N.of_nat i)) (seq 0 32)))
  = Some "3262ba5feaf7c959d799f4cb84bd85935de97b31d77309647a4232e07e2becdb".
Proof. vm_compute. reflexivity. Qed.

(* the signatures verify and recover the signer's key on the execution instance *)
Example sig_satoshi_1_verifies :
  let z := scalar_of_digest (sha256 (bytes_of_string "Satoshi Nakamoto")) in
  match sign_det_sha256_fast 1 (sha256 (bytes_of_string "Satoshi Nakamoto")) with
  | Some (r, s, v) => (prim_verify_fast (pubkey_fast 1) z (r, s), recover_fast r s v z)
  | None => (false, Err)
  end = (true, Ok G).
Proof. vm_compute. reflexivity. Qed.

Time Eval vm_compute in msg_sig 1 "Satoshi Nakamoto".
