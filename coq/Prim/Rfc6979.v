(* Prim/Rfc6979.v — deterministic ECDSA nonce, exactly as the crate rfc6979 0.1.0
   (`generate_k` + `HmacDrbg`) computes it when called through
   ecdsa 0.13 `hazmat::rfc6979_generate_k::<Secp256k1, D>(x, z, ad)`:

     generate_k::<D, U256>(x, n = ORDER, h = z.to_repr(), data = ad)

   * x is int2octets(secret) = 32 bytes big-endian;
   * h is NOT the message digest but the 32-byte big-endian encoding of the message
     SCALAR z (already reduced modulo n by the caller: this is bits2octets of RFC 6979
     3.2 when z = bits2int(digest) mod n; the repository sometimes passes another scalar,
     e.g. the little-endian reading of the digest — that is the caller's business);
   * data ("additional data" k', RFC 6979 3.6) is appended after h in both K updates;
   * D is the hash inside HMAC; the repository passes its own adapters (Sha256r,
     Sha256d), therefore HMAC is a parameter [hmac key msg] here.  Its output must
     be 32 bytes (type constraint D::OutputSize = FieldSize in the crate).

   HmacDrbg::new:  K = 00..00 (Hmac::new(&Default::default()): a block-size all-zero key,
                   which HMAC pads identically to the 32 zero bytes of the RFC), V = 01 x 32
                   for i in 0..=1:  K = HMAC_K(V || i || x || h || data);  V = HMAC_K(V)
   fill_bytes(32): V = HMAC_K(V); out = V;  then ALWAYS  K = HMAC_K(V || 00); V = HMAC_K(V)
                   (the RFC does this update only before a retry; same stream of candidates)
   generate_k:     loop { k = be(out); if k != 0 && k < n return k }.
   The loop is fuelled here; [None] = fuel exhausted (probability 2^-128 per round). *)
From BSV Require Import Base.Bytes.
From BSV Require Import Prim.Num Prim.Secp256k1.
Local Open Scope Z_scope.

Section Rfc6979.
  Variable hmac : bytes -> bytes -> bytes.     (* key -> message -> tag *)

  Definition drbg_init (x h data : bytes) : bytes * bytes :=
    let K := zeros 32 in
    let V := repeat x01 32 in
    let K := hmac K (V ++ [x00] ++ x ++ h ++ data) in
    let V := hmac K V in
    let K := hmac K (V ++ [x01] ++ x ++ h ++ data) in
    let V := hmac K V in
    (K, V).

  (* one call of fill_bytes on a 32-byte buffer: output and next state *)
  Definition drbg_next (KV : bytes * bytes) : bytes * (bytes * bytes) :=
    let '(K, V) := KV in
    let V1 := hmac K V in
    let K' := hmac K (V1 ++ [x00]) in
    let V' := hmac K' V1 in
    (V1, (K', V')).

  Fixpoint gen_k_loop (fuel : nat) (n : Z) (KV : bytes * bytes) : option Z :=
    match fuel with
    | O => None
    | S f =>
        let '(t, KV') := drbg_next KV in
        let k := be_Z t in
        if (0 <? k) && (k <? n) then Some k else gen_k_loop f n KV'
    end.

  (* the first [i] candidates (for tests of the retry path) *)
  Fixpoint candidates (i : nat) (KV : bytes * bytes) : list Z :=
    match i with
    | O => []
    | S i' => let '(t, KV') := drbg_next KV in be_Z t :: candidates i' KV'
    end.

  Definition generate_k_gen (fuel : nat) (n x z : Z) (data : bytes) : option Z :=
    gen_k_loop fuel n (drbg_init (be32 x) (be32 z) data).

  Definition rfc6979_fuel : nat := 16.

  (* secp256k1: x = secret scalar, z = message scalar (both in [0, n)) *)
  Definition generate_k (x z : Z) (data : bytes) : option Z :=
    generate_k_gen rfc6979_fuel secp_n x z data.

  (* RFC 6979 2.3.2-2.3.4 for qlen = 256 = hlen *)
  Definition bits2int (digest : bytes) : Z := be_Z digest.
  Definition int2octets (v : Z) : bytes := be32 v.
  Definition bits2octets (digest : bytes) : bytes := be32 (be_Z digest mod secp_n).
  (* Scalar::from_be_bytes_reduced on a 32-byte digest *)
  Definition scalar_of_digest (digest : bytes) : Z := be_Z digest mod secp_n.

  (* deterministic signature of a 32-byte digest (k256 SigningKey::try_sign_digest) *)
  Definition sign_digest_det_fast (d : Z) (digest : bytes) : option (Z * Z * bool) :=
    let z := scalar_of_digest digest in
    match generate_k d z [] with
    | Some k => prim_sign_fast d k z
    | None => None
    end.
End Rfc6979.
