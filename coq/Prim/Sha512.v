(* Prim/Sha512.v — SHA-512 (FIPS 180-4 §6.4), executable reference.
   Words are N, kept < 2^64 by explicit masking.                                *)
From BSV Require Import Base.Bytes Base.Hex Prim.MD.
Local Open Scope N_scope.

Definition m64 : N := 0xFFFFFFFFFFFFFFFF.
Definition rotr64 (n x : N) : N := N.lor (N.shiftr x n) (N.land (N.shiftl x (64 - n)) m64).
Definition not64 (x : N) : N := N.lxor x m64.

(* FIPS 180-4 §4.1.3 *)
Definition Ch64 (x y z : N) : N := N.lxor (N.land x y) (N.land (not64 x) z).
Definition Maj64 (x y z : N) : N := N.lxor (N.lxor (N.land x y) (N.land x z)) (N.land y z).
Definition Sig0_512 (x : N) : N := N.lxor (N.lxor (rotr64 28 x) (rotr64 34 x)) (rotr64 39 x).
Definition Sig1_512 (x : N) : N := N.lxor (N.lxor (rotr64 14 x) (rotr64 18 x)) (rotr64 41 x).
Definition sig0_512 (x : N) : N := N.lxor (N.lxor (rotr64 1 x) (rotr64 8 x)) (N.shiftr x 7).
Definition sig1_512 (x : N) : N := N.lxor (N.lxor (rotr64 19 x) (rotr64 61 x)) (N.shiftr x 6).

(* §4.2.3 *)
Definition K512 : list N :=
  [0x428a2f98d728ae22; 0x7137449123ef65cd; 0xb5c0fbcfec4d3b2f; 0xe9b5dba58189dbbc;
   0x3956c25bf348b538; 0x59f111f1b605d019; 0x923f82a4af194f9b; 0xab1c5ed5da6d8118;
   0xd807aa98a3030242; 0x12835b0145706fbe; 0x243185be4ee4b28c; 0x550c7dc3d5ffb4e2;
   0x72be5d74f27b896f; 0x80deb1fe3b1696b1; 0x9bdc06a725c71235; 0xc19bf174cf692694;
   0xe49b69c19ef14ad2; 0xefbe4786384f25e3; 0x0fc19dc68b8cd5b5; 0x240ca1cc77ac9c65;
   0x2de92c6f592b0275; 0x4a7484aa6ea6e483; 0x5cb0a9dcbd41fbd4; 0x76f988da831153b5;
   0x983e5152ee66dfab; 0xa831c66d2db43210; 0xb00327c898fb213f; 0xbf597fc7beef0ee4;
   0xc6e00bf33da88fc2; 0xd5a79147930aa725; 0x06ca6351e003826f; 0x142929670a0e6e70;
   0x27b70a8546d22ffc; 0x2e1b21385c26c926; 0x4d2c6dfc5ac42aed; 0x53380d139d95b3df;
   0x650a73548baf63de; 0x766a0abb3c77b2a8; 0x81c2c92e47edaee6; 0x92722c851482353b;
   0xa2bfe8a14cf10364; 0xa81a664bbc423001; 0xc24b8b70d0f89791; 0xc76c51a30654be30;
   0xd192e819d6ef5218; 0xd69906245565a910; 0xf40e35855771202a; 0x106aa07032bbd1b8;
   0x19a4c116b8d2d0c8; 0x1e376c085141ab53; 0x2748774cdf8eeb99; 0x34b0bcb5e19b48a8;
   0x391c0cb3c5c95a63; 0x4ed8aa4ae3418acb; 0x5b9cca4f7763e373; 0x682e6ff3d6b2b8a3;
   0x748f82ee5defb2fc; 0x78a5636f43172f60; 0x84c87814a1f0ab72; 0x8cc702081a6439ec;
   0x90befffa23631e28; 0xa4506cebde82bde9; 0xbef9a3f7b2c67915; 0xc67178f2e372532b;
   0xca273eceea26619c; 0xd186b8c721c0c207; 0xeada7dd6cde0eb1e; 0xf57d4f7fee6ed178;
   0x06f067aa72176fba; 0x0a637dc5a2c898a6; 0x113f9804bef90dae; 0x1b710b35131c471b;
   0x28db77f523047d84; 0x32caab7b40c72493; 0x3c9ebe0a15c9bebc; 0x431d67c49c100d4c;
   0x4cc5d4becb3e42b6; 0x597f299cfc657e2a; 0x5fcb6fab3ad6faec; 0x6c44198c4a475817].

Definition state512 : Type := N * N * N * N * N * N * N * N.

(* §5.3.5 *)
Definition iv512 : state512 :=
  (0x6a09e667f3bcc908, 0xbb67ae8584caa73b, 0x3c6ef372fe94f82b, 0xa54ff53a5f1d36f1,
   0x510e527fade682d1, 0x9b05688c2b3e6c1f, 0x1f83d9abfb41bd6b, 0x5be0cd19137e2179).

(* §6.4.2 step 1; [r] holds W_{t-1}, W_{t-2}, ... *)
Fixpoint sched512 (n : nat) (r : list N) : list N :=
  match n with
  | O => r
  | S n' =>
      match r with
      | _ :: w2 :: _ :: _ :: _ :: _ :: w7 :: _ :: _ :: _ :: _ :: _ :: _ :: _ :: w15 :: w16 :: _ =>
          sched512 n' (N.land (sig1_512 w2 + w7 + sig0_512 w15 + w16) m64 :: r)
      | _ => r
      end
  end.
Definition schedule512 (block : list N) : list N := rev (sched512 64 (rev block)).

Definition round512 (st : state512) (k w : N) : state512 :=
  let '(a, b, c, d, e, f, g, h) := st in
  let t1 := h + Sig1_512 e + Ch64 e f g + k + w in
  let t2 := Sig0_512 a + Maj64 a b c in
  (N.land (t1 + t2) m64, a, b, c, N.land (d + t1) m64, e, f, g).

Fixpoint rounds512 (ks ws : list N) (st : state512) : state512 :=
  match ks, ws with
  | k :: ks', w :: ws' => rounds512 ks' ws' (round512 st k w)
  | _, _ => st
  end.

Definition compress512 (st : state512) (block : list N) : state512 :=
  let '(a, b, c, d, e, f, g, h) := st in
  let '(a', b', c', d', e', f', g', h') := rounds512 K512 (schedule512 block) st in
  (N.land (a + a') m64, N.land (b + b') m64, N.land (c + c') m64, N.land (d + d') m64,
   N.land (e + e') m64, N.land (f + f') m64, N.land (g + g') m64, N.land (h + h') m64).

Definition out512 (st : state512) : bytes :=
  let '(a, b, c, d, e, f, g, h) := st in be_words_bytes 8 [a; b; c; d; e; f; g; h].

Definition sha512 (m : bytes) : bytes :=
  out512 (md_fold compress512 iv512 (be64_words (pad_be128 m))).

(* ------------------------------------------------------------------ *)
Lemma out512_length st : length (out512 st) = 64%nat.
Proof.
  destruct st as [[[[[[[a b] c] d] e] f] g] h]. unfold out512.
  rewrite be_words_bytes_length. reflexivity.
Qed.

Lemma sha512_length m : length (sha512 m) = 64%nat.
Proof. apply out512_length. Qed.

(* ------------------------------------------------------------------ *)
(* Known answers (FIPS 180-4 examples; others cross-checked with python hashlib). *)
Local Open Scope string_scope.
Definition sha512_hex (m : bytes) : string := hex_of_bytes (sha512 m).

Example sha512_empty :
  sha512_hex [] = "cf83e1357eefb8bdf1542850d66d8007d620e4050b5715dc83f4a921d36ce9ce47d0d13c5d85f2b0ff8318d2877eec2f63b931bd47417a81a538327af927da3e".
Proof. vm_compute; reflexivity. Qed.

Example sha512_abc :
  sha512_hex (bytes_of_string "abc") = "ddaf35a193617abacc417349ae20413112e6fa4e89a97ea20a9eeee64b55d39a2192992a274fc1a836ba3c23a3feebbd454d4423643ce80e2a9ac94fa54ca49f".
Proof. vm_compute; reflexivity. Qed.

Example sha512_56 :
  sha512_hex (bytes_of_string "abcdbcdecdefdefgefghfghighijhijkijkljklmklmnlmnomnopnopq")
  = "204a8fc6dda82f0a0ced7beb8e08a41657c16ef468b228a8279be331a703c33596fd15c13b1b07f9aa1d3bea57789ca031ad85c7a71dd70354ec631238ca3445".
Proof. vm_compute; reflexivity. Qed.

(* 112 bytes: the FIPS two-block message (padding spills into a second block) *)
Example sha512_two_block :
  sha512_hex (bytes_of_string
    "abcdefghbcdefghicdefghijdefghijkefghijklfghijklmghijklmnhijklmnoijklmnopjklmnopqklmnopqrlmnopqrsmnopqrstnopqrstu")
  = "8e959b75dae313da8cf4f72814fc143f8f7779c6eb9f7fa17299aeadb6889018501d289e4900f7e4331b99dec4b5433ac7d329eeb6dd26545e96e55b874be909".
Proof. vm_compute; reflexivity. Qed.

Example sha512_111 :
  sha512_hex (repeat "a"%byte 111) = "fa9121c7b32b9e01733d034cfc78cbf67f926c7ed83e82200ef86818196921760b4beff48404df811b953828274461673c68d04e297b0eb7b2b4d60fc6b566a2".
Proof. vm_compute; reflexivity. Qed.
Example sha512_112a :
  sha512_hex (repeat "a"%byte 112) = "c01d080efd492776a1c43bd23dd99d0a2e626d481e16782e75d54c2503b5dc32bd05f0f1ba33e568b88fd2d970929b719ecbb152f58f130a407c8830604b70ca".
Proof. vm_compute; reflexivity. Qed.
Example sha512_128 :
  sha512_hex (repeat "a"%byte 128) = "b73d1929aa615934e61a871596b3f3b33359f42b8175602e89f7e06e5f658a243667807ed300314b95cacdd579f3e33abdfbe351909519a846d465c59582f321".
Proof. vm_compute; reflexivity. Qed.

Example sha512_lcg1000 :
  sha512_hex (lcg_bytes 1000 1) = "a4cf73b765f0ef354a74d0d4a4c52168bac091010eca09e8baef34709990adbcc3e71640b644f13895d845bd1a51ae25d1555db4a8eb5737b97ec59eadc1ec71".
Proof. vm_compute; reflexivity. Qed.
