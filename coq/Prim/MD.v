(* Prim/MD.v — what SHA-1, SHA-256, SHA-512 and RIPEMD-160 share: Merkle–Damgård
   padding (0x80, zeros, bit length), splitting a byte string into 32/64-bit words
   and words into 16-word blocks, serialising words. Executable, fast under
   vm_compute (N arithmetic only on data; nat only for the zero count < 128). *)
From BSV Require Import Base.Bytes.
Local Open Scope N_scope.

(* ------------------------------------------------------------------ *)
(* Padding.  block = block size in bytes, lenlen = size of the length field,
   enc = encoder of the bit length (big- or little-endian, lenlen bytes).      *)
Definition md_zeros (block lenlen len : N) : N :=
  (block - (len + 1 + lenlen) mod block) mod block.

Definition md_pad (block lenlen : N) (enc : N -> bytes) (m : bytes) : bytes :=
  let len := N.of_nat (length m) in
  m ++ x80 :: zeros (N.to_nat (md_zeros block lenlen len)) ++ enc (8 * len).

(* FIPS 180-4 §5.1.1 (SHA-1, SHA-256): 64-byte blocks, 64-bit big-endian bit length.
   be_bytes 8 truncates modulo 2^64, as the standard's length field does.       *)
Definition pad_be64 (m : bytes) : bytes := md_pad 64 8 (be_bytes 8) m.
(* RIPEMD-160 (and MD4/MD5): same, little-endian length.                        *)
Definition pad_le64 (m : bytes) : bytes := md_pad 64 8 (le_bytes 8) m.
(* FIPS 180-4 §5.1.2 (SHA-512): 128-byte blocks, 128-bit big-endian bit length. *)
Definition pad_be128 (m : bytes) : bytes := md_pad 128 16 (be_bytes 16) m.

(* ------------------------------------------------------------------ *)
(* Words.                                                              *)
Fixpoint be32_words (bs : bytes) : list N :=
  match bs with
  | a :: b :: c :: d :: r =>
      (((b2n a * 256 + b2n b) * 256 + b2n c) * 256 + b2n d) :: be32_words r
  | _ => []
  end.

Fixpoint le32_words (bs : bytes) : list N :=
  match bs with
  | a :: b :: c :: d :: r =>
      (((b2n d * 256 + b2n c) * 256 + b2n b) * 256 + b2n a) :: le32_words r
  | _ => []
  end.

Fixpoint be64_words (bs : bytes) : list N :=
  match bs with
  | a :: b :: c :: d :: e :: f :: g :: h :: r =>
      (((((((b2n a * 256 + b2n b) * 256 + b2n c) * 256 + b2n d) * 256 + b2n e) * 256
          + b2n f) * 256 + b2n g) * 256 + b2n h) :: be64_words r
  | _ => []
  end.

(* Fold a compression function over consecutive 16-word blocks; a trailing partial
   block (never present after padding) is ignored.                               *)
Section Fold.
  Context {S : Type} (compress : S -> list N -> S).
  Fixpoint md_fold (st : S) (ws : list N) : S :=
    match ws with
    | w0 :: w1 :: w2 :: w3 :: w4 :: w5 :: w6 :: w7 :: w8 :: w9 :: w10 :: w11 :: w12 :: w13 :: w14 :: w15 :: r =>
        md_fold (compress st [w0; w1; w2; w3; w4; w5; w6; w7; w8; w9; w10; w11; w12; w13; w14; w15]) r
    | _ => st
    end.
End Fold.

(* Serialise a list of words, k bytes each. *)
Definition be_words_bytes (k : nat) (ws : list N) : bytes := flat_map (be_bytes k) ws.
Definition le_words_bytes (k : nat) (ws : list N) : bytes := flat_map (le_bytes k) ws.

(* byte-wise xor (used by HMAC and PBKDF2) *)
Definition bxor (a b : byte) : byte := n2b (N.lxor (b2n a) (b2n b)).
Fixpoint xor_bytes (a b : bytes) : bytes :=
  match a, b with
  | x :: a', y :: b' => bxor x y :: xor_bytes a' b'
  | _, _ => []
  end.

(* ------------------------------------------------------------------ *)
(* Lemmas (short).                                                     *)
Lemma be_bytes_length k n : length (be_bytes k n) = k.
Proof. unfold be_bytes. rewrite rev_length. apply le_bytes_length. Qed.

Lemma zeros_length n : length (zeros n) = n.
Proof. apply repeat_length. Qed.

Lemma md_pad_length block lenlen enc m :
  (forall n, length (enc n) = N.to_nat lenlen) ->
  N.of_nat (length (md_pad block lenlen enc m)) =
  N.of_nat (length m) + 1 + md_zeros block lenlen (N.of_nat (length m)) + lenlen.
Proof.
  intros Henc. unfold md_pad. cbn zeta.
  rewrite app_length. cbn [length]. rewrite app_length, zeros_length, Henc. lia.
Qed.

Lemma pad_be64_length m : (length (pad_be64 m) mod 64 = 0)%nat.
Proof.
  pose proof (md_pad_length 64 8 (be_bytes 8) m (fun n => be_bytes_length 8 n)) as H.
  unfold pad_be64. unfold md_zeros in H. lia.
Qed.

Lemma pad_le64_length m : (length (pad_le64 m) mod 64 = 0)%nat.
Proof.
  pose proof (md_pad_length 64 8 (le_bytes 8) m (fun n => le_bytes_length 8 n)) as H.
  unfold pad_le64. unfold md_zeros in H. lia.
Qed.

Lemma pad_be128_length m : (length (pad_be128 m) mod 128 = 0)%nat.
Proof.
  pose proof (md_pad_length 128 16 (be_bytes 16) m (fun n => be_bytes_length 16 n)) as H.
  unfold pad_be128. unfold md_zeros in H. lia.
Qed.

(* the message is a prefix of its padding, followed by the 0x80 marker *)
Lemma md_pad_prefix block lenlen enc m :
  exists t, md_pad block lenlen enc m = m ++ x80 :: t.
Proof. unfold md_pad. eexists. reflexivity. Qed.

Lemma be_words_bytes_length k ws : length (be_words_bytes k ws) = (k * length ws)%nat.
Proof.
  unfold be_words_bytes. induction ws as [|w r IH]; cbn [flat_map length]; [lia|].
  rewrite app_length, be_bytes_length, IH. lia.
Qed.

Lemma le_words_bytes_length k ws : length (le_words_bytes k ws) = (k * length ws)%nat.
Proof.
  unfold le_words_bytes. induction ws as [|w r IH]; cbn [flat_map length]; [lia|].
  rewrite app_length, le_bytes_length, IH. lia.
Qed.

Lemma xor_bytes_length a b : length (xor_bytes a b) = Nat.min (length a) (length b).
Proof.
  revert b; induction a as [|x a IH]; intros [|y b]; cbn [xor_bytes length]; try reflexivity.
  rewrite IH. reflexivity.
Qed.
