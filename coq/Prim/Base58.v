(* Prim/Base58.v — Base58 (Bitcoin alphabet) exactly as the Rust `bs58` crate 0.4.0
   (encode.rs `encode_into`, decode.rs `decode_into`), plus Base58Check helpers.

   Semantics of the crate, restated on numbers:
     encode bs : z = number of leading 0x00 bytes, v = big-endian value of bs;
                 output = z times '1' followed by the base-58 digits of v, most significant first,
                 no digit at all when v = 0.
     decode s  : any character outside the alphabet (in particular any byte >= 0x80) -> None;
                 z = number of leading '1' characters (digit 0), v = base-58 value of s;
                 output = z zero bytes followed by the minimal big-endian bytes of v.
   Both directions are the same "digit string conversion" [conv b1 b2] between two radices, which
   keeps the leading zero digits and converts the value; the round-trip theorems are proved once,
   generically, and instantiated with (256,58) and (58,256).

   Executable: bytes -> N by Horner, then repeated N.div / N.modulo with fuel [N.size v]
   (proved sufficient), not the quadratic in-place buffer of the crate.  No axioms. *)
From BSV Require Import Base.Bytes Base.Hex.
Local Open Scope list_scope.

(* ------------------------------------------------------------------ *)
(* Generic radix-b digit expansion (b >= 2); digit lists are little-endian here. *)
Section Radix.
  Variable b : N.

  Fixpoint rval (ds : list N) : N :=
    match ds with
    | [] => 0
    | d :: r => d + b * rval r
    end%N.

  (* minimal little-endian digits of v: no digit for 0 *)
  Fixpoint rdigits_f (fuel : nat) (v : N) : list N :=
    match fuel with
    | O => []
    | S f => if (v =? 0)%N then [] else (v mod b)%N :: rdigits_f f (v / b)%N
    end.
  Definition rdigits (v : N) : list N := rdigits_f (N.to_nat (N.size v)) v.

  Definition small (ds : list N) : Prop := Forall (fun d => d < b)%N ds.
  (* most significant digit (the last one) is non-zero, or the list is empty *)
  Definition normal (ds : list N) : Prop := last ds 1%N <> 0%N.

  (* most significant zero digits do not change the value *)
  Lemma rval_app_zeros ds zs : Forall (fun d => d = 0%N) zs -> rval (ds ++ zs) = rval ds.
  Proof.
    intros Hz. induction ds as [|d r IH]; cbn [app rval].
    - induction Hz as [|x l -> _ IHz]; cbn [rval]; [reflexivity | rewrite IHz; lia].
    - rewrite IH. reflexivity.
  Qed.

  Hypothesis Hb : (2 <= b)%N.

  Lemma rdigits_f_0 f : rdigits_f f 0 = [].
  Proof. destruct f; reflexivity. Qed.

  Lemma div_fuel f v : (v < 2 ^ N.of_nat (S f))%N -> (v / b < 2 ^ N.of_nat f)%N.
  Proof.
    intros H. rewrite Nat2N.inj_succ, N.pow_succ_r' in H.
    assert (L : (v / b <= v / 2)%N) by (apply N.div_le_compat_l; lia).
    lia.
  Qed.

  Lemma rval_rdigits_f f : forall v, (v < 2 ^ N.of_nat f)%N -> rval (rdigits_f f v) = v.
  Proof.
    induction f as [|f IH]; intros v H.
    - change (N.of_nat 0) with 0%N in H. rewrite N.pow_0_r in H. cbn [rdigits_f rval]. lia.
    - cbn [rdigits_f]. destruct (N.eqb_spec v 0) as [->|Hv]; [reflexivity|].
      cbn [rval]. rewrite IH by (apply div_fuel; exact H).
      rewrite (N.div_mod v b) at 3 by lia. lia.
  Qed.

  Lemma rdigits_f_small f : forall v, small (rdigits_f f v).
  Proof.
    induction f as [|f IH]; intros v; cbn [rdigits_f]; [constructor|].
    destruct (v =? 0)%N; constructor; [apply N.mod_lt; lia | apply IH].
  Qed.

  Lemma rdigits_f_normal f : forall v, (v < 2 ^ N.of_nat f)%N -> normal (rdigits_f f v).
  Proof.
    induction f as [|f IH]; intros v H; cbn [rdigits_f].
    - unfold normal; cbn; lia.
    - destruct (N.eqb_spec v 0) as [->|Hv]; [unfold normal; cbn; lia|].
      pose proof (IH _ (div_fuel _ _ H)) as Hn.
      pose proof (rval_rdigits_f f _ (div_fuel _ _ H)) as Hr.
      destruct (rdigits_f f (v / b)) as [|e r].
      + cbn [rval] in Hr. unfold normal; cbn [last].
        rewrite N.mod_small by (apply N.div_small_iff; lia). exact Hv.
      + exact Hn.
  Qed.

  Lemma normal_tail d r : normal (d :: r) -> normal r.
  Proof. destruct r; [unfold normal; cbn; lia | exact (fun H => H)]. Qed.

  Lemma rval_nonzero ds : normal ds -> ds <> [] -> rval ds <> 0%N.
  Proof.
    induction ds as [|d r IH]; intros Hn Hne; [congruence|].
    cbn [rval]. destruct r as [|e r'].
    - unfold normal in Hn; cbn in Hn. cbn [rval]. lia.
    - assert (Hr : rval (e :: r') <> 0%N) by (apply IH; [exact Hn | discriminate]).
      assert (b * rval (e :: r') <> 0)%N by (apply N.neq_mul_0; split; lia).
      lia.
  Qed.

  Lemma rdigits_f_rval ds :
    small ds -> normal ds -> forall f, (rval ds < 2 ^ N.of_nat f)%N -> rdigits_f f (rval ds) = ds.
  Proof.
    induction ds as [|d r IH]; intros Hs Hn f Hf.
    - apply rdigits_f_0.
    - pose proof (rval_nonzero _ Hn ltac:(discriminate)) as Hnz.
      inversion Hs as [|? ? Hd Hs']; subst.
      destruct f as [|f].
      + change (N.of_nat 0) with 0%N in Hf. rewrite N.pow_0_r in Hf. lia.
      + cbn [rdigits_f]. destruct (N.eqb_spec (rval (d :: r)) 0) as [E|_]; [contradiction|].
        cbn [rval].
        assert (Em : ((d + b * rval r) mod b = d)%N).
        { rewrite (N.mul_comm b), N.mod_add by lia. apply N.mod_small; exact Hd. }
        assert (Ed : ((d + b * rval r) / b = rval r)%N).
        { rewrite (N.mul_comm b), N.div_add by lia. rewrite N.div_small by exact Hd. lia. }
        rewrite Em, Ed. f_equal.
        apply IH; [exact Hs' | exact (normal_tail _ _ Hn) |].
        rewrite <- Ed. apply div_fuel. exact Hf.
  Qed.

  Lemma size_fuel v : (v < 2 ^ N.of_nat (N.to_nat (N.size v)))%N.
  Proof. rewrite N2Nat.id. apply N.size_gt. Qed.

  Lemma rval_rdigits v : rval (rdigits v) = v.
  Proof. apply rval_rdigits_f, size_fuel. Qed.
  Lemma rdigits_small v : small (rdigits v).
  Proof. apply rdigits_f_small. Qed.
  Lemma rdigits_normal v : normal (rdigits v).
  Proof. apply rdigits_f_normal, size_fuel. Qed.
  Lemma rdigits_rval ds : small ds -> normal ds -> rdigits (rval ds) = ds.
  Proof. intros Hs Hn. apply rdigits_f_rval; [exact Hs | exact Hn | apply size_fuel]. Qed.

End Radix.

(* ------------------------------------------------------------------ *)
(* Big-endian digit strings with leading zero digits kept.             *)
Fixpoint lead0 (ds : list N) : nat :=
  match ds with
  | d :: r => if (d =? 0)%N then S (lead0 r) else O
  | [] => O
  end.
Fixpoint strip0 (ds : list N) : list N :=
  match ds with
  | d :: r => if (d =? 0)%N then strip0 r else ds
  | [] => []
  end.

(* big-endian radix-b1 digit string  ->  big-endian radix-b2 digit string *)
Definition conv (b1 b2 : N) (ds : list N) : list N :=
  repeat 0%N (lead0 ds) ++ rev (rdigits b2 (rval b1 (rev ds))).

Lemma lead0_strip0 ds : ds = repeat 0%N (lead0 ds) ++ strip0 ds /\ hd 1%N (strip0 ds) <> 0%N.
Proof.
  induction ds as [|d r [IH1 IH2]]; cbn [lead0 strip0].
  - split; [reflexivity | cbn; lia].
  - destruct (N.eqb_spec d 0) as [->|Hd].
    + split; [cbn [repeat app]; f_equal; exact IH1 | exact IH2].
    + split; [reflexivity | exact Hd].
Qed.

Lemma lead0_app z rest : hd 1%N rest <> 0%N -> lead0 (repeat 0%N z ++ rest) = z.
Proof.
  intros H. induction z as [|z IH]; cbn [repeat app lead0].
  - destruct rest as [|d r]; [reflexivity|]. cbn [lead0 hd] in *.
    destruct (N.eqb_spec d 0); [contradiction | reflexivity].
  - change (0 =? 0)%N with true. cbn iota. rewrite IH. reflexivity.
Qed.

Lemma hd_rev (l : list N) d : hd d (rev l) = last l d.
Proof.
  induction l as [|a l _] using rev_ind; [reflexivity|].
  rewrite rev_unit, last_last. reflexivity.
Qed.

Lemma repeat0_zero z : Forall (fun d => d = 0%N) (repeat 0%N z).
Proof. apply Forall_forall. intros x Hx. apply repeat_spec in Hx. exact Hx. Qed.

Lemma conv_split b1 b2 z rest :
  hd 1%N rest <> 0%N ->
  conv b1 b2 (repeat 0%N z ++ rest) = repeat 0%N z ++ rev (rdigits b2 (rval b1 (rev rest))).
Proof.
  intros H. unfold conv. rewrite (lead0_app _ _ H), rev_app_distr.
  rewrite rval_app_zeros by (apply Forall_rev, repeat0_zero). reflexivity.
Qed.

Lemma conv_small b1 b2 ds : (2 <= b2)%N -> small b2 (conv b1 b2 ds).
Proof.
  intros H2. unfold conv, small. apply Forall_app. split.
  - eapply Forall_impl; [|apply repeat0_zero]. cbn. intros a ->. lia.
  - apply Forall_rev. apply rdigits_small. exact H2.
Qed.

Theorem conv_conv b1 b2 ds :
  (2 <= b1)%N -> (2 <= b2)%N -> small b1 ds -> conv b2 b1 (conv b1 b2 ds) = ds.
Proof.
  intros H1 H2 Hs.
  destruct (lead0_strip0 ds) as [E Hh]. revert E Hs Hh.
  generalize (lead0 ds) as z, (strip0 ds) as rest. intros z rest -> Hs Hh.
  apply Forall_app in Hs as [_ Hs].
  rewrite (conv_split _ _ _ _ Hh).
  rewrite conv_split.
  - rewrite rev_involutive, rval_rdigits by exact H2.
    rewrite rdigits_rval; [rewrite rev_involutive; reflexivity | exact H1 | apply Forall_rev; exact Hs |].
    unfold normal. rewrite <- hd_rev, rev_involutive. exact Hh.
  - rewrite hd_rev. apply rdigits_normal. exact H2.
Qed.

(* ------------------------------------------------------------------ *)
(* The Bitcoin alphabet.                                               *)
Definition alphabet : string := "123456789ABCDEFGHJKLMNPQRSTUVWXYZabcdefghijkmnopqrstuvwxyz".

Fixpoint index_of (c : ascii) (s : string) (i : N) : option N :=
  match s with
  | EmptyString => None
  | String a r => if Ascii.eqb a c then Some i else index_of c r (N.succ i)
  end.

Definition digit58 (c : ascii) : option N := index_of c alphabet 0%N.
Definition char58 (d : N) : ascii :=
  match String.get (N.to_nat d) alphabet with Some c => c | None => "1"%char end.

Lemma digit58_char58 d : (d < 58)%N -> digit58 (char58 d) = Some d.
Proof.
  intros H. rewrite <- (N2Nat.id d).
  assert (Hn : (N.to_nat d < 58)%nat) by lia. revert Hn. generalize (N.to_nat d) as n. intros n Hn.
  do 58 (destruct n as [|n]; [vm_compute; reflexivity|]). lia.
Qed.

Lemma get_Some_lt s : forall k c, String.get k s = Some c -> (k < slength s)%nat.
Proof.
  induction s as [|a s IH]; intros k c H; [discriminate|].
  destruct k as [|k]; cbn [String.length]; [lia|]. cbn [String.get] in H. apply IH in H. lia.
Qed.

Lemma index_of_Some c s : forall i d,
  index_of c s i = Some d -> exists k, d = (i + N.of_nat k)%N /\ String.get k s = Some c.
Proof.
  induction s as [|a s IH]; intros i d H; [discriminate|].
  cbn [index_of] in H. destruct (Ascii.eqb_spec a c) as [->|Hac].
  - injection H as <-. exists 0%nat. split; [lia | reflexivity].
  - apply IH in H as (k & -> & G). exists (S k). split; [lia | exact G].
Qed.

Lemma char58_digit58 c d : digit58 c = Some d -> (d < 58)%N /\ char58 d = c.
Proof.
  intros H. apply index_of_Some in H as (k & -> & G).
  pose proof (get_Some_lt _ _ _ G) as L. change (slength alphabet) with 58%nat in L.
  split; [lia|]. unfold char58. replace (N.to_nat (0 + N.of_nat k)) with k by lia.
  rewrite G. reflexivity.
Qed.

(* digit 0 is exactly the character '1' *)
Lemma digit58_zero c : digit58 c = Some 0%N <-> c = "1"%char.
Proof.
  split.
  - intros H. apply char58_digit58 in H as [_ <-]. reflexivity.
  - intros ->. reflexivity.
Qed.

Fixpoint string_of_digits (ds : list N) : string :=
  match ds with
  | [] => EmptyString
  | d :: r => String (char58 d) (string_of_digits r)
  end.

Fixpoint digits_of_string (s : string) : option (list N) :=
  match s with
  | EmptyString => Some []
  | String c r =>
      match digit58 c, digits_of_string r with
      | Some d, Some ds => Some (d :: ds)
      | _, _ => None
      end
  end.

Lemma digits_of_string_of_digits ds : small 58 ds -> digits_of_string (string_of_digits ds) = Some ds.
Proof.
  induction 1 as [|d r Hd _ IH]; [reflexivity|].
  cbn [string_of_digits digits_of_string]. rewrite (digit58_char58 _ Hd), IH. reflexivity.
Qed.

Lemma string_of_digits_of_string s : forall ds,
  digits_of_string s = Some ds -> small 58 ds /\ string_of_digits ds = s.
Proof.
  induction s as [|c s IH]; intros ds H; cbn [digits_of_string] in H.
  - injection H as <-. split; [constructor | reflexivity].
  - destruct (digit58 c) as [d|] eqn:Ec; [|discriminate].
    destruct (digits_of_string s) as [r|]; [|discriminate].
    injection H as <-. destruct (IH r eq_refl) as [Hs Hr].
    apply char58_digit58 in Ec as [Hd Hc].
    split; [constructor; assumption|]. cbn [string_of_digits]. rewrite Hc, Hr. reflexivity.
Qed.

(* ------------------------------------------------------------------ *)
(* bs58::encode(..).into_string() / bs58::decode(..).into_vec()        *)
Definition b58_encode (bs : bytes) : string :=
  string_of_digits (conv 256 58 (map b2n bs)).

Definition b58_decode (s : string) : option bytes :=
  match digits_of_string s with
  | None => None
  | Some ds => Some (map n2b (conv 58 256 ds))
  end.

Lemma map_b2n_small bs : small 256 (map b2n bs).
Proof. unfold small. apply Forall_forall. intros x Hx. apply in_map_iff in Hx as (y & <- & _). apply b2n_lt. Qed.

Lemma map_n2b_b2n bs : map n2b (map b2n bs) = bs.
Proof. induction bs as [|x r IH]; cbn [map]; [reflexivity | rewrite n2b_b2n, IH; reflexivity]. Qed.

Lemma map_b2n_n2b ds : small 256 ds -> map b2n (map n2b ds) = ds.
Proof. induction 1 as [|d r Hd _ IH]; cbn [map]; [reflexivity | rewrite (b2n_n2b _ Hd), IH; reflexivity]. Qed.

Theorem b58_roundtrip : forall bs : bytes, b58_decode (b58_encode bs) = Some bs.
Proof.
  intros bs. unfold b58_decode, b58_encode.
  rewrite digits_of_string_of_digits by (apply conv_small; lia).
  rewrite conv_conv by (try lia; apply map_b2n_small).
  rewrite map_n2b_b2n. reflexivity.
Qed.

Corollary b58_encode_inj : forall a b, b58_encode a = b58_encode b -> a = b.
Proof.
  intros a b H. pose proof (b58_roundtrip a) as Ha. rewrite H, b58_roundtrip in Ha. congruence.
Qed.

(* canonicity: the only string that decodes to bs is b58_encode bs *)
Theorem b58_decode_encode : forall s bs, b58_decode s = Some bs -> b58_encode bs = s.
Proof.
  intros s bs H. unfold b58_decode in H.
  destruct (digits_of_string s) as [ds|] eqn:E; [|discriminate]. injection H as <-.
  apply string_of_digits_of_string in E as [Hs <-].
  unfold b58_encode. rewrite map_b2n_n2b by (apply conv_small; lia).
  rewrite conv_conv by (try lia; exact Hs). reflexivity.
Qed.

Corollary b58_decode_inj : forall s t bs, b58_decode s = Some bs -> b58_decode t = Some bs -> s = t.
Proof. intros s t bs Hs Ht. apply b58_decode_encode in Hs, Ht. congruence. Qed.

(* ------------------------------------------------------------------ *)
(* Readable characterisation of the two functions (the semantics stated at the top). *)
Lemma rval256_be_val bs : rval 256 (rev (map b2n bs)) = be_val bs.
Proof.
  unfold be_val. rewrite <- map_rev. generalize (rev bs) as l.
  induction l as [|x l IH]; cbn [map rval le_val]; [reflexivity | rewrite IH; reflexivity].
Qed.

Lemma b58_encode_spec bs :
  b58_encode bs =
  string_of_digits (repeat 0%N (lead0 (map b2n bs)) ++ rev (rdigits 58 (be_val bs))).
Proof. unfold b58_encode, conv. rewrite rval256_be_val. reflexivity. Qed.

Lemma b58_decode_spec s ds :
  digits_of_string s = Some ds ->
  b58_decode s = Some (zeros (lead0 ds) ++ map n2b (rev (rdigits 256 (rval 58 (rev ds))))).
Proof.
  intros H. unfold b58_decode, conv. rewrite H, map_app. do 2 f_equal.
  unfold zeros. induction (lead0 ds) as [|n IH]; cbn [repeat map]; [reflexivity | rewrite IH; reflexivity].
Qed.

Lemma b58_decode_invalid s : digits_of_string s = None -> b58_decode s = None.
Proof. intros H. unfold b58_decode. rewrite H. reflexivity. Qed.

(* ------------------------------------------------------------------ *)
(* Base58Check, parameterised by double SHA-256.                       *)
Section Check.
  Variable sha256d : bytes -> bytes.

  Definition b58check_encode (payload : bytes) : string :=
    b58_encode (payload ++ take 4 (sha256d payload)).

  Definition b58check_decode (s : string) : option bytes :=
    match b58_decode s with
    | None => None
    | Some bs =>
        if Nat.ltb (length bs) 4 then None
        else
          let n := (length bs - 4)%nat in
          let payload := take n bs in
          if bytes_eqb (drop n bs) (take 4 (sha256d payload)) then Some payload else None
    end.

  Theorem b58check_roundtrip p :
    (length (sha256d p) >= 4)%nat -> b58check_decode (b58check_encode p) = Some p.
  Proof.
    intros Hl. unfold b58check_decode, b58check_encode. rewrite b58_roundtrip.
    assert (Hc : length (take 4 (sha256d p)) = 4%nat) by (apply firstn_length_le; lia).
    rewrite app_length, Hc.
    replace (Nat.ltb (length p + 4) 4) with false by (symmetry; apply Nat.ltb_ge; lia).
    replace (length p + 4 - 4)%nat with (length p) by lia.
    remember (take 4 (sha256d p)) as c eqn:Ec.
    assert (Et : take (length p) (p ++ c) = p).
    { unfold take. rewrite firstn_app, Nat.sub_diag, firstn_all. cbn [firstn]. apply app_nil_r. }
    assert (Ed : drop (length p) (p ++ c) = c).
    { unfold drop. rewrite skipn_app, Nat.sub_diag, skipn_all. reflexivity. }
    cbv zeta. rewrite Et, Ed, <- Ec, bytes_eqb_refl. reflexivity.
  Qed.

  (* what a successful decode means *)
  Theorem b58check_decode_sound s p :
    b58check_decode s = Some p -> s = b58check_encode p.
  Proof.
    unfold b58check_decode, b58check_encode. intros H.
    destruct (b58_decode s) as [bs|] eqn:E; [|discriminate].
    destruct (Nat.ltb (length bs) 4); [discriminate|].
    destruct (bytes_eqb _ _) eqn:Eq; [|discriminate]. injection H as <-.
    apply bytes_eqb_eq in Eq. rewrite <- Eq. unfold take at 1, drop. rewrite firstn_skipn.
    symmetry. apply b58_decode_encode. exact E.
  Qed.
End Check.

(* ------------------------------------------------------------------ *)
(* Examples (expected values cross-checked with an independent python implementation). *)
Local Open Scope string_scope.

Example b58_ex_addr :
  b58_decode "1A1zP1eP5QGefi2DMPTfTL5SLmv7DivfNa"
  = bytes_of_hex "0062e907b15cbf27d5425399ebf6f0fb50ebb88f18c29b7d93".
Proof. vm_compute. reflexivity. Qed.
Example b58_ex_addr_enc :
  option_map b58_encode (bytes_of_hex "0062e907b15cbf27d5425399ebf6f0fb50ebb88f18c29b7d93")
  = Some "1A1zP1eP5QGefi2DMPTfTL5SLmv7DivfNa".
Proof. vm_compute. reflexivity. Qed.

Example b58_ex_zero_addr :
  b58_decode "1111111111111111111114oLvT2"
  = bytes_of_hex "00000000000000000000000000000000000000000094a00911".
Proof. vm_compute. reflexivity. Qed.
Example b58_ex_zero_addr_len :
  option_map (@length byte) (b58_decode "1111111111111111111114oLvT2") = Some 25%nat.
Proof. vm_compute. reflexivity. Qed.
Example b58_ex_zero_addr_enc :
  b58_encode (zeros 21 ++ [x94; xa0; x09; x11]) = "1111111111111111111114oLvT2".
Proof. vm_compute. reflexivity. Qed.

Example b58_ex_wif :
  b58_decode "5HueCGU8rMjxEXxiPuD5BDku4MkFqeZyd4dZ1jvhTVqvbTLvyTJ"
  = bytes_of_hex "800c28fca386c7a227600b2fe50b7cae11ec86d3bf1fbe471be89827e19d72aa1d507a5b8d".
Proof. vm_compute. reflexivity. Qed.
Example b58_ex_wif_enc :
  option_map b58_encode
    (bytes_of_hex "800c28fca386c7a227600b2fe50b7cae11ec86d3bf1fbe471be89827e19d72aa1d507a5b8d")
  = Some "5HueCGU8rMjxEXxiPuD5BDku4MkFqeZyd4dZ1jvhTVqvbTLvyTJ".
Proof. vm_compute. reflexivity. Qed.

Example b58_ex_dec_empty : b58_decode "" = Some [].
Proof. vm_compute. reflexivity. Qed.
Example b58_ex_dec_1 : b58_decode "1" = Some [x00].
Proof. vm_compute. reflexivity. Qed.
Example b58_ex_dec_112 : b58_decode "112" = Some [x00; x00; x01].
Proof. vm_compute. reflexivity. Qed.
Example b58_ex_dec_0 : b58_decode "0" = None.
Proof. vm_compute. reflexivity. Qed.
Example b58_ex_dec_O : b58_decode "O" = None.
Proof. vm_compute. reflexivity. Qed.
Example b58_ex_dec_I : b58_decode "I" = None.
Proof. vm_compute. reflexivity. Qed.
Example b58_ex_dec_l : b58_decode "l" = None.
Proof. vm_compute. reflexivity. Qed.
Example b58_ex_dec_space : b58_decode "1A 2" = None.
Proof. vm_compute. reflexivity. Qed.
Example b58_ex_dec_bad_tail : b58_decode "1A1zP1eP5QGefi2DMPTfTL5SLmv7DivfN0" = None.
Proof. vm_compute. reflexivity. Qed.
(* non-ASCII: the two UTF-8 bytes C3 A9 of e-acute, and a lone byte 0x80 *)
Example b58_ex_dec_nonascii :
  b58_decode (String "2" (String (ascii_of_N 195) (String (ascii_of_N 169) "3"))) = None.
Proof. vm_compute. reflexivity. Qed.
Example b58_ex_dec_nonascii_lit : b58_decode "2é3" = None /\ slength "2é3" = 4%nat.
Proof. vm_compute. split; reflexivity. Qed.
Example b58_ex_dec_nonascii2 : b58_decode (String (ascii_of_N 128) "") = None.
Proof. vm_compute. reflexivity. Qed.

Example b58_ex_enc_empty : b58_encode [] = "".
Proof. vm_compute. reflexivity. Qed.
Example b58_ex_enc_00 : b58_encode [x00] = "1".
Proof. vm_compute. reflexivity. Qed.
Example b58_ex_enc_000001 : b58_encode [x00; x00; x01] = "112".
Proof. vm_compute. reflexivity. Qed.
Example b58_ex_enc_ff : b58_encode [xff] = "5Q".
Proof. vm_compute. reflexivity. Qed.

Example b58_ex_enc_ff120 :
  b58_encode (repeat xff 120)
  = "cV5GFKqAEHzMpSVgxZNfnSshMAWUKwrMGf7BnfGWecLnGSp8Cn8oe2cL1MVVzKbcBrcupnZxW6KLJ2w3TekHrEkszJr9VVSdZ6yMmEH7RNgR4M1jkykBM6M5hKjdDCZw2rGU8b5inXoL2kQswFLG9XCHYBS9vSGcmY7Q".
Proof. vm_compute. reflexivity. Qed.

Time Eval vm_compute in b58_encode (repeat xff 120).
Time Eval vm_compute in
  option_map hex_of_bytes (b58_decode (b58_encode (repeat xff 120))).

Print Assumptions b58_roundtrip.
Print Assumptions b58_encode_inj.
Print Assumptions b58_decode_encode.
Print Assumptions b58check_roundtrip.
Print Assumptions b58check_decode_sound.
