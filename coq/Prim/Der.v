(* Prim/Der.v — strict DER for ECDSA signatures  SEQUENCE { INTEGER r, INTEGER s }
   over secp256k1, as encoded and parsed by the Rust crates ecdsa 0.13.4 / der 0.5.1 /
   k256 0.10.4 (`ecdsa::der::Signature::try_from(&[u8])`, `der::asn1::UIntBytes`,
   `der::Length::decode`, `k256::ecdsa::Signature::try_from`).

   Accepted language:
     30 L 02 Lr R.. 02 Ls S..      (nothing after)
   L = Lr + Ls + 4 = remaining input length, every length a single byte < 0x80
   (long forms are only accepted by `der` when minimal, i.e. >= 0x80, which is impossible
   with two integers of at most 33 content bytes), R and S minimal positive two's-complement
   big-endian integers of magnitude at most 32 bytes.
   [der_parse] is the DER layer (zero and everything below 2^256 accepted),
   [der_decode] adds the scalar range rule 1 <= v < n of k256.

   Plain stdlib style; no axioms. *)
From BSV Require Import Base.Bytes Base.Hex.

(* ------------------------------------------------------------------ *)
(* The group order. Local copy so that the file stands alone; Prim/Secp256k1.v has the
   same literal as [secp_n] (der_n = secp_n holds by reflexivity).      *)
Definition der_n : Z :=
  0xFFFFFFFFFFFFFFFFFFFFFFFFFFFFFFFEBAAEDCE6AF48A03BBFD25E8CD0364141%Z.

Definition der_range (v : Z) : bool := (1 <=? v)%Z && (v <? der_n)%Z.

(* ------------------------------------------------------------------ *)
(* Minimal big-endian magnitude.                                       *)
Local Open Scope N_scope.

(* drop leading zero bytes *)
Fixpoint strip0 (l : bytes) : bytes :=
  match l with
  | [] => []
  | b :: r => if b2n b =? 0 then strip0 r else l
  end.

(* no leading zero byte *)
Definition nlz (l : bytes) : Prop :=
  match l with [] => True | b :: _ => b2n b <> 0 end.

(* big-endian bytes of v without leading zero byte; [] for 0.
   N.size v (the bit length) is a generous byte width. *)
Definition min_be (v : N) : bytes := strip0 (be_bytes (N.to_nat (N.size v)) v).

(* ------------------------------------------------------------------ *)
(* Encoder.                                                            *)

(* content octets of a non-negative INTEGER *)
Definition int_content (v : N) : bytes :=
  match min_be v with
  | [] => [x00]
  | b :: r => if 128 <=? b2n b then x00 :: b :: r else b :: r
  end.

Definition der_int_n (v : N) : bytes :=
  let c := int_content v in x02 :: n2b (N.of_nat (length c)) :: c.

(* 02 len [00] magnitude *)
Definition der_int (v : Z) : bytes := der_int_n (Z.to_N v).

Definition der_encode (r s : Z) : bytes :=
  let body := der_int r ++ der_int s in
  x30 :: n2b (N.of_nat (length body)) :: body.

(* ------------------------------------------------------------------ *)
(* Parser.                                                             *)

(* der::Length::decode restricted to what can succeed here: short form only *)
Definition short_len (b : byte) : option nat :=
  if b2n b <? 128 then Some (N.to_nat (b2n b)) else None.

(* der::asn1::integer::uint::decode_to_slice *)
Definition uint_strip (c : bytes) : option bytes :=
  match c with
  | [] => None
  | b0 :: rest =>
      if b2n b0 =? 0 then
        match rest with
        | [] => Some c
        | b1 :: _ => if b2n b1 <? 128 then None else Some rest
        end
      else if 128 <=? b2n b0 then None else Some c
  end.

(* one INTEGER: tag, short length, content, canonical-positive check, <= 32 magnitude bytes *)
Definition parse_int (bs : bytes) : option (N * bytes) :=
  match bs with
  | t :: l :: rest =>
      if negb (b2n t =? 2) then None else
      match short_len l with
      | None => None
      | Some n =>
          match read_exact n rest with
          | None => None
          | Some (c, rest') =>
              match uint_strip c with
              | None => None
              | Some m => if Nat.leb (length m) 32 then Some (be_val m, rest') else None
              end
          end
      end
  | _ => None
  end.

Definition der_parse (bs : bytes) : option (Z * Z) :=
  match bs with
  | t :: l :: body =>
      if negb (b2n t =? 48) then None else
      match short_len l with
      | None => None
      | Some n =>
          if negb (Nat.eqb n (length body)) then None else
          match parse_int body with
          | None => None
          | Some (r, rest) =>
              match parse_int rest with
              | None => None
              | Some (s, rest') =>
                  match rest' with
                  | [] => Some (Z.of_N r, Z.of_N s)
                  | _ :: _ => None
                  end
              end
          end
      end
  | _ => None
  end.

Definition der_decode (bs : bytes) : option (Z * Z) :=
  match der_parse bs with
  | Some (r, s) => if der_range r && der_range s then Some (r, s) else None
  | None => None
  end.

(* ------------------------------------------------------------------ *)
(* Big-endian value lemmas.                                            *)

Lemma le_val_app a b :
  le_val (a ++ b) = le_val a + 256 ^ N.of_nat (length a) * le_val b.
Proof.
  induction a as [|x a IH]; cbn [app le_val length].
  - change (N.of_nat 0) with 0. rewrite N.pow_0_r. lia.
  - rewrite IH, Nat2N.inj_succ, N.pow_succ_r'. lia.
Qed.

Lemma be_val_nil : be_val [] = 0.
Proof. reflexivity. Qed.

Lemma be_val_cons b l :
  be_val (b :: l) = b2n b * 256 ^ N.of_nat (length l) + be_val l.
Proof.
  unfold be_val. cbn [rev]. rewrite le_val_app, rev_length. cbn [le_val]. lia.
Qed.

Lemma be_val_bound l : be_val l < 256 ^ N.of_nat (length l).
Proof. unfold be_val. rewrite <- (rev_length l). apply le_val_bound. Qed.

Lemma be_val_be_bytes k v : v < 256 ^ N.of_nat k -> be_val (be_bytes k v) = v.
Proof.
  intros H. unfold be_val, be_bytes. rewrite rev_involutive.
  apply le_val_le_bytes_small; exact H.
Qed.

Lemma be_bytes_be_val l : be_bytes (length l) (be_val l) = l.
Proof.
  unfold be_val, be_bytes. rewrite <- (rev_length l), le_bytes_le_val.
  apply rev_involutive.
Qed.

Lemma be_bytes_length k v : length (be_bytes k v) = k.
Proof. unfold be_bytes. rewrite rev_length. apply le_bytes_length. Qed.

Lemma strip0_nlz l : nlz (strip0 l).
Proof.
  induction l as [|b r IH]; cbn [strip0]; [exact I|].
  destruct (N.eqb_spec (b2n b) 0) as [E|E]; [exact IH | exact E].
Qed.

Lemma be_val_strip0 l : be_val (strip0 l) = be_val l.
Proof.
  induction l as [|b r IH]; cbn [strip0]; [reflexivity|].
  destruct (N.eqb_spec (b2n b) 0) as [E|E]; [|reflexivity].
  rewrite be_val_cons, E, IH. lia.
Qed.

Lemma strip0_length l : (length (strip0 l) <= length l)%nat.
Proof.
  induction l as [|b r IH]; cbn [strip0]; [lia|].
  destruct (b2n b =? 0); cbn [length]; lia.
Qed.

Lemma be_val_min_be v : be_val (min_be v) = v.
Proof.
  unfold min_be. rewrite be_val_strip0. apply be_val_be_bytes.
  rewrite N2Nat.id. pose proof (N.size_gt v) as H.
  assert (H2 : 2 ^ N.size v <= 256 ^ N.size v) by (apply N.pow_le_mono_l; lia).
  lia.
Qed.

Lemma min_be_nlz v : nlz (min_be v).
Proof. apply strip0_nlz. Qed.

Lemma nlz_lower l : nlz l -> l <> [] -> 256 ^ (N.of_nat (length l) - 1) <= be_val l.
Proof.
  destruct l as [|b r]; [congruence|]. intros H _. cbn [nlz] in H.
  rewrite be_val_cons. cbn [length]. rewrite Nat2N.inj_succ.
  replace (N.succ (N.of_nat (length r)) - 1) with (N.of_nat (length r)) by lia.
  assert (H1 : 1 * 256 ^ N.of_nat (length r) <= b2n b * 256 ^ N.of_nat (length r))
    by (apply N.mul_le_mono_r; lia).
  lia.
Qed.

Lemma nlz_length_le a b :
  nlz a -> be_val a = be_val b -> (length a <= length b)%nat.
Proof.
  intros Ha E.
  destruct (Nat.le_gt_cases (length a) (length b)) as [L|L]; [exact L|exfalso].
  assert (Hne : a <> []) by (intros ->; cbn [length] in L; lia).
  pose proof (nlz_lower a Ha Hne) as H1.
  pose proof (be_val_bound b) as H2.
  assert (H3 : 256 ^ N.of_nat (length b) <= 256 ^ (N.of_nat (length a) - 1))
    by (apply N.pow_le_mono_r; lia).
  lia.
Qed.

(* two byte strings without leading zero and with the same value are equal *)
Lemma be_val_inj_nlz a b : nlz a -> nlz b -> be_val a = be_val b -> a = b.
Proof.
  intros Ha Hb E.
  assert (L : length a = length b).
  { apply Nat.le_antisymm; [apply nlz_length_le | apply nlz_length_le]; auto. }
  rewrite <- (be_bytes_be_val a), <- (be_bytes_be_val b), L, E. reflexivity.
Qed.

Lemma min_be_be_val l : nlz l -> min_be (be_val l) = l.
Proof.
  intros H. apply be_val_inj_nlz; [apply min_be_nlz | exact H | apply be_val_min_be].
Qed.

Lemma min_be_0 : min_be 0 = [].
Proof. reflexivity. Qed.

Lemma min_be_nil_iff v : min_be v = [] <-> v = 0.
Proof.
  split; intros H.
  - rewrite <- (be_val_min_be v), H. reflexivity.
  - subst v. reflexivity.
Qed.

Lemma pow256_32 : 256 ^ 32 = 2 ^ 256.
Proof. vm_compute. reflexivity. Qed.

Lemma min_be_length_256 v : (length (min_be v) <= 32)%nat <-> v < 256 ^ 32.
Proof.
  split; intros H.
  - pose proof (be_val_bound (min_be v)) as B. rewrite be_val_min_be in B.
    assert (H2 : 256 ^ N.of_nat (length (min_be v)) <= 256 ^ 32)
      by (apply N.pow_le_mono_r; lia).
    lia.
  - destruct (Nat.le_gt_cases (length (min_be v)) 32) as [L|L]; [exact L|exfalso].
    assert (Hne : min_be v <> []) by (intros E; rewrite E in L; cbn [length] in L; lia).
    pose proof (nlz_lower _ (min_be_nlz v) Hne) as H1. rewrite be_val_min_be in H1.
    assert (H3 : 256 ^ 32 <= 256 ^ (N.of_nat (length (min_be v)) - 1))
      by (apply N.pow_le_mono_r; lia).
    lia.
Qed.

Lemma min_be_length v : (length (min_be v) <= 32)%nat <-> v < 2 ^ 256.
Proof. rewrite <- pow256_32. apply min_be_length_256. Qed.

(* ------------------------------------------------------------------ *)
(* INTEGER content: encoder against parser.                            *)

Lemma b2n_0_iff b : b2n b = 0 <-> b = x00.
Proof.
  split; intros H; [|subst; reflexivity].
  apply b2n_inj. rewrite H. reflexivity.
Qed.

Lemma int_content_length v :
  v < 256 ^ 32 -> (1 <= length (int_content v) <= 33)%nat.
Proof.
  intros H. apply min_be_length_256 in H. unfold int_content.
  destruct (min_be v) as [|b r]; [cbn [length]; lia|].
  destruct (128 <=? b2n b); cbn [length] in *; lia.
Qed.

Lemma uint_strip_int_content v :
  exists m, uint_strip (int_content v) = Some m /\ be_val m = v /\
            (v < 256 ^ 32 -> (length m <= 32)%nat).
Proof.
  pose proof (be_val_min_be v) as Hv. pose proof (min_be_nlz v) as Hz.
  pose proof (proj2 (min_be_length_256 v)) as Hl.
  unfold int_content. destruct (min_be v) as [|b r] eqn:E.
  - exists [x00]. cbn [uint_strip]. change (b2n x00 =? 0) with true. cbn iota.
    repeat split.
    + rewrite <- Hv. reflexivity.
    + intros _. cbn [length]. lia.
  - cbn [nlz] in Hz. destruct (N.leb_spec 128 (b2n b)) as [G|G].
    + exists (b :: r). cbn [uint_strip]. change (b2n x00 =? 0) with true. cbn iota.
      destruct (N.ltb_spec (b2n b) 128) as [G'|G']; [lia|].
      repeat split; assumption.
    + exists (b :: r). cbn [uint_strip].
      destruct (N.eqb_spec (b2n b) 0) as [G'|G']; [contradiction|].
      destruct (N.leb_spec 128 (b2n b)) as [G''|G'']; [lia|].
      repeat split; assumption.
Qed.

Lemma uint_strip_exact c m :
  uint_strip c = Some m -> c = int_content (be_val m).
Proof.
  destruct c as [|b0 rest]; cbn [uint_strip]; [discriminate|].
  destruct (N.eqb_spec (b2n b0) 0) as [E0|E0].
  - apply b2n_0_iff in E0. subst b0. destruct rest as [|b1 r].
    + intros H; inversion H; subst. reflexivity.
    + destruct (N.ltb_spec (b2n b1) 128) as [G|G]; [discriminate|].
      intros H; inversion H; subst. unfold int_content.
      rewrite min_be_be_val by (cbn [nlz]; lia).
      destruct (N.leb_spec 128 (b2n b1)) as [G'|G']; [reflexivity|lia].
  - destruct (N.leb_spec 128 (b2n b0)) as [G|G]; [discriminate|].
    intros H; inversion H; subst. unfold int_content.
    rewrite min_be_be_val by (cbn [nlz]; exact E0).
    destruct (N.leb_spec 128 (b2n b0)) as [G'|G']; [lia|reflexivity].
Qed.

Lemma short_len_n2b k : (k < 128)%nat -> short_len (n2b (N.of_nat k)) = Some k.
Proof.
  intros H. unfold short_len. rewrite b2n_n2b by lia.
  destruct (N.ltb_spec (N.of_nat k) 128) as [G|G]; [|lia].
  rewrite Nat2N.id. reflexivity.
Qed.

Lemma short_len_spec l k : short_len l = Some k -> l = n2b (N.of_nat k) /\ (k < 128)%nat.
Proof.
  unfold short_len. destruct (N.ltb_spec (b2n l) 128) as [G|G]; [|discriminate].
  intros H; inversion H; subst. rewrite N2Nat.id, n2b_b2n. split; [reflexivity|lia].
Qed.

Lemma der_int_n_length v :
  v < 256 ^ 32 -> (3 <= length (der_int_n v) <= 35)%nat.
Proof.
  intros H. apply int_content_length in H. unfold der_int_n. cbn [length]. lia.
Qed.

Lemma parse_int_der_int_n v t :
  v < 256 ^ 32 -> parse_int (der_int_n v ++ t) = Some (v, t).
Proof.
  intros H. pose proof (int_content_length v H) as L.
  destruct (uint_strip_int_content v) as (m & Hm & Hv & Hl).
  unfold der_int_n. cbn [app parse_int].
  change (b2n x02 =? 2) with true. cbn [negb].
  rewrite short_len_n2b by lia.
  rewrite read_exact_app by reflexivity.
  rewrite Hm.
  replace (Nat.leb (length m) 32) with true by (symmetry; apply Nat.leb_le; auto).
  rewrite Hv. reflexivity.
Qed.

Lemma parse_int_exact bs v t :
  parse_int bs = Some (v, t) -> bs = der_int_n v ++ t /\ v < 256 ^ 32.
Proof.
  destruct bs as [|tg [|l rest]]; cbn [parse_int]; try discriminate.
  destruct (N.eqb_spec (b2n tg) 2) as [Et|Et]; cbn [negb]; [|discriminate].
  destruct (short_len l) as [k|] eqn:El; [|discriminate].
  destruct (read_exact k rest) as [[c rest']|] eqn:Er; [|discriminate].
  destruct (uint_strip c) as [m|] eqn:Em; [|discriminate].
  destruct (Nat.leb (length m) 32) eqn:Eb; [|discriminate].
  intros H; inversion H; subst v t; clear H.
  apply short_len_spec in El. destruct El as [-> Hk].
  apply read_exact_spec in Er. destruct Er as [-> Hc].
  apply uint_strip_exact in Em. apply Nat.leb_le in Eb.
  assert (tg = x02) as -> by (apply b2n_inj; rewrite Et; reflexivity).
  split.
  - unfold der_int_n. rewrite <- Em, Hc. reflexivity.
  - pose proof (be_val_bound m) as B.
    assert (H2 : 256 ^ N.of_nat (length m) <= 256 ^ 32) by (apply N.pow_le_mono_r; lia).
    lia.
Qed.

(* ------------------------------------------------------------------ *)
(* DER layer theorems (in N, then in Z).                               *)

Definition der_encode_n (r s : N) : bytes :=
  let body := der_int_n r ++ der_int_n s in
  x30 :: n2b (N.of_nat (length body)) :: body.

Lemma der_encode_n_eq r s : der_encode (Z.of_N r) (Z.of_N s) = der_encode_n r s.
Proof. unfold der_encode, der_int. rewrite !N2Z.id. reflexivity. Qed.

Lemma der_encode_eq r s : der_encode r s = der_encode_n (Z.to_N r) (Z.to_N s).
Proof. reflexivity. Qed.

Lemma der_encode_n_length r s :
  r < 256 ^ 32 -> s < 256 ^ 32 -> (8 <= length (der_encode_n r s) <= 72)%nat.
Proof.
  intros Hr Hs. apply der_int_n_length in Hr, Hs.
  unfold der_encode_n. cbn [length]. rewrite app_length. lia.
Qed.

Lemma der_parse_encode_n r s :
  r < 256 ^ 32 -> s < 256 ^ 32 -> der_parse (der_encode_n r s) = Some (Z.of_N r, Z.of_N s).
Proof.
  intros Hr Hs.
  pose proof (der_int_n_length r Hr) as Lr. pose proof (der_int_n_length s Hs) as Ls.
  unfold der_encode_n. cbn [der_parse].
  change (b2n x30 =? 48) with true. cbn [negb].
  rewrite short_len_n2b by (rewrite app_length; lia).
  rewrite Nat.eqb_refl. cbn [negb].
  rewrite parse_int_der_int_n by exact Hr.
  rewrite <- (app_nil_r (der_int_n s)).
  rewrite parse_int_der_int_n by exact Hs.
  reflexivity.
Qed.

Lemma der_parse_exact_n bs r s :
  der_parse bs = Some (r, s) ->
  exists rn sn, r = Z.of_N rn /\ s = Z.of_N sn /\ rn < 256 ^ 32 /\ sn < 256 ^ 32 /\
                bs = der_encode_n rn sn.
Proof.
  destruct bs as [|tg [|l body]]; cbn [der_parse]; try discriminate.
  destruct (N.eqb_spec (b2n tg) 48) as [Et|Et]; cbn [negb]; [|discriminate].
  destruct (short_len l) as [k|] eqn:El; [|discriminate].
  destruct (Nat.eqb_spec k (length body)) as [Ek|Ek]; cbn [negb]; [|discriminate].
  destruct (parse_int body) as [[rn rest]|] eqn:E1; [|discriminate].
  destruct (parse_int rest) as [[sn rest']|] eqn:E2; [|discriminate].
  destruct rest' as [|? ?]; [|discriminate].
  intros H; inversion H; subst r s; clear H.
  apply parse_int_exact in E1. destruct E1 as [-> Hr].
  apply parse_int_exact in E2. destruct E2 as [-> Hs].
  rewrite app_nil_r in *.
  apply short_len_spec in El. destruct El as [-> _].
  assert (tg = x30) as -> by (apply b2n_inj; rewrite Et; reflexivity).
  exists rn, sn. repeat split; try assumption.
  unfold der_encode_n. rewrite Ek. reflexivity.
Qed.

Local Close Scope N_scope.
Local Open Scope Z_scope.

Lemma Z_to_N_lt_256_32 v : 0 <= v < 2 ^ 256 -> (Z.to_N v < 256 ^ 32)%N.
Proof.
  intros H. rewrite pow256_32.
  assert (E : Z.of_N (2 ^ 256)%N = 2 ^ 256) by (vm_compute; reflexivity).
  lia.
Qed.

Lemma Z_of_N_lt_256_32 v : (v < 256 ^ 32)%N -> 0 <= Z.of_N v < 2 ^ 256.
Proof.
  rewrite pow256_32. intros H.
  assert (E : Z.of_N (2 ^ 256)%N = 2 ^ 256) by (vm_compute; reflexivity).
  lia.
Qed.

(* DER layer: encode then parse *)
Theorem der_parse_roundtrip r s :
  0 <= r < 2 ^ 256 -> 0 <= s < 2 ^ 256 -> der_parse (der_encode r s) = Some (r, s).
Proof.
  intros Hr Hs. rewrite der_encode_eq.
  rewrite der_parse_encode_n by (apply Z_to_N_lt_256_32; assumption).
  rewrite !Z2N.id by lia. reflexivity.
Qed.

(* DER layer: canonicity *)
Theorem der_parse_exact bs r s : der_parse bs = Some (r, s) -> bs = der_encode r s.
Proof.
  intros H. apply der_parse_exact_n in H.
  destruct H as (rn & sn & -> & -> & _ & _ & ->). symmetry. apply der_encode_n_eq.
Qed.

Theorem der_parse_range bs r s :
  der_parse bs = Some (r, s) -> 0 <= r < 2 ^ 256 /\ 0 <= s < 2 ^ 256.
Proof.
  intros H. apply der_parse_exact_n in H.
  destruct H as (rn & sn & -> & -> & Hr & Hs & _).
  split; apply Z_of_N_lt_256_32; assumption.
Qed.

Theorem der_parse_encode_length r s :
  0 <= r < 2 ^ 256 -> 0 <= s < 2 ^ 256 -> (8 <= length (der_encode r s) <= 72)%nat.
Proof.
  intros Hr Hs. rewrite der_encode_eq.
  apply der_encode_n_length; apply Z_to_N_lt_256_32; assumption.
Qed.

Theorem der_parse_app_nonempty bs rs :
  der_parse bs = Some rs -> forall t, t <> [] -> der_parse (bs ++ t) = None.
Proof.
  intros H t Ht.
  destruct bs as [|tg [|l body]]; cbn [der_parse] in H; try discriminate.
  cbn [app der_parse].
  destruct (negb (b2n tg =? 48)%N); [reflexivity|].
  destruct (short_len l) as [k|]; [|reflexivity].
  destruct (Nat.eqb_spec k (length body)) as [Ek|Ek]; cbn [negb] in H; [|discriminate].
  destruct (Nat.eqb_spec k (length (body ++ t))) as [Ek'|Ek']; cbn [negb]; [|reflexivity].
  exfalso. rewrite app_length in Ek'. destruct t; [congruence|cbn [length] in Ek'; lia].
Qed.

(* ------------------------------------------------------------------ *)
(* With the scalar range rule.                                         *)

Lemma der_range_spec v : der_range v = true <-> 1 <= v < der_n.
Proof. unfold der_range. rewrite andb_true_iff, Z.leb_le, Z.ltb_lt. tauto. Qed.

Lemma der_n_lt : der_n < 2 ^ 256.
Proof. vm_compute. reflexivity. Qed.

Lemma der_decode_parse bs r s :
  der_decode bs = Some (r, s) <->
  der_parse bs = Some (r, s) /\ 1 <= r < der_n /\ 1 <= s < der_n.
Proof.
  unfold der_decode. destruct (der_parse bs) as [[r' s']|].
  - destruct (der_range r' && der_range s') eqn:E.
    + apply andb_true_iff in E. rewrite !der_range_spec in E. split.
      * intros H; inversion H; subst. tauto.
      * intros [H _]. exact H.
    + split; [discriminate|]. intros (H & Hr & Hs). inversion H; subst.
      apply der_range_spec in Hr, Hs. rewrite Hr, Hs in E. discriminate.
  - split; [discriminate|]. intros [H _]. discriminate.
Qed.

Theorem der_roundtrip r s :
  1 <= r < der_n -> 1 <= s < der_n -> der_decode (der_encode r s) = Some (r, s).
Proof.
  intros Hr Hs. pose proof der_n_lt. apply der_decode_parse. repeat split; try lia.
  apply der_parse_roundtrip; lia.
Qed.

Theorem der_exact bs r s : der_decode bs = Some (r, s) -> bs = der_encode r s.
Proof. intros H. apply der_decode_parse in H. apply der_parse_exact. tauto. Qed.

Theorem der_decode_range bs r s :
  der_decode bs = Some (r, s) -> 1 <= r < der_n /\ 1 <= s < der_n.
Proof. intros H. apply der_decode_parse in H. tauto. Qed.

Theorem der_decode_app_nonempty bs rs :
  der_decode bs = Some rs -> forall t, t <> [] -> der_decode (bs ++ t) = None.
Proof.
  intros H t Ht. unfold der_decode in *.
  destruct (der_parse bs) as [rs'|] eqn:E; [|discriminate].
  rewrite (der_parse_app_nonempty _ _ E t Ht). reflexivity.
Qed.

Theorem der_encode_length r s :
  1 <= r < der_n -> 1 <= s < der_n -> (8 <= length (der_encode r s) <= 72)%nat.
Proof.
  intros Hr Hs. pose proof der_n_lt. apply der_parse_encode_length; lia.
Qed.

(* encoding is injective on the valid range *)
Theorem der_encode_inj r s r' s' :
  0 <= r < 2 ^ 256 -> 0 <= s < 2 ^ 256 -> 0 <= r' < 2 ^ 256 -> 0 <= s' < 2 ^ 256 ->
  der_encode r s = der_encode r' s' -> r = r' /\ s = s'.
Proof.
  intros Hr Hs Hr' Hs' E.
  pose proof (der_parse_roundtrip r s Hr Hs) as P.
  rewrite E, der_parse_roundtrip in P by assumption.
  inversion P; auto.
Qed.

(* ------------------------------------------------------------------ *)
(* Examples.                                                           *)
Definition hx (s : string) : bytes :=
  match bytes_of_hex s with Some b => b | None => [] end.

Definition ex_r : Z := 0x934b1ea10a4b3c1757e2b0c017d0b6143ce3c9a7e6a4a49860d7a6ab210ee3d8.
Definition ex_s : Z := 0x2442ce9d2b916064108014783e923ec36b49743e2ffa1c4496f01a512aafd9e5.
Definition ex_sig : bytes :=
  hx ("3045022100934b1ea10a4b3c1757e2b0c017d0b6143ce3c9a7e6a4a49860d7a6ab210ee3d8" +++
      "02202442ce9d2b916064108014783e923ec36b49743e2ffa1c4496f01a512aafd9e5").

(* r has its top bit set: 00 prefix, length 0x21; total 0x45 *)
Example ex_encode : der_encode ex_r ex_s = ex_sig.
Proof. vm_compute. reflexivity. Qed.
Example ex_decode : der_decode ex_sig = Some (ex_r, ex_s).
Proof. vm_compute. reflexivity. Qed.
Example ex_sig_length : length ex_sig = 71%nat.
Proof. vm_compute. reflexivity. Qed.

Example ex_small : der_encode 1 1 = hx "3006020101020101".
Proof. vm_compute. reflexivity. Qed.
Example ex_small_decode : der_decode (hx "3006020101020101") = Some (1, 1).
Proof. vm_compute. reflexivity. Qed.
Example ex_int_80 : der_int 0x80 = hx "02020080".
Proof. vm_compute. reflexivity. Qed.
Example ex_int_7f : der_int 0x7f = hx "02017f".
Proof. vm_compute. reflexivity. Qed.
Example ex_int_0 : der_int 0 = hx "020100".
Proof. vm_compute. reflexivity. Qed.
Example ex_int_100 : der_int 0x100 = hx "02020100".
Proof. vm_compute. reflexivity. Qed.
(* the extreme lengths: 8 and 72 *)
Example ex_max_length : length (der_encode (der_n - 1) (der_n - 1)) = 72%nat.
Proof. vm_compute. reflexivity. Qed.
Example ex_max_decode :
  der_decode (der_encode (der_n - 1) (der_n - 1)) = Some (der_n - 1, der_n - 1).
Proof. vm_compute. reflexivity. Qed.
(* 2^255 - 1: 32 content bytes, no 00 prefix *)
Example ex_no_prefix : length (der_int (2 ^ 255 - 1)) = 34%nat /\ length (der_int (2 ^ 255)) = 35%nat.
Proof. vm_compute. split; reflexivity. Qed.

(* rejections *)
Example rej_trailing : der_decode (ex_sig ++ [x00]) = None /\ der_parse (ex_sig ++ [x00]) = None.
Proof. vm_compute. split; reflexivity. Qed.
Example rej_trailing_inside :   (* sequence length covers a stray byte after s *)
  der_parse (hx "300702010102010100") = None.
Proof. vm_compute. reflexivity. Qed.
Example rej_trailing_outside : der_parse (hx "300602010102010100") = None.
Proof. vm_compute. reflexivity. Qed.
Example rej_nonminimal : der_parse (hx "300702020001020101") = None.
Proof. vm_compute. reflexivity. Qed.
Example rej_nonminimal_00 : der_parse (hx "300702020000020101") = None.
Proof. vm_compute. reflexivity. Qed.
Example rej_nonminimal_0000_80 : der_parse (hx "30080203000080020101") = None.
Proof. vm_compute. reflexivity. Qed.
Example rej_negative : der_parse (hx "3006020181020101") = None.
Proof. vm_compute. reflexivity. Qed.
Example rej_negative_s : der_parse (hx "30060201010201ff") = None.
Proof. vm_compute. reflexivity. Qed.
Example rej_empty_int : der_parse (hx "30050200020101") = None.
Proof. vm_compute. reflexivity. Qed.
Example zero_parse : der_parse (hx "3006020100020101") = Some (0, 1).
Proof. vm_compute. reflexivity. Qed.
Example rej_zero : der_decode (hx "3006020100020101") = None.
Proof. vm_compute. reflexivity. Qed.
Example rej_zero_s : der_decode (hx "3006020101020100") = None.
Proof. vm_compute. reflexivity. Qed.
Example order_parse : der_parse (der_encode der_n 1) = Some (der_n, 1).
Proof. vm_compute. reflexivity. Qed.
Example rej_order : der_decode (der_encode der_n 1) = None.
Proof. vm_compute. reflexivity. Qed.
Example rej_order_s : der_decode (der_encode 1 der_n) = None.
Proof. vm_compute. reflexivity. Qed.
Example max_parse : der_parse (der_encode (2 ^ 256 - 1) 1) = Some (2 ^ 256 - 1, 1).
Proof. vm_compute. reflexivity. Qed.
Example rej_33_bytes :            (* 02 21 01 00..00 : magnitude of 33 bytes *)
  der_parse (der_encode (2 ^ 256) 1) = None.
Proof. vm_compute. reflexivity. Qed.
Example rej_33_bytes_prefixed :   (* 02 22 00 80 00..00 : 00 prefix + magnitude of 33 bytes *)
  der_int (2 ^ 263) = hx "02220080" ++ zeros 32 /\ der_parse (der_encode (2 ^ 263) 1) = None.
Proof. vm_compute. split; reflexivity. Qed.
Example rej_long_form : der_parse (hx "308106020101020101") = None.
Proof. vm_compute. reflexivity. Qed.
Example rej_long_form_int : der_parse (hx "300702810101020101") = None.
Proof. vm_compute. reflexivity. Qed.
Example rej_indefinite : der_parse (hx "30800201010201010000") = None.
Proof. vm_compute. reflexivity. Qed.
Example rej_truncated : der_parse (hx "30060201010201") = None.
Proof. vm_compute. reflexivity. Qed.
Example rej_truncated_all :
  forallb (fun k => match der_parse (firstn k ex_sig) with None => true | Some _ => false end)
          (seq 0 71) = true.
Proof. vm_compute. reflexivity. Qed.
Example rej_tag_only : der_parse (hx "30") = None.
Proof. vm_compute. reflexivity. Qed.
Example rej_empty : der_parse [] = None /\ der_decode [] = None.
Proof. vm_compute. split; reflexivity. Qed.
Example rej_seq_tag : der_parse (hx "3106020101020101") = None.
Proof. vm_compute. reflexivity. Qed.
Example rej_r_tag : der_parse (hx "3006030101020101") = None.
Proof. vm_compute. reflexivity. Qed.
Example rej_s_tag : der_parse (hx "3006020101040101") = None.
Proof. vm_compute. reflexivity. Qed.
Example rej_seq_len_short : der_parse (hx "3005020101020101") = None.
Proof. vm_compute. reflexivity. Qed.
Example rej_seq_len_long : der_parse (hx "3007020101020101") = None.
Proof. vm_compute. reflexivity. Qed.
Example rej_one_int : der_parse (hx "3003020101") = None.
Proof. vm_compute. reflexivity. Qed.
Example rej_three_ints : der_parse (hx "3009020101020101020101") = None.
Proof. vm_compute. reflexivity. Qed.

Print Assumptions der_roundtrip.
Print Assumptions der_exact.
Print Assumptions der_decode_range.
Print Assumptions der_decode_app_nonempty.
Print Assumptions der_encode_length.
Print Assumptions der_parse_roundtrip.
Print Assumptions der_parse_exact.
Print Assumptions der_parse_range.
Print Assumptions der_parse_app_nonempty.
Print Assumptions der_parse_encode_length.
Print Assumptions der_encode_inj.
