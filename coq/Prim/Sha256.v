(* Prim/Sha256.v — SHA-256 (FIPS 180-4 §6.2), executable reference.
   Words are N, kept < 2^32 by explicit masking. One 64-byte block costs a few ms
   under vm_compute (see the timing note at the end of the file).              *)
From BSV Require Import Base.Bytes Base.Hex Prim.MD.
Local Open Scope N_scope.

Definition m32 : N := 0xFFFFFFFF.
Definition rotr32 (n x : N) : N := N.lor (N.shiftr x n) (N.land (N.shiftl x (32 - n)) m32).
Definition not32 (x : N) : N := N.lxor x m32.

(* FIPS 180-4 §4.1.2 *)
Definition Ch (x y z : N) : N := N.lxor (N.land x y) (N.land (not32 x) z).
Definition Maj (x y z : N) : N := N.lxor (N.lxor (N.land x y) (N.land x z)) (N.land y z).
Definition Sig0 (x : N) : N := N.lxor (N.lxor (rotr32 2 x) (rotr32 13 x)) (rotr32 22 x).
Definition Sig1 (x : N) : N := N.lxor (N.lxor (rotr32 6 x) (rotr32 11 x)) (rotr32 25 x).
Definition sig0 (x : N) : N := N.lxor (N.lxor (rotr32 7 x) (rotr32 18 x)) (N.shiftr x 3).
Definition sig1 (x : N) : N := N.lxor (N.lxor (rotr32 17 x) (rotr32 19 x)) (N.shiftr x 10).

(* §4.2.2 *)
Definition K256 : list N :=
  [0x428a2f98; 0x71374491; 0xb5c0fbcf; 0xe9b5dba5; 0x3956c25b; 0x59f111f1; 0x923f82a4; 0xab1c5ed5;
   0xd807aa98; 0x12835b01; 0x243185be; 0x550c7dc3; 0x72be5d74; 0x80deb1fe; 0x9bdc06a7; 0xc19bf174;
   0xe49b69c1; 0xefbe4786; 0x0fc19dc6; 0x240ca1cc; 0x2de92c6f; 0x4a7484aa; 0x5cb0a9dc; 0x76f988da;
   0x983e5152; 0xa831c66d; 0xb00327c8; 0xbf597fc7; 0xc6e00bf3; 0xd5a79147; 0x06ca6351; 0x14292967;
   0x27b70a85; 0x2e1b2138; 0x4d2c6dfc; 0x53380d13; 0x650a7354; 0x766a0abb; 0x81c2c92e; 0x92722c85;
   0xa2bfe8a1; 0xa81a664b; 0xc24b8b70; 0xc76c51a3; 0xd192e819; 0xd6990624; 0xf40e3585; 0x106aa070;
   0x19a4c116; 0x1e376c08; 0x2748774c; 0x34b0bcb5; 0x391c0cb3; 0x4ed8aa4a; 0x5b9cca4f; 0x682e6ff3;
   0x748f82ee; 0x78a5636f; 0x84c87814; 0x8cc70208; 0x90befffa; 0xa4506ceb; 0xbef9a3f7; 0xc67178f2].

Definition state256 : Type := N * N * N * N * N * N * N * N.

(* §5.3.3 *)
Definition iv256 : state256 :=
  (0x6a09e667, 0xbb67ae85, 0x3c6ef372, 0xa54ff53a, 0x510e527f, 0x9b05688c, 0x1f83d9ab, 0x5be0cd19).

(* §6.2.2 step 1: message schedule. [r] holds W_{t-1}, W_{t-2}, ... (most recent first);
   W_t = sig1(W_{t-2}) + W_{t-7} + sig0(W_{t-15}) + W_{t-16}.                          *)
Fixpoint sched256 (n : nat) (r : list N) : list N :=
  match n with
  | O => r
  | S n' =>
      match r with
      | _ :: w2 :: _ :: _ :: _ :: _ :: w7 :: _ :: _ :: _ :: _ :: _ :: _ :: _ :: w15 :: w16 :: _ =>
          sched256 n' (N.land (sig1 w2 + w7 + sig0 w15 + w16) m32 :: r)
      | _ => r
      end
  end.
Definition schedule256 (block : list N) : list N := rev (sched256 48 (rev block)).

(* §6.2.2 step 3 *)
Definition round256 (st : state256) (k w : N) : state256 :=
  let '(a, b, c, d, e, f, g, h) := st in
  let t1 := h + Sig1 e + Ch e f g + k + w in
  let t2 := Sig0 a + Maj a b c in
  (N.land (t1 + t2) m32, a, b, c, N.land (d + t1) m32, e, f, g).

Fixpoint rounds256 (ks ws : list N) (st : state256) : state256 :=
  match ks, ws with
  | k :: ks', w :: ws' => rounds256 ks' ws' (round256 st k w)
  | _, _ => st
  end.

(* §6.2.2 step 4 *)
Definition compress256 (st : state256) (block : list N) : state256 :=
  let '(a, b, c, d, e, f, g, h) := st in
  let '(a', b', c', d', e', f', g', h') := rounds256 K256 (schedule256 block) st in
  (N.land (a + a') m32, N.land (b + b') m32, N.land (c + c') m32, N.land (d + d') m32,
   N.land (e + e') m32, N.land (f + f') m32, N.land (g + g') m32, N.land (h + h') m32).

Definition out256 (st : state256) : bytes :=
  let '(a, b, c, d, e, f, g, h) := st in be_words_bytes 4 [a; b; c; d; e; f; g; h].

Definition sha256 (m : bytes) : bytes :=
  out256 (md_fold compress256 iv256 (be32_words (pad_be64 m))).

(* ------------------------------------------------------------------ *)
Lemma out256_length st : length (out256 st) = 32%nat.
Proof.
  destruct st as [[[[[[[a b] c] d] e] f] g] h]. unfold out256.
  rewrite be_words_bytes_length. reflexivity.
Qed.

Lemma sha256_length m : length (sha256 m) = 32%nat.
Proof. apply out256_length. Qed.

(* ------------------------------------------------------------------ *)
(* Known answers: FIPS 180-4 / NIST CAVP example messages.             *)
Local Open Scope string_scope.
Definition sha256_hex (m : bytes) : string := hex_of_bytes (sha256 m).

Example sha256_empty :
  sha256_hex [] = "e3b0c44298fc1c149afbf4c8996fb92427ae41e4649b934ca495991b7852b855".
Proof. vm_compute; reflexivity. Qed.

Example sha256_abc :
  sha256_hex (bytes_of_string "abc") = "ba7816bf8f01cfea414140de5dae2223b00361a396177a9cb410ff61f20015ad".
Proof. vm_compute; reflexivity. Qed.

(* 56 bytes: the padding spills into a second block *)
Example sha256_two_block :
  sha256_hex (bytes_of_string "abcdbcdecdefdefgefghfghighijhijkijkljklmklmnlmnomnopnopq")
  = "248d6a61d20638b8e5c026930c3e6039a33ce45964ff2167f6ecedd419db06c1".
Proof. vm_compute; reflexivity. Qed.

(* 112 bytes *)
Example sha256_112 :
  sha256_hex (bytes_of_string
    "abcdefghbcdefghicdefghijdefghijkefghijklfghijklmghijklmnhijklmnoijklmnopjklmnopqklmnopqrlmnopqrsmnopqrstnopqrstu")
  = "cf5b16a778af8380036ce59e7b0492370b249b11e8f07a51afac45037afee9d1".
Proof. vm_compute; reflexivity. Qed.

(* exactly one block of input (64 bytes), 55 bytes (longest one-block message) *)
Example sha256_55 :
  sha256_hex (repeat "a"%byte 55) = "9f4390f8d30c2dd92ec9f095b65e2b9ae9b0a925a5258e241c9f1e910f734318".
Proof. vm_compute; reflexivity. Qed.
Example sha256_64 :
  sha256_hex (repeat "a"%byte 64) = "ffe054fe7ae0cb6dc65c3af9b61d5209f439851db43d0ba5997337df154668eb".
Proof. vm_compute; reflexivity. Qed.

(* 1000 pseudo-random bytes (Base.Hex.lcg_bytes, seed 1), cross-checked with python hashlib *)
Example sha256_lcg1000 :
  sha256_hex (lcg_bytes 1000 1) = "18614383653e86e587fe6b60227a5bbb8c496577f0db87040197a17a3e03d2f1".
Proof. vm_compute; reflexivity. Qed.
