(* Prim/Aes.v — FIPS-197 AES (128/192/256-bit keys), CBC with PKCS#7 (RFC 5652), CTR with a
   128-bit big-endian counter block (SP 800-38A; the `ctr` crate's Ctr128BE flavour).

   Executable reference: bytes are `Coq.Init.Byte.byte`, the state is a 4x4 tuple of bytes
   (column-major, FIPS-197 §3.4), round keys are computed once per message.
   No proofs here except known-answer `Example`s; theorems are in Proofs/AesProofs.v. *)
From BSV Require Import Base.Bytes Base.Hex.

(* ------------------------------------------------------------------ *)
(* GF(2^8) byte operations                                             *)
Definition byte_of_N (n : N) : byte :=
  match Byte.of_N n with Some b => b | None => x00 end.

Definition bxor (a b : byte) : byte := byte_of_N (N.lxor (b2n a) (b2n b)).

(* multiplication by x modulo x^8+x^4+x^3+x+1 (FIPS-197 §4.2.1) *)
Definition xtime (a : byte) : byte :=
  let n := N.double (b2n a) in
  byte_of_N (if N.ltb n 256 then n else N.lxor n 283).

Definition g2 (a : byte) : byte := xtime a.
Definition g3 (a : byte) : byte := bxor (xtime a) a.
Definition g9 (a : byte) : byte := bxor (xtime (xtime (xtime a))) a.
Definition g11 (a : byte) : byte := bxor (bxor (xtime (xtime (xtime a))) (xtime a)) a.
Definition g13 (a : byte) : byte := bxor (bxor (xtime (xtime (xtime a))) (xtime (xtime a))) a.
Definition g14 (a : byte) : byte := bxor (bxor (xtime (xtime (xtime a))) (xtime (xtime a))) (xtime a).

(* general multiplication, used only to cross-check the S-box table below *)
Fixpoint gmul_fuel (fuel : nat) (a : byte) (b : N) (acc : byte) : byte :=
  match fuel with
  | O => acc
  | S f => gmul_fuel f (xtime a) (N.div2 b) (if N.odd b then bxor acc a else acc)
  end.
Definition gmul (a b : byte) : byte := gmul_fuel 8 a (b2n b) x00.

(* ------------------------------------------------------------------ *)
(* S-box (FIPS-197 Figure 7) and inverse S-box (Figure 14)             *)
Definition sbox (b : byte) : byte :=
  match b with
  | x00 => x63 | x01 => x7c | x02 => x77 | x03 => x7b | x04 => xf2 | x05 => x6b | x06 => x6f | x07 => xc5
  | x08 => x30 | x09 => x01 | x0a => x67 | x0b => x2b | x0c => xfe | x0d => xd7 | x0e => xab | x0f => x76
  | x10 => xca | x11 => x82 | x12 => xc9 | x13 => x7d | x14 => xfa | x15 => x59 | x16 => x47 | x17 => xf0
  | x18 => xad | x19 => xd4 | x1a => xa2 | x1b => xaf | x1c => x9c | x1d => xa4 | x1e => x72 | x1f => xc0
  | x20 => xb7 | x21 => xfd | x22 => x93 | x23 => x26 | x24 => x36 | x25 => x3f | x26 => xf7 | x27 => xcc
  | x28 => x34 | x29 => xa5 | x2a => xe5 | x2b => xf1 | x2c => x71 | x2d => xd8 | x2e => x31 | x2f => x15
  | x30 => x04 | x31 => xc7 | x32 => x23 | x33 => xc3 | x34 => x18 | x35 => x96 | x36 => x05 | x37 => x9a
  | x38 => x07 | x39 => x12 | x3a => x80 | x3b => xe2 | x3c => xeb | x3d => x27 | x3e => xb2 | x3f => x75
  | x40 => x09 | x41 => x83 | x42 => x2c | x43 => x1a | x44 => x1b | x45 => x6e | x46 => x5a | x47 => xa0
  | x48 => x52 | x49 => x3b | x4a => xd6 | x4b => xb3 | x4c => x29 | x4d => xe3 | x4e => x2f | x4f => x84
  | x50 => x53 | x51 => xd1 | x52 => x00 | x53 => xed | x54 => x20 | x55 => xfc | x56 => xb1 | x57 => x5b
  | x58 => x6a | x59 => xcb | x5a => xbe | x5b => x39 | x5c => x4a | x5d => x4c | x5e => x58 | x5f => xcf
  | x60 => xd0 | x61 => xef | x62 => xaa | x63 => xfb | x64 => x43 | x65 => x4d | x66 => x33 | x67 => x85
  | x68 => x45 | x69 => xf9 | x6a => x02 | x6b => x7f | x6c => x50 | x6d => x3c | x6e => x9f | x6f => xa8
  | x70 => x51 | x71 => xa3 | x72 => x40 | x73 => x8f | x74 => x92 | x75 => x9d | x76 => x38 | x77 => xf5
  | x78 => xbc | x79 => xb6 | x7a => xda | x7b => x21 | x7c => x10 | x7d => xff | x7e => xf3 | x7f => xd2
  | x80 => xcd | x81 => x0c | x82 => x13 | x83 => xec | x84 => x5f | x85 => x97 | x86 => x44 | x87 => x17
  | x88 => xc4 | x89 => xa7 | x8a => x7e | x8b => x3d | x8c => x64 | x8d => x5d | x8e => x19 | x8f => x73
  | x90 => x60 | x91 => x81 | x92 => x4f | x93 => xdc | x94 => x22 | x95 => x2a | x96 => x90 | x97 => x88
  | x98 => x46 | x99 => xee | x9a => xb8 | x9b => x14 | x9c => xde | x9d => x5e | x9e => x0b | x9f => xdb
  | xa0 => xe0 | xa1 => x32 | xa2 => x3a | xa3 => x0a | xa4 => x49 | xa5 => x06 | xa6 => x24 | xa7 => x5c
  | xa8 => xc2 | xa9 => xd3 | xaa => xac | xab => x62 | xac => x91 | xad => x95 | xae => xe4 | xaf => x79
  | xb0 => xe7 | xb1 => xc8 | xb2 => x37 | xb3 => x6d | xb4 => x8d | xb5 => xd5 | xb6 => x4e | xb7 => xa9
  | xb8 => x6c | xb9 => x56 | xba => xf4 | xbb => xea | xbc => x65 | xbd => x7a | xbe => xae | xbf => x08
  | xc0 => xba | xc1 => x78 | xc2 => x25 | xc3 => x2e | xc4 => x1c | xc5 => xa6 | xc6 => xb4 | xc7 => xc6
  | xc8 => xe8 | xc9 => xdd | xca => x74 | xcb => x1f | xcc => x4b | xcd => xbd | xce => x8b | xcf => x8a
  | xd0 => x70 | xd1 => x3e | xd2 => xb5 | xd3 => x66 | xd4 => x48 | xd5 => x03 | xd6 => xf6 | xd7 => x0e
  | xd8 => x61 | xd9 => x35 | xda => x57 | xdb => xb9 | xdc => x86 | xdd => xc1 | xde => x1d | xdf => x9e
  | xe0 => xe1 | xe1 => xf8 | xe2 => x98 | xe3 => x11 | xe4 => x69 | xe5 => xd9 | xe6 => x8e | xe7 => x94
  | xe8 => x9b | xe9 => x1e | xea => x87 | xeb => xe9 | xec => xce | xed => x55 | xee => x28 | xef => xdf
  | xf0 => x8c | xf1 => xa1 | xf2 => x89 | xf3 => x0d | xf4 => xbf | xf5 => xe6 | xf6 => x42 | xf7 => x68
  | xf8 => x41 | xf9 => x99 | xfa => x2d | xfb => x0f | xfc => xb0 | xfd => x54 | xfe => xbb | xff => x16
  end.

Definition inv_sbox (b : byte) : byte :=
  match b with
  | x00 => x52 | x01 => x09 | x02 => x6a | x03 => xd5 | x04 => x30 | x05 => x36 | x06 => xa5 | x07 => x38
  | x08 => xbf | x09 => x40 | x0a => xa3 | x0b => x9e | x0c => x81 | x0d => xf3 | x0e => xd7 | x0f => xfb
  | x10 => x7c | x11 => xe3 | x12 => x39 | x13 => x82 | x14 => x9b | x15 => x2f | x16 => xff | x17 => x87
  | x18 => x34 | x19 => x8e | x1a => x43 | x1b => x44 | x1c => xc4 | x1d => xde | x1e => xe9 | x1f => xcb
  | x20 => x54 | x21 => x7b | x22 => x94 | x23 => x32 | x24 => xa6 | x25 => xc2 | x26 => x23 | x27 => x3d
  | x28 => xee | x29 => x4c | x2a => x95 | x2b => x0b | x2c => x42 | x2d => xfa | x2e => xc3 | x2f => x4e
  | x30 => x08 | x31 => x2e | x32 => xa1 | x33 => x66 | x34 => x28 | x35 => xd9 | x36 => x24 | x37 => xb2
  | x38 => x76 | x39 => x5b | x3a => xa2 | x3b => x49 | x3c => x6d | x3d => x8b | x3e => xd1 | x3f => x25
  | x40 => x72 | x41 => xf8 | x42 => xf6 | x43 => x64 | x44 => x86 | x45 => x68 | x46 => x98 | x47 => x16
  | x48 => xd4 | x49 => xa4 | x4a => x5c | x4b => xcc | x4c => x5d | x4d => x65 | x4e => xb6 | x4f => x92
  | x50 => x6c | x51 => x70 | x52 => x48 | x53 => x50 | x54 => xfd | x55 => xed | x56 => xb9 | x57 => xda
  | x58 => x5e | x59 => x15 | x5a => x46 | x5b => x57 | x5c => xa7 | x5d => x8d | x5e => x9d | x5f => x84
  | x60 => x90 | x61 => xd8 | x62 => xab | x63 => x00 | x64 => x8c | x65 => xbc | x66 => xd3 | x67 => x0a
  | x68 => xf7 | x69 => xe4 | x6a => x58 | x6b => x05 | x6c => xb8 | x6d => xb3 | x6e => x45 | x6f => x06
  | x70 => xd0 | x71 => x2c | x72 => x1e | x73 => x8f | x74 => xca | x75 => x3f | x76 => x0f | x77 => x02
  | x78 => xc1 | x79 => xaf | x7a => xbd | x7b => x03 | x7c => x01 | x7d => x13 | x7e => x8a | x7f => x6b
  | x80 => x3a | x81 => x91 | x82 => x11 | x83 => x41 | x84 => x4f | x85 => x67 | x86 => xdc | x87 => xea
  | x88 => x97 | x89 => xf2 | x8a => xcf | x8b => xce | x8c => xf0 | x8d => xb4 | x8e => xe6 | x8f => x73
  | x90 => x96 | x91 => xac | x92 => x74 | x93 => x22 | x94 => xe7 | x95 => xad | x96 => x35 | x97 => x85
  | x98 => xe2 | x99 => xf9 | x9a => x37 | x9b => xe8 | x9c => x1c | x9d => x75 | x9e => xdf | x9f => x6e
  | xa0 => x47 | xa1 => xf1 | xa2 => x1a | xa3 => x71 | xa4 => x1d | xa5 => x29 | xa6 => xc5 | xa7 => x89
  | xa8 => x6f | xa9 => xb7 | xaa => x62 | xab => x0e | xac => xaa | xad => x18 | xae => xbe | xaf => x1b
  | xb0 => xfc | xb1 => x56 | xb2 => x3e | xb3 => x4b | xb4 => xc6 | xb5 => xd2 | xb6 => x79 | xb7 => x20
  | xb8 => x9a | xb9 => xdb | xba => xc0 | xbb => xfe | xbc => x78 | xbd => xcd | xbe => x5a | xbf => xf4
  | xc0 => x1f | xc1 => xdd | xc2 => xa8 | xc3 => x33 | xc4 => x88 | xc5 => x07 | xc6 => xc7 | xc7 => x31
  | xc8 => xb1 | xc9 => x12 | xca => x10 | xcb => x59 | xcc => x27 | xcd => x80 | xce => xec | xcf => x5f
  | xd0 => x60 | xd1 => x51 | xd2 => x7f | xd3 => xa9 | xd4 => x19 | xd5 => xb5 | xd6 => x4a | xd7 => x0d
  | xd8 => x2d | xd9 => xe5 | xda => x7a | xdb => x9f | xdc => x93 | xdd => xc9 | xde => x9c | xdf => xef
  | xe0 => xa0 | xe1 => xe0 | xe2 => x3b | xe3 => x4d | xe4 => xae | xe5 => x2a | xe6 => xf5 | xe7 => xb0
  | xe8 => xc8 | xe9 => xeb | xea => xbb | xeb => x3c | xec => x83 | xed => x53 | xee => x99 | xef => x61
  | xf0 => x17 | xf1 => x2b | xf2 => x04 | xf3 => x7e | xf4 => xba | xf5 => x77 | xf6 => xd6 | xf7 => x26
  | xf8 => xe1 | xf9 => x69 | xfa => x14 | xfb => x63 | xfc => x55 | xfd => x21 | xfe => x0c | xff => x7d
  end.

(* The table is the published one; cross-check against its definition
   (multiplicative inverse in GF(2^8) followed by the affine map, FIPS-197 §5.1.1). *)
Definition all_bytes : bytes := map (fun n => n2b (N.of_nat n)) (seq 0 256).

Definition gsq (a : byte) : byte := gmul a a.
Definition ginv (a : byte) : byte :=            (* a^254 *)
  let a2 := gsq a in let a4 := gsq a2 in let a8 := gsq a4 in let a16 := gsq a8 in
  let a32 := gsq a16 in let a64 := gsq a32 in let a128 := gsq a64 in
  gmul a128 (gmul a64 (gmul a32 (gmul a16 (gmul a8 (gmul a4 a2))))).
Definition rotl8 (k : N) (a : byte) : byte :=
  let n := b2n a in byte_of_N ((n * 2 ^ k) mod 256 + n / 2 ^ (8 - k))%N.
Definition sbox_computed (a : byte) : byte :=
  let b := ginv a in
  bxor (bxor (bxor (bxor (bxor b (rotl8 1 b)) (rotl8 2 b)) (rotl8 3 b)) (rotl8 4 b)) x63.

Example sbox_matches_definition :
  forallb (fun b => byte_eqb (sbox b) (sbox_computed b)) all_bytes = true.
Proof. vm_compute. reflexivity. Qed.

(* ------------------------------------------------------------------ *)
(* State: four columns of four bytes; byte i of the 16-byte block is row (i mod 4)
   of column (i / 4)  (FIPS-197 §3.4).                                          *)
Definition col : Type := (byte * byte * byte * byte)%type.
Definition state : Type := (col * col * col * col)%type.

Definition zero_col : col := (x00, x00, x00, x00).
Definition zero_state : state := (zero_col, zero_col, zero_col, zero_col).

Definition to_state (b : bytes) : state :=
  match b with
  | a0 :: a1 :: a2 :: a3 :: b0 :: b1 :: b2 :: b3 :: c0 :: c1 :: c2 :: c3 :: d0 :: d1 :: d2 :: d3 :: _ =>
      ((a0, a1, a2, a3), (b0, b1, b2, b3), (c0, c1, c2, c3), (d0, d1, d2, d3))
  | _ => zero_state
  end.

Definition of_state (s : state) : bytes :=
  let '((a0, a1, a2, a3), (b0, b1, b2, b3), (c0, c1, c2, c3), (d0, d1, d2, d3)) := s in
  [a0; a1; a2; a3; b0; b1; b2; b3; c0; c1; c2; c3; d0; d1; d2; d3].

(* whole 16-byte blocks of a byte string (a trailing partial block is dropped) *)
Fixpoint chunks (b : bytes) : list state :=
  match b with
  | a0 :: a1 :: a2 :: a3 :: b0 :: b1 :: b2 :: b3 :: c0 :: c1 :: c2 :: c3 :: d0 :: d1 :: d2 :: d3 :: r =>
      ((a0, a1, a2, a3), (b0, b1, b2, b3), (c0, c1, c2, c3), (d0, d1, d2, d3)) :: chunks r
  | _ => []
  end.

Fixpoint unchunks (l : list state) : bytes :=
  match l with
  | [] => []
  | s :: r => of_state s ++ unchunks r
  end.

Definition cxor (a b : col) : col :=
  let '(a0, a1, a2, a3) := a in let '(b0, b1, b2, b3) := b in
  (bxor a0 b0, bxor a1 b1, bxor a2 b2, bxor a3 b3).

Definition sxor (s t : state) : state :=
  let '(s0, s1, s2, s3) := s in let '(t0, t1, t2, t3) := t in
  (cxor s0 t0, cxor s1 t1, cxor s2 t2, cxor s3 t3).

Definition map_col (f : byte -> byte) (c : col) : col :=
  let '(a0, a1, a2, a3) := c in (f a0, f a1, f a2, f a3).

Definition map_state (f : col -> col) (s : state) : state :=
  let '(c0, c1, c2, c3) := s in (f c0, f c1, f c2, f c3).

(* ------------------------------------------------------------------ *)
(* Round transformations (FIPS-197 §5.1, §5.3)                         *)
Definition sub_bytes : state -> state := map_state (map_col sbox).
Definition inv_sub_bytes : state -> state := map_state (map_col inv_sbox).

Definition shift_rows (s : state) : state :=
  let '((a0, a1, a2, a3), (b0, b1, b2, b3), (c0, c1, c2, c3), (d0, d1, d2, d3)) := s in
  ((a0, b1, c2, d3), (b0, c1, d2, a3), (c0, d1, a2, b3), (d0, a1, b2, c3)).

Definition inv_shift_rows (s : state) : state :=
  let '((a0, a1, a2, a3), (b0, b1, b2, b3), (c0, c1, c2, c3), (d0, d1, d2, d3)) := s in
  ((a0, d1, c2, b3), (b0, a1, d2, c3), (c0, b1, a2, d3), (d0, c1, b2, a3)).

(* MixColumns / InvMixColumns on one column, written with the FIPS-197 constants ... *)
Definition mix_col_spec (c : col) : col :=
  let '(a0, a1, a2, a3) := c in
  (bxor (bxor (g2 a0) (g3 a1)) (bxor a2 a3),
   bxor (bxor a0 (g2 a1)) (bxor (g3 a2) a3),
   bxor (bxor a0 a1) (bxor (g2 a2) (g3 a3)),
   bxor (bxor (g3 a0) a1) (bxor a2 (g2 a3))).

Definition inv_mix_col_spec (c : col) : col :=
  let '(a0, a1, a2, a3) := c in
  (bxor (bxor (g14 a0) (g11 a1)) (bxor (g13 a2) (g9 a3)),
   bxor (bxor (g9 a0) (g14 a1)) (bxor (g11 a2) (g13 a3)),
   bxor (bxor (g13 a0) (g9 a1)) (bxor (g14 a2) (g11 a3)),
   bxor (bxor (g11 a0) (g13 a1)) (bxor (g9 a2) (g14 a3))).

(* ... and the same functions with the xtime chains shared (these are the ones that run;
   AesProofs.mix_col_eq / inv_mix_col_eq: equal by unfolding) *)
Definition mix_col (c : col) : col :=
  let '(a0, a1, a2, a3) := c in
  let p0 := xtime a0 in let p1 := xtime a1 in let p2 := xtime a2 in let p3 := xtime a3 in
  (bxor (bxor p0 (bxor p1 a1)) (bxor a2 a3),
   bxor (bxor a0 p1) (bxor (bxor p2 a2) a3),
   bxor (bxor a0 a1) (bxor p2 (bxor p3 a3)),
   bxor (bxor (bxor p0 a0) a1) (bxor a2 p3)).

Definition inv_mix_col (c : col) : col :=
  let '(a0, a1, a2, a3) := c in
  let p0 := xtime a0 in let q0 := xtime p0 in let r0 := xtime q0 in
  let p1 := xtime a1 in let q1 := xtime p1 in let r1 := xtime q1 in
  let p2 := xtime a2 in let q2 := xtime p2 in let r2 := xtime q2 in
  let p3 := xtime a3 in let q3 := xtime p3 in let r3 := xtime q3 in
  (bxor (bxor (bxor (bxor r0 q0) p0) (bxor (bxor r1 p1) a1)) (bxor (bxor (bxor r2 q2) a2) (bxor r3 a3)),
   bxor (bxor (bxor r0 a0) (bxor (bxor r1 q1) p1)) (bxor (bxor (bxor r2 p2) a2) (bxor (bxor r3 q3) a3)),
   bxor (bxor (bxor (bxor r0 q0) a0) (bxor r1 a1)) (bxor (bxor (bxor r2 q2) p2) (bxor (bxor r3 p3) a3)),
   bxor (bxor (bxor (bxor r0 p0) a0) (bxor (bxor r1 q1) a1)) (bxor (bxor r2 a2) (bxor (bxor r3 q3) p3))).

Definition mix_columns : state -> state := map_state mix_col.
Definition inv_mix_columns : state -> state := map_state inv_mix_col.

Definition add_round_key (rk s : state) : state := sxor s rk.

(* ------------------------------------------------------------------ *)
(* Key expansion (FIPS-197 §5.2) for Nk = |key| / 4 words (4, 6 or 8). *)
Definition rot_word (w : col) : col := let '(a0, a1, a2, a3) := w in (a1, a2, a3, a0).
Definition sub_word : col -> col := map_col sbox.

Fixpoint words (b : bytes) : list col :=
  match b with
  | a0 :: a1 :: a2 :: a3 :: r => (a0, a1, a2, a3) :: words r
  | _ => []
  end.

Fixpoint group4 (ws : list col) : list state :=
  match ws with
  | a :: b :: c :: d :: r => (a, b, c, d) :: group4 r
  | _ => []
  end.

(* ws: the words produced so far, most recent first; j = i mod Nk; rc = Rcon[i / Nk] *)
Fixpoint expand_loop (fuel nk j : nat) (rc : byte) (ws : list col) : list col :=
  match fuel with
  | O => ws
  | S f =>
      let prev := hd zero_col ws in
      let back := nth (nk - 1) ws zero_col in
      let temp :=
        if Nat.eqb j 0 then cxor (sub_word (rot_word prev)) (rc, x00, x00, x00)
        else if Nat.ltb 6 nk && Nat.eqb j 4 then sub_word prev
        else prev in
      let rc' := if Nat.eqb j 0 then xtime rc else rc in
      let j' := if Nat.eqb (S j) nk then O else S j in
      expand_loop f nk j' rc' (cxor back temp :: ws)
  end.

(* round keys 0 .. Nr, Nr = Nk + 6 *)
Definition key_expand (key : bytes) : list state :=
  let nk := Nat.div (length key) 4 in
  group4 (rev (expand_loop (4 * (nk + 7) - nk) nk 0 x01 (rev (words key)))).

(* ------------------------------------------------------------------ *)
(* Cipher and inverse cipher (FIPS-197 Figures 5 and 12) over a round-key list. *)
Fixpoint rounds (rks : list state) (s : state) : state :=
  match rks with
  | [] => s
  | [rk] => add_round_key rk (shift_rows (sub_bytes s))
  | rk :: rest => rounds rest (add_round_key rk (mix_columns (shift_rows (sub_bytes s))))
  end.

Definition cipher (rks : list state) (s : state) : state :=
  match rks with
  | [] => s
  | rk0 :: rest => rounds rest (add_round_key rk0 s)
  end.

(* inv_rounds [rk1..rkNr] undoes rounds [rk1..rkNr]: the last round key is applied first *)
Fixpoint inv_rounds (rks : list state) (s : state) : state :=
  match rks with
  | [] => s
  | [rk] => inv_sub_bytes (inv_shift_rows (add_round_key rk s))
  | rk :: rest =>
      inv_sub_bytes (inv_shift_rows (inv_mix_columns (add_round_key rk (inv_rounds rest s))))
  end.

Definition inv_cipher (rks : list state) (s : state) : state :=
  match rks with
  | [] => s
  | rk0 :: rest => add_round_key rk0 (inv_rounds rest s)
  end.

Definition enc_block (key b : bytes) : bytes := of_state (cipher (key_expand key) (to_state b)).
Definition dec_block (key b : bytes) : bytes := of_state (inv_cipher (key_expand key) (to_state b)).

(* ------------------------------------------------------------------ *)
(* PKCS#7 padding to 16-byte blocks (RFC 5652 §6.3).                   *)
Definition pad_len (m : bytes) : nat := 16 - Nat.modulo (length m) 16.
Definition pad (m : bytes) : bytes := m ++ repeat (n2b (N.of_nat (pad_len m))) (pad_len m).

(* unpad_gen maxn: the last byte n must satisfy 1 <= n <= maxn, n <= |data|, and the last n
   bytes must all equal n.  `unpad` (maxn = 16) is RFC 5652; `unpad_lax` (no bound other than
   the buffer length) is what block-padding 0.2.1 `Pkcs7::unpad` does. *)
Definition unpad_gen (maxn : nat) (data : bytes) : option bytes :=
  match data with
  | [] => None
  | _ =>
      let l := last data x00 in
      let n := N.to_nat (b2n l) in
      if Nat.eqb n 0 || Nat.ltb maxn n || Nat.ltb (length data) n then None
      else
        let keep := length data - n in
        if forallb (byte_eqb l) (skipn keep data) then Some (firstn keep data) else None
  end.
Definition unpad : bytes -> option bytes := unpad_gen 16.
Definition unpad_lax : bytes -> option bytes := unpad_gen 255.

(* ------------------------------------------------------------------ *)
(* CBC (SP 800-38A §6.2)                                               *)
Fixpoint cbc_enc_st (rks : list state) (prev : state) (ps : list state) : list state :=
  match ps with
  | [] => []
  | p :: r => let c := cipher rks (sxor p prev) in c :: cbc_enc_st rks c r
  end.

Fixpoint cbc_dec_st (rks : list state) (prev : state) (cs : list state) : list state :=
  match cs with
  | [] => []
  | c :: r => sxor (inv_cipher rks c) prev :: cbc_dec_st rks c r
  end.

(* CBC without padding over whole blocks *)
Definition cbc_raw_enc (key iv data : bytes) : bytes :=
  unchunks (cbc_enc_st (key_expand key) (to_state iv) (chunks data)).
Definition cbc_raw_dec (key iv ct : bytes) : bytes :=
  unchunks (cbc_dec_st (key_expand key) (to_state iv) (chunks ct)).

Definition cbc_encrypt (key iv msg : bytes) : bytes := cbc_raw_enc key iv (pad msg).

Definition cbc_decrypt_gen (maxn : nat) (key iv ct : bytes) : option bytes :=
  if Nat.eqb (length ct) 0 || negb (Nat.eqb (Nat.modulo (length ct) 16) 0) then None
  else unpad_gen maxn (cbc_raw_dec key iv ct).
Definition cbc_decrypt : bytes -> bytes -> bytes -> option bytes := cbc_decrypt_gen 16.
Definition cbc_decrypt_lax : bytes -> bytes -> bytes -> option bytes := cbc_decrypt_gen 255.

(* ------------------------------------------------------------------ *)
(* CTR (SP 800-38A §6.5) with the whole 16-byte IV as a 128-bit big-endian counter,
   incremented by one per block (wrapping at 2^128): the `ctr` crate's Ctr128BE.
   The counter is kept little-endian-first so that the increment is amortised O(1).
   NOTE: the `aes` crate's own CTR types increment only the low 64 bits (see incr64_le below);
   the two agree as long as the low 64 bits do not wrap within the message, which is the
   domain property C20 claims. *)
Definition succ_byte (b : byte) : byte := byte_of_N (N.succ (b2n b)).

Fixpoint incr_le (c : bytes) : bytes :=
  match c with
  | [] => []
  | b :: r => if byte_eqb b xff then x00 :: incr_le r else succ_byte b :: r
  end.

(* the `ctr` crate's Ctr64BE flavour, which is what `aes::Aes128Ctr` / `Aes256Ctr` (aes 0.7.5,
   both the AES-NI and the portable backend) use: only the low 8 bytes of the block count,
   wrapping at 2^64; the high 8 bytes of the IV are a fixed nonce. *)
Definition incr64_le (c : bytes) : bytes := incr_le (firstn 8 c) ++ skipn 8 c.

Fixpoint ctr_stream (inc : bytes -> bytes) (rks : list state) (n : nat) (c_le : bytes) : list state :=
  match n with
  | O => []
  | S n' => cipher rks (to_state (rev c_le)) :: ctr_stream inc rks n' (inc c_le)
  end.

Fixpoint xor_bytes (a b : bytes) : bytes :=
  match a, b with
  | x :: a', y :: b' => bxor x y :: xor_bytes a' b'
  | _, _ => []
  end.

Definition ctr_keystream (inc : bytes -> bytes) (key iv : bytes) (nblocks : nat) : bytes :=
  unchunks (ctr_stream inc (key_expand key) nblocks (rev iv)).

Definition ctr_gen (inc : bytes -> bytes) (key iv msg : bytes) : bytes :=
  xor_bytes msg (ctr_keystream inc key iv (Nat.div (length msg) 16 + 1)).

(* SP 800-38A CTR with the standard 128-bit incrementing function *)
Definition ctr : bytes -> bytes -> bytes -> bytes := ctr_gen incr_le.
(* 64-bit counter variant; equal to `ctr` while the low 64 bits do not wrap (AesProofs.ctr64_eq_ctr) *)
Definition ctr64 : bytes -> bytes -> bytes -> bytes := ctr_gen incr64_le.

(* ------------------------------------------------------------------ *)
(* Known-answer tests                                                  *)
Definition hx (s : string) : bytes := match bytes_of_hex s with Some b => b | None => [] end.
Example fips197_c1_enc :
  enc_block (hx "000102030405060708090a0b0c0d0e0f") (hx "00112233445566778899aabbccddeeff") = hx "69c4e0d86a7b0430d8cdb78070b4c55a".
Proof. vm_compute. reflexivity. Qed.

Example fips197_c1_dec :
  dec_block (hx "000102030405060708090a0b0c0d0e0f") (hx "69c4e0d86a7b0430d8cdb78070b4c55a") = hx "00112233445566778899aabbccddeeff".
Proof. vm_compute. reflexivity. Qed.

Example fips197_c2_enc :
  enc_block (hx "000102030405060708090a0b0c0d0e0f1011121314151617") (hx "00112233445566778899aabbccddeeff") = hx "dda97ca4864cdfe06eaf70a0ec0d7191".
Proof. vm_compute. reflexivity. Qed.

Example fips197_c2_dec :
  dec_block (hx "000102030405060708090a0b0c0d0e0f1011121314151617") (hx "dda97ca4864cdfe06eaf70a0ec0d7191") = hx "00112233445566778899aabbccddeeff".
Proof. vm_compute. reflexivity. Qed.

Example fips197_c3_enc :
  enc_block (hx "000102030405060708090a0b0c0d0e0f101112131415161718191a1b1c1d1e1f") (hx "00112233445566778899aabbccddeeff") = hx "8ea2b7ca516745bfeafc49904b496089".
Proof. vm_compute. reflexivity. Qed.

Example fips197_c3_dec :
  dec_block (hx "000102030405060708090a0b0c0d0e0f101112131415161718191a1b1c1d1e1f") (hx "8ea2b7ca516745bfeafc49904b496089") = hx "00112233445566778899aabbccddeeff".
Proof. vm_compute. reflexivity. Qed.

Example fips197_a1_last_round_key :
  nth 10 (key_expand (hx "2b7e151628aed2a6abf7158809cf4f3c")) zero_state = to_state (hx "d014f9a8c9ee2589e13f0cc8b6630ca6").
Proof. vm_compute. reflexivity. Qed.

Example fips197_a3_last_round_key :
  nth 14 (key_expand (hx "603deb1015ca71be2b73aef0857d77811f352c073b6108d72d9810a30914dff4")) zero_state = to_state (hx "fe4890d1e6188d0b046df344706c631e").
Proof. vm_compute. reflexivity. Qed.

Example sp800_38a_f21_cbc128 :
  cbc_raw_enc (hx "2b7e151628aed2a6abf7158809cf4f3c") (hx "000102030405060708090a0b0c0d0e0f") (hx "6bc1bee22e409f96e93d7e117393172aae2d8a571e03ac9c9eb76fac45af8e5130c81c46a35ce411e5fbc1191a0a52eff69f2445df4f9b17ad2b417be66c3710") = hx "7649abac8119b246cee98e9b12e9197d5086cb9b507219ee95db113a917678b273bed6b8e3c1743b7116e69e222295163ff1caa1681fac09120eca307586e1a7".
Proof. vm_compute. reflexivity. Qed.

Example sp800_38a_f21_cbc128_padded :
  firstn 64 (cbc_encrypt (hx "2b7e151628aed2a6abf7158809cf4f3c") (hx "000102030405060708090a0b0c0d0e0f") (hx "6bc1bee22e409f96e93d7e117393172aae2d8a571e03ac9c9eb76fac45af8e5130c81c46a35ce411e5fbc1191a0a52eff69f2445df4f9b17ad2b417be66c3710")) = hx "7649abac8119b246cee98e9b12e9197d5086cb9b507219ee95db113a917678b273bed6b8e3c1743b7116e69e222295163ff1caa1681fac09120eca307586e1a7".
Proof. vm_compute. reflexivity. Qed.

Example sp800_38a_f22_cbc128_dec :
  cbc_raw_dec (hx "2b7e151628aed2a6abf7158809cf4f3c") (hx "000102030405060708090a0b0c0d0e0f") (hx "7649abac8119b246cee98e9b12e9197d5086cb9b507219ee95db113a917678b273bed6b8e3c1743b7116e69e222295163ff1caa1681fac09120eca307586e1a7") = hx "6bc1bee22e409f96e93d7e117393172aae2d8a571e03ac9c9eb76fac45af8e5130c81c46a35ce411e5fbc1191a0a52eff69f2445df4f9b17ad2b417be66c3710".
Proof. vm_compute. reflexivity. Qed.

Example sp800_38a_f25_cbc256 :
  cbc_raw_enc (hx "603deb1015ca71be2b73aef0857d77811f352c073b6108d72d9810a30914dff4") (hx "000102030405060708090a0b0c0d0e0f") (hx "6bc1bee22e409f96e93d7e117393172aae2d8a571e03ac9c9eb76fac45af8e5130c81c46a35ce411e5fbc1191a0a52eff69f2445df4f9b17ad2b417be66c3710") = hx "f58c4c04d6e5f1ba779eabfb5f7bfbd69cfc4e967edb808d679f777bc6702c7d39f23369a9d9bacfa530e26304231461b2eb05e2c39be9fcda6c19078c6a9d1b".
Proof. vm_compute. reflexivity. Qed.

Example sp800_38a_f25_cbc256_padded :
  firstn 64 (cbc_encrypt (hx "603deb1015ca71be2b73aef0857d77811f352c073b6108d72d9810a30914dff4") (hx "000102030405060708090a0b0c0d0e0f") (hx "6bc1bee22e409f96e93d7e117393172aae2d8a571e03ac9c9eb76fac45af8e5130c81c46a35ce411e5fbc1191a0a52eff69f2445df4f9b17ad2b417be66c3710")) = hx "f58c4c04d6e5f1ba779eabfb5f7bfbd69cfc4e967edb808d679f777bc6702c7d39f23369a9d9bacfa530e26304231461b2eb05e2c39be9fcda6c19078c6a9d1b".
Proof. vm_compute. reflexivity. Qed.

Example sp800_38a_f26_cbc256_dec :
  cbc_raw_dec (hx "603deb1015ca71be2b73aef0857d77811f352c073b6108d72d9810a30914dff4") (hx "000102030405060708090a0b0c0d0e0f") (hx "f58c4c04d6e5f1ba779eabfb5f7bfbd69cfc4e967edb808d679f777bc6702c7d39f23369a9d9bacfa530e26304231461b2eb05e2c39be9fcda6c19078c6a9d1b") = hx "6bc1bee22e409f96e93d7e117393172aae2d8a571e03ac9c9eb76fac45af8e5130c81c46a35ce411e5fbc1191a0a52eff69f2445df4f9b17ad2b417be66c3710".
Proof. vm_compute. reflexivity. Qed.

Example sp800_38a_f51_ctr128 :
  ctr (hx "2b7e151628aed2a6abf7158809cf4f3c") (hx "f0f1f2f3f4f5f6f7f8f9fafbfcfdfeff") (hx "6bc1bee22e409f96e93d7e117393172aae2d8a571e03ac9c9eb76fac45af8e5130c81c46a35ce411e5fbc1191a0a52eff69f2445df4f9b17ad2b417be66c3710") = hx "874d6191b620e3261bef6864990db6ce9806f66b7970fdff8617187bb9fffdff5ae4df3edbd5d35e5b4f09020db03eab1e031dda2fbe03d1792170a0f3009cee".
Proof. vm_compute. reflexivity. Qed.

Example sp800_38a_f52_ctr128_dec :
  ctr (hx "2b7e151628aed2a6abf7158809cf4f3c") (hx "f0f1f2f3f4f5f6f7f8f9fafbfcfdfeff") (hx "874d6191b620e3261bef6864990db6ce9806f66b7970fdff8617187bb9fffdff5ae4df3edbd5d35e5b4f09020db03eab1e031dda2fbe03d1792170a0f3009cee") = hx "6bc1bee22e409f96e93d7e117393172aae2d8a571e03ac9c9eb76fac45af8e5130c81c46a35ce411e5fbc1191a0a52eff69f2445df4f9b17ad2b417be66c3710".
Proof. vm_compute. reflexivity. Qed.

Example sp800_38a_f55_ctr256 :
  ctr (hx "603deb1015ca71be2b73aef0857d77811f352c073b6108d72d9810a30914dff4") (hx "f0f1f2f3f4f5f6f7f8f9fafbfcfdfeff") (hx "6bc1bee22e409f96e93d7e117393172aae2d8a571e03ac9c9eb76fac45af8e5130c81c46a35ce411e5fbc1191a0a52eff69f2445df4f9b17ad2b417be66c3710") = hx "601ec313775789a5b7a7f504bbf3d228f443e3ca4d62b59aca84e990cacaf5c52b0930daa23de94ce87017ba2d84988ddfc9c58db67aada613c2dd08457941a6".
Proof. vm_compute. reflexivity. Qed.

(* Vectors produced with `openssl enc` (OpenSSL 3.0.20). *)

Example openssl_cbc128_len0 :
  cbc_encrypt (hx "8899aabbccddeeff0011223344556677") (hx "a0a1a2a3a4a5a6a7a8a9aaabacadaeaf") (hx "") = hx "eb218fbb6fead622ff35600b9556928f".
Proof. vm_compute. reflexivity. Qed.

Example openssl_cbc128_len0_dec :
  cbc_decrypt (hx "8899aabbccddeeff0011223344556677") (hx "a0a1a2a3a4a5a6a7a8a9aaabacadaeaf") (hx "eb218fbb6fead622ff35600b9556928f") = Some (hx "").
Proof. vm_compute. reflexivity. Qed.

Example openssl_ctr128_len0 :
  ctr (hx "8899aabbccddeeff0011223344556677") (hx "a0a1a2a3a4a5a6a7a8a9aaabacadaeaf") (hx "") = hx "".
Proof. vm_compute. reflexivity. Qed.

Example openssl_cbc256_len0 :
  cbc_encrypt (hx "0f1e2d3c4b5a69788796a5b4c3d2e1f000112233445566778899aabbccddeeff") (hx "a0a1a2a3a4a5a6a7a8a9aaabacadaeaf") (hx "") = hx "a46f7c64e6f5c22358b110594b882e75".
Proof. vm_compute. reflexivity. Qed.

Example openssl_cbc256_len0_dec :
  cbc_decrypt (hx "0f1e2d3c4b5a69788796a5b4c3d2e1f000112233445566778899aabbccddeeff") (hx "a0a1a2a3a4a5a6a7a8a9aaabacadaeaf") (hx "a46f7c64e6f5c22358b110594b882e75") = Some (hx "").
Proof. vm_compute. reflexivity. Qed.

Example openssl_ctr256_len0 :
  ctr (hx "0f1e2d3c4b5a69788796a5b4c3d2e1f000112233445566778899aabbccddeeff") (hx "a0a1a2a3a4a5a6a7a8a9aaabacadaeaf") (hx "") = hx "".
Proof. vm_compute. reflexivity. Qed.

Example openssl_cbc128_len1 :
  cbc_encrypt (hx "8899aabbccddeeff0011223344556677") (hx "a0a1a2a3a4a5a6a7a8a9aaabacadaeaf") (hx "03") = hx "f45a948669cb680819d3749630529997".
Proof. vm_compute. reflexivity. Qed.

Example openssl_cbc128_len1_dec :
  cbc_decrypt (hx "8899aabbccddeeff0011223344556677") (hx "a0a1a2a3a4a5a6a7a8a9aaabacadaeaf") (hx "f45a948669cb680819d3749630529997") = Some (hx "03").
Proof. vm_compute. reflexivity. Qed.

Example openssl_ctr128_len1 :
  ctr (hx "8899aabbccddeeff0011223344556677") (hx "a0a1a2a3a4a5a6a7a8a9aaabacadaeaf") (hx "03") = hx "4c".
Proof. vm_compute. reflexivity. Qed.

Example openssl_cbc256_len1 :
  cbc_encrypt (hx "0f1e2d3c4b5a69788796a5b4c3d2e1f000112233445566778899aabbccddeeff") (hx "a0a1a2a3a4a5a6a7a8a9aaabacadaeaf") (hx "03") = hx "89291db10f34e7502dbed7488b3bf464".
Proof. vm_compute. reflexivity. Qed.

Example openssl_cbc256_len1_dec :
  cbc_decrypt (hx "0f1e2d3c4b5a69788796a5b4c3d2e1f000112233445566778899aabbccddeeff") (hx "a0a1a2a3a4a5a6a7a8a9aaabacadaeaf") (hx "89291db10f34e7502dbed7488b3bf464") = Some (hx "03").
Proof. vm_compute. reflexivity. Qed.

Example openssl_ctr256_len1 :
  ctr (hx "0f1e2d3c4b5a69788796a5b4c3d2e1f000112233445566778899aabbccddeeff") (hx "a0a1a2a3a4a5a6a7a8a9aaabacadaeaf") (hx "03") = hx "a4".
Proof. vm_compute. reflexivity. Qed.

Example openssl_cbc128_len15 :
  cbc_encrypt (hx "8899aabbccddeeff0011223344556677") (hx "a0a1a2a3a4a5a6a7a8a9aaabacadaeaf") (hx "030a11181f262d343b424950575e65") = hx "5306d7c98cb516c6c843534a742178c8".
Proof. vm_compute. reflexivity. Qed.

Example openssl_cbc128_len15_dec :
  cbc_decrypt (hx "8899aabbccddeeff0011223344556677") (hx "a0a1a2a3a4a5a6a7a8a9aaabacadaeaf") (hx "5306d7c98cb516c6c843534a742178c8") = Some (hx "030a11181f262d343b424950575e65").
Proof. vm_compute. reflexivity. Qed.

Example openssl_ctr128_len15 :
  ctr (hx "8899aabbccddeeff0011223344556677") (hx "a0a1a2a3a4a5a6a7a8a9aaabacadaeaf") (hx "030a11181f262d343b424950575e65") = hx "4c8ec2a862fb9db4137eef0f21d353".
Proof. vm_compute. reflexivity. Qed.

Example openssl_cbc256_len15 :
  cbc_encrypt (hx "0f1e2d3c4b5a69788796a5b4c3d2e1f000112233445566778899aabbccddeeff") (hx "a0a1a2a3a4a5a6a7a8a9aaabacadaeaf") (hx "030a11181f262d343b424950575e65") = hx "451c3c751c5ba3aafe12c07a026d47a4".
Proof. vm_compute. reflexivity. Qed.

Example openssl_cbc256_len15_dec :
  cbc_decrypt (hx "0f1e2d3c4b5a69788796a5b4c3d2e1f000112233445566778899aabbccddeeff") (hx "a0a1a2a3a4a5a6a7a8a9aaabacadaeaf") (hx "451c3c751c5ba3aafe12c07a026d47a4") = Some (hx "030a11181f262d343b424950575e65").
Proof. vm_compute. reflexivity. Qed.

Example openssl_ctr256_len15 :
  ctr (hx "0f1e2d3c4b5a69788796a5b4c3d2e1f000112233445566778899aabbccddeeff") (hx "a0a1a2a3a4a5a6a7a8a9aaabacadaeaf") (hx "030a11181f262d343b424950575e65") = hx "a4accb9258c5d6ce8b2da53599f13d".
Proof. vm_compute. reflexivity. Qed.

Example openssl_cbc128_len16 :
  cbc_encrypt (hx "8899aabbccddeeff0011223344556677") (hx "a0a1a2a3a4a5a6a7a8a9aaabacadaeaf") (hx "030a11181f262d343b424950575e656c") = hx "fd7694d6c0f0327f95cfb43dafa041d7a5d8d83e29cabd9614f2b19add8daf54".
Proof. vm_compute. reflexivity. Qed.

Example openssl_cbc128_len16_dec :
  cbc_decrypt (hx "8899aabbccddeeff0011223344556677") (hx "a0a1a2a3a4a5a6a7a8a9aaabacadaeaf") (hx "fd7694d6c0f0327f95cfb43dafa041d7a5d8d83e29cabd9614f2b19add8daf54") = Some (hx "030a11181f262d343b424950575e656c").
Proof. vm_compute. reflexivity. Qed.

Example openssl_ctr128_len16 :
  ctr (hx "8899aabbccddeeff0011223344556677") (hx "a0a1a2a3a4a5a6a7a8a9aaabacadaeaf") (hx "030a11181f262d343b424950575e656c") = hx "4c8ec2a862fb9db4137eef0f21d353ad".
Proof. vm_compute. reflexivity. Qed.

Example openssl_cbc256_len16 :
  cbc_encrypt (hx "0f1e2d3c4b5a69788796a5b4c3d2e1f000112233445566778899aabbccddeeff") (hx "a0a1a2a3a4a5a6a7a8a9aaabacadaeaf") (hx "030a11181f262d343b424950575e656c") = hx "3fe9a99a7621709d3de5a6398697c7cd905a753d51d1f722f2a5cfdebdb96a04".
Proof. vm_compute. reflexivity. Qed.

Example openssl_cbc256_len16_dec :
  cbc_decrypt (hx "0f1e2d3c4b5a69788796a5b4c3d2e1f000112233445566778899aabbccddeeff") (hx "a0a1a2a3a4a5a6a7a8a9aaabacadaeaf") (hx "3fe9a99a7621709d3de5a6398697c7cd905a753d51d1f722f2a5cfdebdb96a04") = Some (hx "030a11181f262d343b424950575e656c").
Proof. vm_compute. reflexivity. Qed.

Example openssl_ctr256_len16 :
  ctr (hx "0f1e2d3c4b5a69788796a5b4c3d2e1f000112233445566778899aabbccddeeff") (hx "a0a1a2a3a4a5a6a7a8a9aaabacadaeaf") (hx "030a11181f262d343b424950575e656c") = hx "a4accb9258c5d6ce8b2da53599f13d41".
Proof. vm_compute. reflexivity. Qed.

Example openssl_cbc128_len17 :
  cbc_encrypt (hx "8899aabbccddeeff0011223344556677") (hx "a0a1a2a3a4a5a6a7a8a9aaabacadaeaf") (hx "030a11181f262d343b424950575e656c73") = hx "fd7694d6c0f0327f95cfb43dafa041d76411d083408a647064e5c07faef48fd6".
Proof. vm_compute. reflexivity. Qed.

Example openssl_cbc128_len17_dec :
  cbc_decrypt (hx "8899aabbccddeeff0011223344556677") (hx "a0a1a2a3a4a5a6a7a8a9aaabacadaeaf") (hx "fd7694d6c0f0327f95cfb43dafa041d76411d083408a647064e5c07faef48fd6") = Some (hx "030a11181f262d343b424950575e656c73").
Proof. vm_compute. reflexivity. Qed.

Example openssl_ctr128_len17 :
  ctr (hx "8899aabbccddeeff0011223344556677") (hx "a0a1a2a3a4a5a6a7a8a9aaabacadaeaf") (hx "030a11181f262d343b424950575e656c73") = hx "4c8ec2a862fb9db4137eef0f21d353ad01".
Proof. vm_compute. reflexivity. Qed.

Example openssl_cbc256_len17 :
  cbc_encrypt (hx "0f1e2d3c4b5a69788796a5b4c3d2e1f000112233445566778899aabbccddeeff") (hx "a0a1a2a3a4a5a6a7a8a9aaabacadaeaf") (hx "030a11181f262d343b424950575e656c73") = hx "3fe9a99a7621709d3de5a6398697c7cd83172d4c44785ce3de8124aa2d18188a".
Proof. vm_compute. reflexivity. Qed.

Example openssl_cbc256_len17_dec :
  cbc_decrypt (hx "0f1e2d3c4b5a69788796a5b4c3d2e1f000112233445566778899aabbccddeeff") (hx "a0a1a2a3a4a5a6a7a8a9aaabacadaeaf") (hx "3fe9a99a7621709d3de5a6398697c7cd83172d4c44785ce3de8124aa2d18188a") = Some (hx "030a11181f262d343b424950575e656c73").
Proof. vm_compute. reflexivity. Qed.

Example openssl_ctr256_len17 :
  ctr (hx "0f1e2d3c4b5a69788796a5b4c3d2e1f000112233445566778899aabbccddeeff") (hx "a0a1a2a3a4a5a6a7a8a9aaabacadaeaf") (hx "030a11181f262d343b424950575e656c73") = hx "a4accb9258c5d6ce8b2da53599f13d4129".
Proof. vm_compute. reflexivity. Qed.

Example openssl_cbc128_len33 :
  cbc_encrypt (hx "8899aabbccddeeff0011223344556677") (hx "a0a1a2a3a4a5a6a7a8a9aaabacadaeaf") (hx "030a11181f262d343b424950575e656c737a81888f969da4abb2b9c0c7ced5dce3") = hx "fd7694d6c0f0327f95cfb43dafa041d78a3dbd959ddfb122ccb5bd145ae799dc253128fb06e2094aec0a9e63e03e9927".
Proof. vm_compute. reflexivity. Qed.

Example openssl_cbc128_len33_dec :
  cbc_decrypt (hx "8899aabbccddeeff0011223344556677") (hx "a0a1a2a3a4a5a6a7a8a9aaabacadaeaf") (hx "fd7694d6c0f0327f95cfb43dafa041d78a3dbd959ddfb122ccb5bd145ae799dc253128fb06e2094aec0a9e63e03e9927") = Some (hx "030a11181f262d343b424950575e656c737a81888f969da4abb2b9c0c7ced5dce3").
Proof. vm_compute. reflexivity. Qed.

Example openssl_ctr128_len33 :
  ctr (hx "8899aabbccddeeff0011223344556677") (hx "a0a1a2a3a4a5a6a7a8a9aaabacadaeaf") (hx "030a11181f262d343b424950575e656c737a81888f969da4abb2b9c0c7ced5dce3") = hx "4c8ec2a862fb9db4137eef0f21d353ad01a4d7f38589c7d8da06a22aceebf87e48".
Proof. vm_compute. reflexivity. Qed.

Example openssl_cbc256_len33 :
  cbc_encrypt (hx "0f1e2d3c4b5a69788796a5b4c3d2e1f000112233445566778899aabbccddeeff") (hx "a0a1a2a3a4a5a6a7a8a9aaabacadaeaf") (hx "030a11181f262d343b424950575e656c737a81888f969da4abb2b9c0c7ced5dce3") = hx "3fe9a99a7621709d3de5a6398697c7cd7c6829c257924207cf2289de3b5fdc73ab367d17446ea43b00fc24e339fdcb51".
Proof. vm_compute. reflexivity. Qed.

Example openssl_cbc256_len33_dec :
  cbc_decrypt (hx "0f1e2d3c4b5a69788796a5b4c3d2e1f000112233445566778899aabbccddeeff") (hx "a0a1a2a3a4a5a6a7a8a9aaabacadaeaf") (hx "3fe9a99a7621709d3de5a6398697c7cd7c6829c257924207cf2289de3b5fdc73ab367d17446ea43b00fc24e339fdcb51") = Some (hx "030a11181f262d343b424950575e656c737a81888f969da4abb2b9c0c7ced5dce3").
Proof. vm_compute. reflexivity. Qed.

Example openssl_ctr256_len33 :
  ctr (hx "0f1e2d3c4b5a69788796a5b4c3d2e1f000112233445566778899aabbccddeeff") (hx "a0a1a2a3a4a5a6a7a8a9aaabacadaeaf") (hx "030a11181f262d343b424950575e656c737a81888f969da4abb2b9c0c7ced5dce3") = hx "a4accb9258c5d6ce8b2da53599f13d412989fb7ef67706328f9663e5171721f38f".
Proof. vm_compute. reflexivity. Qed.

Example openssl_ctr128_carry8 :
  ctr (hx "8899aabbccddeeff0011223344556677") (hx "000102030405060708090a0b0c0d0eff") (hx "030a11181f262d343b424950575e656c737a81888f969da4abb2b9c0c7ced5dce3eaf1f8ff060d14") = hx "d453965e10d60d234de08d9e1ac1a54d22897ed8c05c203dff5a354512d43e5fd7f0ebf1da67b4bb".
Proof. vm_compute. reflexivity. Qed.

Example openssl_ctr128_carry16 :
  ctr (hx "8899aabbccddeeff0011223344556677") (hx "000102030405060708090a0b0c0dffff") (hx "030a11181f262d343b424950575e656c737a81888f969da4abb2b9c0c7ced5dce3eaf1f8ff060d14") = hx "aaff39479859b114137190337f765b4d3dc71cdd772c67322ab5cb3379ea5569261adfdf0fbc5056".
Proof. vm_compute. reflexivity. Qed.

Example openssl_ctr128_carry32 :
  ctr (hx "8899aabbccddeeff0011223344556677") (hx "0001020304050607080910bbfffffffe") (hx "030a11181f262d343b424950575e656c737a81888f969da4abb2b9c0c7ced5dce3eaf1f8ff060d14") = hx "5a6aae56e92e2183e3126cd159ea7b03147fe8ec8928504b952929f0e2e33820b978f998adb652f5".
Proof. vm_compute. reflexivity. Qed.

Example openssl_ctr128_carry64 :
  ctr (hx "8899aabbccddeeff0011223344556677") (hx "00010203040506ffffffffffffffffff") (hx "030a11181f262d343b424950575e656c737a81888f969da4abb2b9c0c7ced5dce3eaf1f8ff060d14") = hx "e19b2ced5a63a8f25bf2a02ba0609d39d2080038a08c1470b8dea3a2c54728232b83d52b4b0b9c4d".
Proof. vm_compute. reflexivity. Qed.

Example openssl_ctr128_wrap128 :
  ctr (hx "8899aabbccddeeff0011223344556677") (hx "ffffffffffffffffffffffffffffffff") (hx "030a11181f262d343b424950575e656c737a81888f969da4abb2b9c0c7ced5dce3eaf1f8ff060d14") = hx "1cccc510740e6d34c42a857cc18c2c6455a02aac01a82b407f3756fff7c1bb12007c6df0a721041c".
Proof. vm_compute. reflexivity. Qed.

(* produced by the Rust library itself: low 64 bits wrap, high 64 bits stay *)

Example rust_ctr64_wrap64 :
  ctr64 (hx "000102030405060708090a0b0c0d0e0f") (hx "ffffffffffffffffffffffffffffffff") (hx "00000000000000000000000000000000000000000000000000000000000000000000000000000000") = hx "3c441f32ce07822364d7a2990e50bb1325d4e948bd5e1296afc0bf87095a724826f577083a172c86".
Proof. vm_compute. reflexivity. Qed.

Example ctr64_carry32_same_as_ctr :
  ctr64 (hx "8899aabbccddeeff0011223344556677") (hx "0001020304050607080910bbfffffffe") (hx "030a11181f262d343b424950575e656c737a81888f969da4abb2b9c0c7ced5dce3eaf1f8ff060d14") = ctr (hx "8899aabbccddeeff0011223344556677") (hx "0001020304050607080910bbfffffffe") (hx "030a11181f262d343b424950575e656c737a81888f969da4abb2b9c0c7ced5dce3eaf1f8ff060d14").
Proof. vm_compute. reflexivity. Qed.

Example cbc_strict_rejects_pad32 :
  cbc_decrypt (hx "8899aabbccddeeff0011223344556677") (hx "a0a1a2a3a4a5a6a7a8a9aaabacadaeaf") (hx "d6a072e5d473a911b3b02d2cd1b1d1e42cb897884ae55d3be1b418f59e24fec0") = None.
Proof. vm_compute. reflexivity. Qed.

Example cbc_lax_accepts_pad32 :
  cbc_decrypt_lax (hx "8899aabbccddeeff0011223344556677") (hx "a0a1a2a3a4a5a6a7a8a9aaabacadaeaf") (hx "d6a072e5d473a911b3b02d2cd1b1d1e42cb897884ae55d3be1b418f59e24fec0") = Some [].
Proof. vm_compute. reflexivity. Qed.

Example cbc_rejects_pad0 :
  cbc_decrypt (hx "8899aabbccddeeff0011223344556677") (hx "a0a1a2a3a4a5a6a7a8a9aaabacadaeaf") (hx "9ab213ff22eb7b3ea65e547fcaac5594") = None.
Proof. vm_compute. reflexivity. Qed.

Example cbc_rejects_inconsistent :
  cbc_decrypt (hx "8899aabbccddeeff0011223344556677") (hx "a0a1a2a3a4a5a6a7a8a9aaabacadaeaf") (hx "8e4f98837ae1972b9e2397e20a26a4a5") = None.
Proof. vm_compute. reflexivity. Qed.

Example cbc_rejects_empty :
  cbc_decrypt (hx "8899aabbccddeeff0011223344556677") (hx "a0a1a2a3a4a5a6a7a8a9aaabacadaeaf") [] = None.
Proof. vm_compute. reflexivity. Qed.

Example cbc_rejects_len15 :
  cbc_decrypt (hx "8899aabbccddeeff0011223344556677") (hx "a0a1a2a3a4a5a6a7a8a9aaabacadaeaf") (hx "000000000000000000000000000000") = None.
Proof. vm_compute. reflexivity. Qed.
