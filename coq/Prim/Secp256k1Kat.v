(* Prim/Secp256k1Kat.v — known answers for Prim/Secp256k1.v, all by vm_compute on the
   execution (BigZ) instance, plus a few on the reference (Z) instance.
   Sources: SEC 2 (G), the well-known multiples 2G, 3G, the Bitcoin wiki "Technical
   background of version 1 Bitcoin addresses" key, BIP32 test vector 1 (master key);
   all cross-checked with an independent Python implementation. *)
From BSV Require Import Base.Bytes Base.Hex.
From BSV Require Import Prim.Num Prim.Secp256k1.
Local Open Scope Z_scope.

Definition hexZ (s : string) : Z := match bytes_of_hex s with Some b => be_Z b | None => -1 end.
Definition cpub (d : Z) : string := hex_of_bytes (sec1_encode true (pubkey_fast d)).
Definition upub (d : Z) : string := hex_of_bytes (sec1_encode false (pubkey_fast d)).

Example kat_1G : cpub 1 = "0279be667ef9dcbbac55a06295ce870b07029bfcdb2dce28d959f2815b16f81798".
Proof. vm_compute. reflexivity. Qed.
Example kat_1G_u : upub 1 =
  "0479be667ef9dcbbac55a06295ce870b07029bfcdb2dce28d959f2815b16f81798483ada7726a3c4655da4fbfc0e1108a8fd17b448a68554199c47d08ffb10d4b8".
Proof. vm_compute. reflexivity. Qed.
Example kat_2G : cpub 2 = "02c6047f9441ed7d6d3045406e95c07cd85c778e4b8cef3ca7abac09b95c709ee5".
Proof. vm_compute. reflexivity. Qed.
Example kat_3G : cpub 3 = "02f9308a019258c31049344f85f89d5229b531c845836f99b08601f113bce036f9".
Proof. vm_compute. reflexivity. Qed.
Example kat_nm1G : cpub (secp_n - 1) = "0379be667ef9dcbbac55a06295ce870b07029bfcdb2dce28d959f2815b16f81798".
Proof. vm_compute. reflexivity. Qed.
Example kat_nm1G_is_negG : pubkey_fast (secp_n - 1) = pneg G.
Proof. vm_compute. reflexivity. Qed.
Example kat_nG : pubkey_fast secp_n = None.
Proof. vm_compute. reflexivity. Qed.
Example kat_np1G : pubkey_fast (secp_n + 1) = G.
Proof. vm_compute. reflexivity. Qed.
Example kat_neg1G : smul_fast (-1) G = pneg G.
Proof. vm_compute. reflexivity. Qed.
Example kat_wiki : cpub (hexZ "18E14A7B6A307F426A94F8114701E7C8E774E7F9A47E2C2035DB29A206321725")
  = "0250863ad64a87ae8a2fe83c1af1a8403cb53f53e486d8511dad8a04887e5b2352".
Proof. vm_compute. reflexivity. Qed.
Example kat_wiki_u : upub (hexZ "18E14A7B6A307F426A94F8114701E7C8E774E7F9A47E2C2035DB29A206321725")
  = "0450863ad64a87ae8a2fe83c1af1a8403cb53f53e486d8511dad8a04887e5b23522cd470243453a299fa9e77237716103abc11a1df38855ed6f2ee187e9c582ba6".
Proof. vm_compute. reflexivity. Qed.
Example kat_bip32_tv1_master : cpub (hexZ "e8f32e723decf4051aefac8e2c93c9c5b214313817cdb01a1494b917c8436b35")
  = "0339a36013301597daef41fbe593a02cc513d0b55527ec2df1050e2e8ff49c85c2".
Proof. vm_compute. reflexivity. Qed.

(* group-law spot checks *)
Example kat_add_2G_G : padd_fast (pubkey_fast 2) G = pubkey_fast 3.
Proof. vm_compute. reflexivity. Qed.
Example kat_add_G_G : padd_fast G G = pubkey_fast 2.
Proof. vm_compute. reflexivity. Qed.
Example kat_add_G_negG : padd_fast G (pneg G) = None.
Proof. vm_compute. reflexivity. Qed.
Example kat_add_inf : padd_fast None G = G /\ padd_fast G None = G.
Proof. vm_compute. split; reflexivity. Qed.
Example kat_distrib :
  let a := hexZ "18E14A7B6A307F426A94F8114701E7C8E774E7F9A47E2C2035DB29A206321725" in
  let b := hexZ "e8f32e723decf4051aefac8e2c93c9c5b214313817cdb01a1494b917c8436b35" in
  padd_fast (pubkey_fast a) (pubkey_fast b) = pubkey_fast ((a + b) mod secp_n)
  /\ smul_fast a (pubkey_fast b) = pubkey_fast ((a * b) mod secp_n).
Proof. vm_compute. split; reflexivity. Qed.

(* consistency: on-curve, x-lifting, SEC1 round trips *)
Definition ks : list Z :=
  [1; 2; 3; 7; 12345; secp_n - 1; secp_n - 2; 2 ^ 255;
   hexZ "18E14A7B6A307F426A94F8114701E7C8E774E7F9A47E2C2035DB29A206321725";
   hexZ "e8f32e723decf4051aefac8e2c93c9c5b214313817cdb01a1494b917c8436b35"].
Example kat_on_curve : forallb (fun k => on_curve_fast (pubkey_fast k)) ks = true.
Proof. vm_compute. reflexivity. Qed.
Definition point_eqb (P Q : point) : bool :=
  match P, Q with
  | None, None => true
  | Some (a, b), Some (c, d) => (a =? c) && (b =? d)
  | _, _ => false
  end.
Example kat_lift_x :
  forallb (fun k => let P := pubkey_fast k in
                    match lift_x_fast (xcoord P) (yodd P) with Some Q => point_eqb P Q | None => false end) ks = true.
Proof. vm_compute. reflexivity. Qed.
Example kat_sec1_roundtrip :
  forallb (fun k => let P := pubkey_fast k in
                    match sec1_decode_fast (sec1_encode true P), sec1_decode_fast (sec1_encode false P) with
                    | Some Q, Some Q' => point_eqb P Q && point_eqb P Q'
                    | _, _ => false
                    end) ks = true.
Proof. vm_compute. reflexivity. Qed.

(* SEC1 rejections (k256 0.10 / sec1 0.2.1): identity, hybrid and compact tags, x >= p,
   non-residue x, off-curve uncompressed point, wrong lengths *)
Definition dec (h : string) : option point :=
  match bytes_of_hex h with Some b => sec1_decode_fast b | None => None end.
Example kat_sec1_reject :
  map dec
    ["00"; "";
     "0679be667ef9dcbbac55a06295ce870b07029bfcdb2dce28d959f2815b16f81798483ada7726a3c4655da4fbfc0e1108a8fd17b448a68554199c47d08ffb10d4b8";
     "0779be667ef9dcbbac55a06295ce870b07029bfcdb2dce28d959f2815b16f81798483ada7726a3c4655da4fbfc0e1108a8fd17b448a68554199c47d08ffb10d4b8";
     "0579be667ef9dcbbac55a06295ce870b07029bfcdb2dce28d959f2815b16f81798";
     "02fffffffffffffffffffffffffffffffffffffffffffffffffffffffefffffc2f";
     "02fffffffffffffffffffffffffffffffffffffffffffffffffffffffefffffc30";
     "020000000000000000000000000000000000000000000000000000000000000005";
     "0479be667ef9dcbbac55a06295ce870b07029bfcdb2dce28d959f2815b16f81798483ada7726a3c4655da4fbfc0e1108a8fd17b448a68554199c47d08ffb10d4b9";
     "0279be667ef9dcbbac55a06295ce870b07029bfcdb2dce28d959f2815b16f817";
     "0279be667ef9dcbbac55a06295ce870b07029bfcdb2dce28d959f2815b16f8179800";
     "0479be667ef9dcbbac55a06295ce870b07029bfcdb2dce28d959f2815b16f81798"]
  = repeat None 12.
Proof. vm_compute. reflexivity. Qed.
(* x = 1 is on the curve (1 + 7 = 8 is a residue); x = 5 is not: 132 is a non-residue *)
Example kat_sec1_x1 : match dec "020000000000000000000000000000000000000000000000000000000000000001" with
                      | Some P => on_curve_fast P && negb (yodd P) | None => false end = true.
Proof. vm_compute. reflexivity. Qed.

(* ECDSA primitive: published RFC 6979 vector (key 1, "Satoshi Nakamoto"), nonce given *)
Definition z_satoshi := hexZ "a0dc65ffca799873cbea0ac274015b9526505daaaed385155425f7337704883e".
Definition k_satoshi := hexZ "8F8A276C19F4149656B280621E358CCE24F5F52542772691EE69063B74F15D15".
Example kat_sign : prim_sign_fast 1 k_satoshi z_satoshi
  = Some (hexZ "934b1ea10a4b3c1757e2b0c017d0b6143ce3c9a7e6a4a49860d7a6ab210ee3d8",
          hexZ "2442ce9d2b916064108014783e923ec36b49743e2ffa1c4496f01a512aafd9e5", true).
Proof. vm_compute. reflexivity. Qed.
(* this signature needed low-S normalisation: the recovery bit is (y odd) xor (s was high) *)
Example kat_sign_was_high :
  let R := pubkey_fast k_satoshi in
  let s0 := (sinv_fast k_satoshi * ((z_satoshi + (xcoord R mod secp_n) * 1) mod secp_n)) mod secp_n in
  (yodd R, secp_n / 2 <? s0) = (false, true).
Proof. vm_compute. reflexivity. Qed.
Example kat_verify :
  prim_verify_fast G z_satoshi
    (hexZ "934b1ea10a4b3c1757e2b0c017d0b6143ce3c9a7e6a4a49860d7a6ab210ee3d8",
     hexZ "2442ce9d2b916064108014783e923ec36b49743e2ffa1c4496f01a512aafd9e5") = true.
Proof. vm_compute. reflexivity. Qed.
(* k256 rejects the high-S twin, a different message, a different key, and out-of-range scalars *)
Example kat_verify_rejects :
  let r := hexZ "934b1ea10a4b3c1757e2b0c017d0b6143ce3c9a7e6a4a49860d7a6ab210ee3d8" in
  let s := hexZ "2442ce9d2b916064108014783e923ec36b49743e2ffa1c4496f01a512aafd9e5" in
  [prim_verify_fast G z_satoshi (r, secp_n - s);
   prim_verify_fast G (z_satoshi + 1) (r, s);
   prim_verify_fast (pubkey_fast 2) z_satoshi (r, s);
   prim_verify_fast G z_satoshi (0, s);
   prim_verify_fast G z_satoshi (r, 0);
   prim_verify_fast G z_satoshi (secp_n, s);
   prim_verify_fast G z_satoshi (r + secp_n, s)] = repeat false 7.
Proof. vm_compute. reflexivity. Qed.
Example kat_recover :
  recover_fast (hexZ "934b1ea10a4b3c1757e2b0c017d0b6143ce3c9a7e6a4a49860d7a6ab210ee3d8")
               (hexZ "2442ce9d2b916064108014783e923ec36b49743e2ffa1c4496f01a512aafd9e5") true z_satoshi = Ok G.
Proof. vm_compute. reflexivity. Qed.
(* k256's own recovery vectors (k256-0.10.4/src/ecdsa/recoverable.rs), sha256("example message") *)
Definition z_example := hexZ "ad84cd0b10fc028738971b078124aec2a0e7c6d986a381be0b386f32bee887af".
Example kat_recover_k256_0 :
  omap (sec1_encode true)
    (recover_fast (hexZ "ce53abb3721bafc561408ce8ff99c909f7f0b18a2f788649d6470162ab1aa032")
                  (hexZ "3971edc523a6d6453f3fb6128d318d9db1a5ff3386feb1047d9816e780039d52") false
                  z_example)
  = of_option (bytes_of_hex "021a7a569e91dbf60581509c7fc946d1003b60c7dee85299538db6353538d59574").
Proof. vm_compute. reflexivity. Qed.
Example kat_recover_k256_1 :
  omap (sec1_encode true)
    (recover_fast (hexZ "46c05b6368a44b8810d79859441d819b8e7cdc8bfd371e35c53196f4bcacdb51")
                  (hexZ "35c7facce2a97b95eacba8a586d87b7958aaf8368ab29cee481f76e871dbd9cb") true
                  z_example)
  = of_option (bytes_of_hex "036d6caac248af96f6afa7f904f550253a0f3ef3f5aa2fe6838a95b216691468e2").
Proof. vm_compute. reflexivity. Qed.
(* sign failures: k = 0 *)
Example kat_sign_k0 : prim_sign_fast 1 0 z_satoshi = None.
Proof. vm_compute. reflexivity. Qed.
(* recovery that yields the identity PANICS in k256 (`VerifyingKey::from(&pk)` unwraps):
   take R = G (r = x(G), even y), s = r, z = r: pk = -(z/r) G + (s/r) G = -G + G. *)
Example kat_recover_identity_panics : recover_fast secp_gx secp_gx false secp_gx = Panic.
Proof. vm_compute. reflexivity. Qed.

(* ECDH *)
Example kat_ecdh_sym :
  let a := hexZ "18E14A7B6A307F426A94F8114701E7C8E774E7F9A47E2C2035DB29A206321725" in
  let b := hexZ "e8f32e723decf4051aefac8e2c93c9c5b214313817cdb01a1494b917c8436b35" in
  ecdh_fast a (pubkey_fast b) = ecdh_fast b (pubkey_fast a).
Proof. vm_compute. reflexivity. Qed.

(* reference instance agrees on a small case (it is ~100x slower) *)
Example kat_ref_3G : smul 3 G = pubkey_fast 3.
Proof. vm_compute. reflexivity. Qed.
Example kat_ref_sinv : sinv 12345 = sinv_fast 12345 /\ (12345 * sinv 12345) mod secp_n = 1.
Proof. vm_compute. split; reflexivity. Qed.

Time Eval vm_compute in cpub (hexZ "e8f32e723decf4051aefac8e2c93c9c5b214313817cdb01a1494b917c8436b35").
