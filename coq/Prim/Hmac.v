(* Prim/Hmac.v — HMAC (RFC 2104 / FIPS 198-1), generic over the hash function and its
   block size, plus the instances used by the library.                          *)
From BSV Require Import Base.Bytes Base.Hex Prim.MD Prim.Sha256 Prim.Sha512 Prim.Sha1 Prim.Ripemd160.

(* RFC 2104 §2:  H(K xor opad, H(K xor ipad, text))
   where K is the key zero-padded to B bytes, after being replaced by H(key) when it is
   longer than B.                                                                *)
Definition hmac_key (H : bytes -> bytes) (block : nat) (key : bytes) : bytes :=
  let k0 := if Nat.ltb block (length key) then H key else key in
  k0 ++ zeros (block - length k0).

Definition xor_pad (p : byte) (k : bytes) : bytes := map (bxor p) k.

Definition hmac (H : bytes -> bytes) (block : nat) (key msg : bytes) : bytes :=
  let k := hmac_key H block key in
  H (xor_pad x5c k ++ H (xor_pad x36 k ++ msg)).

Definition hmac_sha256 : bytes -> bytes -> bytes := hmac sha256 64.
Definition hmac_sha512 : bytes -> bytes -> bytes := hmac sha512 128.
Definition hmac_sha1 : bytes -> bytes -> bytes := hmac sha1 64.
Definition hmac_ripemd160 : bytes -> bytes -> bytes := hmac ripemd160 64.

(* ------------------------------------------------------------------ *)
Lemma hmac_length H block hl key msg :
  (forall x, length (H x) = hl) -> length (hmac H block key msg) = hl.
Proof. intros HH. unfold hmac. apply HH. Qed.

Lemma hmac_sha256_length k m : length (hmac_sha256 k m) = 32.
Proof. apply hmac_length, sha256_length. Qed.
Lemma hmac_sha512_length k m : length (hmac_sha512 k m) = 64.
Proof. apply hmac_length, sha512_length. Qed.
Lemma hmac_sha1_length k m : length (hmac_sha1 k m) = 20.
Proof. apply hmac_length, sha1_length. Qed.
Lemma hmac_ripemd160_length k m : length (hmac_ripemd160 k m) = 20.
Proof. apply hmac_length, ripemd160_length. Qed.

(* the padded key is exactly one block whenever the hash output fits in a block *)
Lemma hmac_key_length H block key :
  (forall x, length (H x) <= block) -> length (hmac_key H block key) = block.
Proof.
  intros HH. unfold hmac_key.
  destruct (Nat.ltb block (length key)) eqn:E; rewrite app_length, zeros_length.
  - specialize (HH key). lia.
  - apply Nat.ltb_ge in E. lia.
Qed.

(* ------------------------------------------------------------------ *)
Module HmacTests.
Local Open Scope string_scope.
Definition hx (f : bytes -> bytes -> bytes) (k m : bytes) : string := hex_of_bytes (f k m).
Definition s := bytes_of_string.
Definition r (b : byte) (n : nat) : bytes := repeat b n.
Definition k25 : bytes :=
  [x01; x02; x03; x04; x05; x06; x07; x08; x09; x0a; x0b; x0c; x0d; x0e; x0f; x10; x11; x12; x13;
   x14; x15; x16; x17; x18; x19].
Definition msg6 := s "Test Using Larger Than Block-Size Key - Hash Key First".
Definition msg7 := s "This is a test using a larger than block-size key and a larger than block-size data. The key needs to be hashed before being used by the HMAC algorithm.".

(* RFC 4231 test cases 1-4, 6, 7 (case 5 is a truncation test) *)
Example rfc4231_1_256 : hx hmac_sha256 (r x0b 20) (s "Hi There")
  = "b0344c61d8db38535ca8afceaf0bf12b881dc200c9833da726e9376c2e32cff7".
Proof. vm_compute; reflexivity. Qed.
Example rfc4231_1_512 : hx hmac_sha512 (r x0b 20) (s "Hi There")
  = "87aa7cdea5ef619d4ff0b4241a1d6cb02379f4e2ce4ec2787ad0b30545e17cdedaa833b7d6b8a702038b274eaea3f4e4be9d914eeb61f1702e696c203a126854".
Proof. vm_compute; reflexivity. Qed.
Example rfc4231_2_256 : hx hmac_sha256 (s "Jefe") (s "what do ya want for nothing?")
  = "5bdcc146bf60754e6a042426089575c75a003f089d2739839dec58b964ec3843".
Proof. vm_compute; reflexivity. Qed.
Example rfc4231_2_512 : hx hmac_sha512 (s "Jefe") (s "what do ya want for nothing?")
  = "164b7a7bfcf819e2e395fbe73b56e0a387bd64222e831fd610270cd7ea2505549758bf75c05a994a6d034f65f8f0e6fdcaeab1a34d4a6b4b636e070a38bce737".
Proof. vm_compute; reflexivity. Qed.
Example rfc4231_3_256 : hx hmac_sha256 (r xaa 20) (r xdd 50)
  = "773ea91e36800e46854db8ebd09181a72959098b3ef8c122d9635514ced565fe".
Proof. vm_compute; reflexivity. Qed.
Example rfc4231_3_512 : hx hmac_sha512 (r xaa 20) (r xdd 50)
  = "fa73b0089d56a284efb0f0756c890be9b1b5dbdd8ee81a3655f83e33b2279d39bf3e848279a722c806b485a47e67c807b946a337bee8942674278859e13292fb".
Proof. vm_compute; reflexivity. Qed.
Example rfc4231_4_256 : hx hmac_sha256 k25 (r xcd 50)
  = "82558a389a443c0ea4cc819899f2083a85f0faa3e578f8077a2e3ff46729665b".
Proof. vm_compute; reflexivity. Qed.
Example rfc4231_4_512 : hx hmac_sha512 k25 (r xcd 50)
  = "b0ba465637458c6990e5a8c5f61d4af7e576d97ff94b872de76f8050361ee3dba91ca5c11aa25eb4d679275cc5788063a5f19741120c4f2de2adebeb10a298dd".
Proof. vm_compute; reflexivity. Qed.
(* 131-byte key: longer than both block sizes, so it is hashed first *)
Example rfc4231_6_256 : hx hmac_sha256 (r xaa 131) msg6
  = "60e431591ee0b67f0d8a26aacbf5b77f8e0bc6213728c5140546040f0ee37f54".
Proof. vm_compute; reflexivity. Qed.
Example rfc4231_6_512 : hx hmac_sha512 (r xaa 131) msg6
  = "80b24263c7c1a3ebb71493c1dd7be8b49b46d1f41b4aeec1121b013783f8f3526b56d037e05f2598bd0fd2215d6a1e5295e64f73f63f0aec8b915a985d786598".
Proof. vm_compute; reflexivity. Qed.
Example rfc4231_7_256 : hx hmac_sha256 (r xaa 131) msg7
  = "9b09ffa71b942fcb27635fbcd5b0e944bfdc63644f0713938a7f51535c3a35e2".
Proof. vm_compute; reflexivity. Qed.
Example rfc4231_7_512 : hx hmac_sha512 (r xaa 131) msg7
  = "e37b6a775dc87dbaa4dfa9f96e5e3ffddebd71f8867289865df5a32d20cdc944b6022cac3c4982b10d5eeb55c3e4de15134676fb6de0446065c97440fa8c6a58".
Proof. vm_compute; reflexivity. Qed.

(* RFC 2202 §3 (HMAC-SHA-1) and RFC 2286 §2 (HMAC-RIPEMD160): same seven inputs *)
Definition msg2202_7 := s "Test Using Larger Than Block-Size Key and Larger Than One Block-Size Data".
Example rfc2202_1 : hx hmac_sha1 (r x0b 20) (s "Hi There") = "b617318655057264e28bc0b6fb378c8ef146be00".
Proof. vm_compute; reflexivity. Qed.
Example rfc2202_2 : hx hmac_sha1 (s "Jefe") (s "what do ya want for nothing?") = "effcdf6ae5eb2fa2d27416d5f184df9c259a7c79".
Proof. vm_compute; reflexivity. Qed.
Example rfc2202_3 : hx hmac_sha1 (r xaa 20) (r xdd 50) = "125d7342b9ac11cd91a39af48aa17b4f63f175d3".
Proof. vm_compute; reflexivity. Qed.
Example rfc2202_4 : hx hmac_sha1 k25 (r xcd 50) = "4c9007f4026250c6bc8414f9bf50c86c2d7235da".
Proof. vm_compute; reflexivity. Qed.
Example rfc2202_5 : hx hmac_sha1 (r x0c 20) (s "Test With Truncation") = "4c1a03424b55e07fe7f27be1d58bb9324a9a5a04".
Proof. vm_compute; reflexivity. Qed.
Example rfc2202_6 : hx hmac_sha1 (r xaa 80) msg6 = "aa4ae5e15272d00e95705637ce8a3b55ed402112".
Proof. vm_compute; reflexivity. Qed.
Example rfc2202_7 : hx hmac_sha1 (r xaa 80) msg2202_7 = "e8e99d0f45237d786d6bbaa7965c7808bbff1a91".
Proof. vm_compute; reflexivity. Qed.

Example rfc2286_1 : hx hmac_ripemd160 (r x0b 20) (s "Hi There") = "24cb4bd67d20fc1a5d2ed7732dcc39377f0a5668".
Proof. vm_compute; reflexivity. Qed.
Example rfc2286_2 : hx hmac_ripemd160 (s "Jefe") (s "what do ya want for nothing?") = "dda6c0213a485a9e24f4742064a7f033b43c4069".
Proof. vm_compute; reflexivity. Qed.
Example rfc2286_3 : hx hmac_ripemd160 (r xaa 20) (r xdd 50) = "b0b105360de759960ab4f35298e116e295d8e7c1".
Proof. vm_compute; reflexivity. Qed.
Example rfc2286_4 : hx hmac_ripemd160 k25 (r xcd 50) = "d5ca862f4d21d5e610e18b4cf1beb97a4365ecf4".
Proof. vm_compute; reflexivity. Qed.
Example rfc2286_6 : hx hmac_ripemd160 (r xaa 80) msg6 = "6466ca07ac5eac29e1bd523e5ada7605b791fd8b".
Proof. vm_compute; reflexivity. Qed.
Example rfc2286_7 : hx hmac_ripemd160 (r xaa 80) msg2202_7 = "69ea60798d71616cce5fd0871e23754cd75d5a0a".
Proof. vm_compute; reflexivity. Qed.

(* key lengths exactly at and one above the block size (python hmac), key = lcg 7, msg = lcg 9 *)
Example hmac256_key64 : hx hmac_sha256 (lcg_bytes 64 7) (lcg_bytes 100 9)
  = "3b1cfe2ebcccc85676fe36524bd2c6de4b7ef922975068098f3dbfaeb9d5c55f".
Proof. vm_compute; reflexivity. Qed.
Example hmac256_key65 : hx hmac_sha256 (lcg_bytes 65 7) (lcg_bytes 100 9)
  = "ca2be8f02d24827e582c93ab52844f2e3badfa75674f0ff2bafb1093633213af".
Proof. vm_compute; reflexivity. Qed.
Example hmac512_key128 : hx hmac_sha512 (lcg_bytes 128 7) (lcg_bytes 100 9)
  = "bcb29becac6d2c6e51b0fc0f7aa0e132f7539c3c26cb891bc0084c5b8d88ab84f847893df70689bd08e76b2d7a8ecabbf01519d024464546c2ab8013bdab526a".
Proof. vm_compute; reflexivity. Qed.
Example hmac512_key129 : hx hmac_sha512 (lcg_bytes 129 7) (lcg_bytes 100 9)
  = "5014426298fb50ef8d5ae1b3798b08c876a3e5acbc3b266357940e7a743812ed8f72aaec23b68c858f47691d92f46779e7a05d965a736cff7d10536855856caf".
Proof. vm_compute; reflexivity. Qed.
Example hmac1_key64 : hx hmac_sha1 (lcg_bytes 64 7) (lcg_bytes 100 9) = "297aceab95aabbd3148318a93f364347e5887d9d".
Proof. vm_compute; reflexivity. Qed.
Example hmac1_key65 : hx hmac_sha1 (lcg_bytes 65 7) (lcg_bytes 100 9) = "a54dd585ebdf9425838b3fe5f281272ed32d92fa".
Proof. vm_compute; reflexivity. Qed.
Example hmacr_key64 : hx hmac_ripemd160 (lcg_bytes 64 7) (lcg_bytes 100 9) = "142144eb08a6f3e47a71495b14f5a7672636f18e".
Proof. vm_compute; reflexivity. Qed.
Example hmacr_key65 : hx hmac_ripemd160 (lcg_bytes 65 7) (lcg_bytes 100 9) = "b037e785f5a3b1d3fb859016dd93338ee880e03d".
Proof. vm_compute; reflexivity. Qed.
End HmacTests.
