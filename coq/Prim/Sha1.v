(* Prim/Sha1.v — SHA-1 (FIPS 180-4 §6.1), executable reference. Words are N < 2^32. *)
From BSV Require Import Base.Bytes Base.Hex Prim.MD.
Local Open Scope N_scope.

Definition s1_m32 : N := 0xFFFFFFFF.
Definition s1_rotl (n x : N) : N := N.lor (N.land (N.shiftl x n) s1_m32) (N.shiftr x (32 - n)).

(* FIPS 180-4 §4.1.1 *)
Definition s1_ch (x y z : N) : N := N.lxor (N.land x y) (N.land (N.lxor x s1_m32) z).
Definition s1_parity (x y z : N) : N := N.lxor (N.lxor x y) z.
Definition s1_maj (x y z : N) : N := N.lxor (N.lxor (N.land x y) (N.land x z)) (N.land y z).

Definition state160 : Type := N * N * N * N * N.

(* §5.3.1 *)
Definition iv_sha1 : state160 := (0x67452301, 0xefcdab89, 0x98badcfe, 0x10325476, 0xc3d2e1f0).

(* §6.1.2 step 1; [r] holds W_{t-1}, W_{t-2}, ...;
   W_t = ROTL1(W_{t-3} xor W_{t-8} xor W_{t-14} xor W_{t-16})                     *)
Fixpoint sched_sha1 (n : nat) (r : list N) : list N :=
  match n with
  | O => r
  | S n' =>
      match r with
      | _ :: _ :: w3 :: _ :: _ :: _ :: _ :: w8 :: _ :: _ :: _ :: _ :: _ :: w14 :: _ :: w16 :: _ =>
          sched_sha1 n' (s1_rotl 1 (N.lxor (N.lxor (N.lxor w3 w8) w14) w16) :: r)
      | _ => r
      end
  end.
Definition schedule_sha1 (block : list N) : list N := rev (sched_sha1 64 (rev block)).

(* §6.1.2 step 3 *)
Definition round_sha1 (f : N -> N -> N -> N) (k : N) (st : state160) (w : N) : state160 :=
  let '(a, b, c, d, e) := st in
  (N.land (s1_rotl 5 a + f b c d + e + k + w) s1_m32, a, s1_rotl 30 b, c, d).

(* n rounds with one (f, K) pair; returns the unused part of the schedule *)
Fixpoint rounds_sha1 (n : nat) (f : N -> N -> N -> N) (k : N) (ws : list N) (st : state160)
  : state160 * list N :=
  match n, ws with
  | S n', w :: ws' => rounds_sha1 n' f k ws' (round_sha1 f k st w)
  | _, _ => (st, ws)
  end.

(* §4.2.1 constants, §6.1.2 step 4 *)
Definition compress_sha1 (st : state160) (block : list N) : state160 :=
  let '(a, b, c, d, e) := st in
  let ws := schedule_sha1 block in
  let '(s1, ws) := rounds_sha1 20 s1_ch 0x5a827999 ws st in
  let '(s2, ws) := rounds_sha1 20 s1_parity 0x6ed9eba1 ws s1 in
  let '(s3, ws) := rounds_sha1 20 s1_maj 0x8f1bbcdc ws s2 in
  let '(s4, _) := rounds_sha1 20 s1_parity 0xca62c1d6 ws s3 in
  let '(a', b', c', d', e') := s4 in
  (N.land (a + a') s1_m32, N.land (b + b') s1_m32, N.land (c + c') s1_m32,
   N.land (d + d') s1_m32, N.land (e + e') s1_m32).

Definition out_sha1 (st : state160) : bytes :=
  let '(a, b, c, d, e) := st in be_words_bytes 4 [a; b; c; d; e].

Definition sha1 (m : bytes) : bytes :=
  out_sha1 (md_fold compress_sha1 iv_sha1 (be32_words (pad_be64 m))).

(* ------------------------------------------------------------------ *)
Lemma out_sha1_length st : length (out_sha1 st) = 20%nat.
Proof.
  destruct st as [[[[a b] c] d] e]. unfold out_sha1.
  rewrite be_words_bytes_length. reflexivity.
Qed.

Lemma sha1_length m : length (sha1 m) = 20%nat.
Proof. apply out_sha1_length. Qed.

(* ------------------------------------------------------------------ *)
(* Known answers (FIPS 180-4 examples; others cross-checked with python hashlib). *)
Local Open Scope string_scope.
Definition sha1_hex (m : bytes) : string := hex_of_bytes (sha1 m).

Example sha1_empty : sha1_hex [] = "da39a3ee5e6b4b0d3255bfef95601890afd80709".
Proof. vm_compute; reflexivity. Qed.
Example sha1_abc : sha1_hex (bytes_of_string "abc") = "a9993e364706816aba3e25717850c26c9cd0d89d".
Proof. vm_compute; reflexivity. Qed.
Example sha1_two_block :
  sha1_hex (bytes_of_string "abcdbcdecdefdefgefghfghighijhijkijkljklmklmnlmnomnopnopq")
  = "84983e441c3bd26ebaae4aa1f95129e5e54670f1".
Proof. vm_compute; reflexivity. Qed.
Example sha1_112 :
  sha1_hex (bytes_of_string
    "abcdefghbcdefghicdefghijdefghijkefghijklfghijklmghijklmnhijklmnoijklmnopjklmnopqklmnopqrlmnopqrsmnopqrstnopqrstu")
  = "a49b2446a02c645bf419f995b67091253a04a259".
Proof. vm_compute; reflexivity. Qed.
Example sha1_55 : sha1_hex (repeat "a"%byte 55) = "c1c8bbdc22796e28c0e15163d20899b65621d65a".
Proof. vm_compute; reflexivity. Qed.
Example sha1_56 : sha1_hex (repeat "a"%byte 56) = "c2db330f6083854c99d4b5bfb6e8f29f201be699".
Proof. vm_compute; reflexivity. Qed.
Example sha1_64 : sha1_hex (repeat "a"%byte 64) = "0098ba824b5c16427bd7a1122a5a442a25ec644d".
Proof. vm_compute; reflexivity. Qed.
Example sha1_lcg1000 : sha1_hex (lcg_bytes 1000 1) = "c9e294f36f7e743841fcf3350b8d0d2161220c6f".
Proof. vm_compute; reflexivity. Qed.
