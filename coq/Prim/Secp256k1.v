(* Prim/Secp256k1.v — executable secp256k1: field and scalar arithmetic, point
   arithmetic, scalar multiplication, x-lifting, SEC1 encodings, and the ECDSA
   primitives of k256 0.10.4 (try_sign_prehashed / verify_prehashed /
   recover_verify_key_from_digest_bytes) and elliptic-curve 0.11 diffie_hellman.

   Everything numeric is written once over [num_ops] (Prim/Num.v) and
   instantiated with Z (reference; suffix-less names) and BigZ (names ending in
   [_fast]; they take and return Z-valued points, converting at the boundary).
   The ECDSA layer is written once over an abstract group interface
   (section Ecdsa) so that Proofs/EcdsaAbstract.v reasons about literally the
   same definitions.

   No proofs in this file (so that it still runs when a proof breaks):
   they are in Proofs/Secp256k1Proofs.v, known answers in Proofs/Secp256k1Kat.v. *)
From BSV Require Import Base.Bytes.
From BSV Require Import Prim.Num.
Local Open Scope Z_scope.

(* ------------------------------------------------------------------ *)
(* Curve constants (SEC 2, secp256k1).                                  *)
Definition secp_p : Z := 0xFFFFFFFFFFFFFFFFFFFFFFFFFFFFFFFFFFFFFFFFFFFFFFFFFFFFFFFEFFFFFC2F.
Definition secp_n : Z := 0xFFFFFFFFFFFFFFFFFFFFFFFFFFFFFFFEBAAEDCE6AF48A03BBFD25E8CD0364141.
Definition secp_gx : Z := 0x79BE667EF9DCBBAC55A06295CE870B07029BFCDB2DCE28D959F2815B16F81798.
Definition secp_gy : Z := 0x483ADA7726A3C4655DA4FBFC0E1108A8FD17B448A68554199C47D08FFB10D4B8.
(* exponent of the square root: (p+1)/4, p = 3 mod 4 *)
Definition secp_sqrt_exp : positive := Z.to_pos ((secp_p + 1) / 4).

(* ------------------------------------------------------------------ *)
(* Generic arithmetic over a number implementation.                    *)
Section Generic.
  Context {T : Type} (o : num_ops T).
  Local Notation zero := (n_of_Z o 0).
  Local Notation one := (n_of_Z o 1).

  (* --- arithmetic modulo m (used with m = p and m = n) --- *)
  Section Mod.
    Variable m : T.
    Definition fadd (a b : T) : T := n_mod o (n_add o a b) m.
    Definition fsub (a b : T) : T := n_mod o (n_sub o a b) m.
    Definition fmul (a b : T) : T := n_mod o (n_mul o a b) m.
    Definition fsqr (a : T) : T := fmul a a.
    Definition fdbl (a : T) : T := fadd a a.
    Definition fneg (a : T) : T := fsub zero a.

    (* b^e, e > 0, square-and-multiply on the binary expansion of e *)
    Fixpoint fpow (b : T) (e : positive) : T :=
      match e with
      | xH => n_mod o b m
      | xO e' => fsqr (fpow b e')
      | xI e' => fmul b (fsqr (fpow b e'))
      end.

    (* extended Euclid on (r0, r1) with cofactors (t0, t1): r_i = t_i * a (mod m) *)
    Fixpoint egcd (fuel : nat) (r0 r1 t0 t1 : T) : T * T :=
      match fuel with
      | O => (r0, t0)
      | S f =>
          if n_eqb o r1 zero then (r0, t0)
          else let q := n_div o r0 r1 in
               egcd f r1 (n_sub o r0 (n_mul o q r1)) t1 (n_sub o t0 (n_mul o q t1))
      end.

    (* every step at least halves r0*r1; m*m < 2^(2*(log2 m + 1)) *)
    Definition inv_fuel (mz : Z) : nat := (2 * Z.to_nat (Z.log2 mz) + 3)%nat.

    (* modular inverse: for gcd(a, m) = 1 the unique t in [0,m) with a*t = 1 (mod m);
       for gcd <> 1 some residue (0 for a = 0). *)
    Definition modinv (a : T) : T :=
      let '(_, t) := egcd (inv_fuel (n_to_Z o m)) m (n_mod o a m) zero one in
      n_mod o t m.
  End Mod.

  (* --- the curve y^2 = x^3 + 7 over F_p; p is passed explicitly --- *)
  Section Curve.
    Variable p : T.
    Local Notation "a +! b" := (fadd p a b) (at level 50, left associativity).
    Local Notation "a -! b" := (fsub p a b) (at level 50, left associativity).
    Local Notation "a *! b" := (fmul p a b) (at level 40, left associativity).

    (* affine points: None is the point at infinity *)
    Definition gpoint : Type := option (T * T).
    (* Jacobian points (X, Y, Z), Z = 0 is the point at infinity; x = X/Z^2, y = Y/Z^3 *)
    Definition jac : Type := (T * T * T)%type.

    Definition curve_rhs (x : T) : T := (x *! x *! x) +! n_of_Z o 7.
    Definition on_curve_xy (x y : T) : bool := n_eqb o (y *! y) (curve_rhs x).

    (* dbl-2009-l (a = 0).  Z = 0 or Y = 0 give Z3 = 0 without a special case. *)
    Definition jdbl (P : jac) : jac :=
      let '(X, Y, Z) := P in
      let A := X *! X in
      let B := Y *! Y in
      let C := B *! B in
      let XB := X +! B in
      let D := fdbl p (XB *! XB -! A -! C) in
      let E := A +! A +! A in
      let F := E *! E in
      let X3 := F -! fdbl p D in
      let C8 := fdbl p (fdbl p (fdbl p C)) in
      let Y3 := E *! (D -! X3) -! C8 in
      let Z3 := fdbl p (Y *! Z) in
      (X3, Y3, Z3).

    (* mixed addition: Jacobian + affine (x2, y2) *)
    Definition jadd_mixed (P : jac) (x2 y2 : T) : jac :=
      let '(X1, Y1, Z1) := P in
      if n_eqb o Z1 zero then (x2, y2, one)
      else
        let Z1Z1 := Z1 *! Z1 in
        let U2 := x2 *! Z1Z1 in
        let S2 := y2 *! Z1 *! Z1Z1 in
        let H := U2 -! X1 in
        let R := S2 -! Y1 in
        if n_eqb o H zero then
          (if n_eqb o R zero then jdbl (x2, y2, one) else (one, one, zero))
        else
          let HH := H *! H in
          let HHH := H *! HH in
          let V := X1 *! HH in
          let X3 := R *! R -! HHH -! fdbl p V in
          let Y3 := R *! (V -! X3) -! Y1 *! HHH in
          let Z3 := Z1 *! H in
          (X3, Y3, Z3).

    Definition jac_to_affine (P : jac) : gpoint :=
      let '(X, Y, Z) := P in
      if n_eqb o Z zero then None
      else let zi := modinv p Z in
           let zi2 := zi *! zi in
           Some (X *! zi2, Y *! zi2 *! zi).

    (* k * (x, y), k > 0, double-and-add, most significant bit first *)
    Fixpoint jsmul_pos (k : positive) (x y : T) : jac :=
      match k with
      | xH => (x, y, one)
      | xO k' => jdbl (jsmul_pos k' x y)
      | xI k' => jadd_mixed (jdbl (jsmul_pos k' x y)) x y
      end.

    Definition gneg (P : gpoint) : gpoint :=
      match P with None => None | Some (x, y) => Some (x, fneg p y) end.

    Definition gsmul (k : Z) (P : gpoint) : gpoint :=
      match P with
      | None => None
      | Some (x, y) =>
          match k with
          | Z0 => None
          | Zpos k' => jac_to_affine (jsmul_pos k' x y)
          | Zneg k' => gneg (jac_to_affine (jsmul_pos k' x y))
          end
      end.

    (* affine addition (chord and tangent) *)
    Definition gadd (P Q : gpoint) : gpoint :=
      match P, Q with
      | None, _ => Q
      | _, None => P
      | Some (x1, y1), Some (x2, y2) =>
          if n_eqb o x1 x2 then
            if n_eqb o (y1 +! y2) zero then None
            else let l := (let a := x1 *! x1 in a +! a +! a) *! modinv p (y1 +! y1) in
                 let x3 := l *! l -! x1 -! x2 in
                 Some (x3, l *! (x1 -! x3) -! y1)
          else let l := (y2 -! y1) *! modinv p (x2 -! x1) in
               let x3 := l *! l -! x1 -! x2 in
               Some (x3, l *! (x1 -! x3) -! y1)
      end.

    Definition g_on_curve (P : gpoint) : bool :=
      match P with None => true | Some (x, y) => on_curve_xy x y end.

    (* y with y^2 = x^3 + 7 and the requested parity (k256 AffinePoint::decompress);
       the caller guarantees 0 <= x < p *)
    Definition glift_x (e : positive) (x : T) (odd : bool) : gpoint :=
      let alpha := curve_rhs x in
      let beta := fpow p alpha e in
      if n_eqb o (beta *! beta) alpha then
        Some (x, if Bool.eqb (negb (n_even o beta)) odd then beta else fneg p beta)
      else None.
  End Curve.
End Generic.

(* ------------------------------------------------------------------ *)
(* Z-valued points at the interface of both instances.                  *)
Definition point : Type := option (Z * Z).
Definition G : point := Some (secp_gx, secp_gy).

Definition pt_of_Z {T} (o : num_ops T) (P : point) : gpoint (T := T) :=
  match P with None => None | Some (x, y) => Some (n_of_Z o x, n_of_Z o y) end.
Definition pt_to_Z {T} (o : num_ops T) (P : gpoint (T := T)) : point :=
  match P with None => None | Some (x, y) => Some (n_to_Z o x, n_to_Z o y) end.

Definition in_field (a : Z) : bool := (0 <=? a) && (a <? secp_p).
Definition in_scalar (a : Z) : bool := (1 <=? a) && (a <? secp_n).

(* --- reference instance (Z) --- *)
Definition padd (P Q : point) : point := gadd Z_ops secp_p P Q.
Definition pneg (P : point) : point := gneg Z_ops secp_p P.
Definition smul (k : Z) (P : point) : point := gsmul Z_ops secp_p k P.
Definition on_curve (P : point) : bool := g_on_curve Z_ops secp_p P.
Definition lift_x (x : Z) (odd : bool) : option point :=
  if in_field x then
    match glift_x Z_ops secp_p secp_sqrt_exp x odd with Some xy => Some (Some xy) | None => None end
  else None.
Definition finv (a : Z) : Z := modinv Z_ops secp_p a.   (* inverse mod p *)
Definition sinv (a : Z) : Z := modinv Z_ops secp_n a.   (* inverse mod n *)

(* --- execution instance (BigZ inside, Z at the boundary) --- *)
Definition bz := n_of_Z BigZ_ops.
Definition padd_fast (P Q : point) : point :=
  pt_to_Z BigZ_ops (gadd BigZ_ops (bz secp_p) (pt_of_Z BigZ_ops P) (pt_of_Z BigZ_ops Q)).
Definition smul_fast (k : Z) (P : point) : point :=
  pt_to_Z BigZ_ops (gsmul BigZ_ops (bz secp_p) k (pt_of_Z BigZ_ops P)).
Definition on_curve_fast (P : point) : bool := g_on_curve BigZ_ops (bz secp_p) (pt_of_Z BigZ_ops P).
Definition lift_x_fast (x : Z) (odd : bool) : option point :=
  if in_field x then
    match glift_x BigZ_ops (bz secp_p) secp_sqrt_exp (bz x) odd with
    | Some (a, b) => Some (Some (n_to_Z BigZ_ops a, n_to_Z BigZ_ops b))
    | None => None
    end
  else None.
Definition sinv_fast (a : Z) : Z := n_to_Z BigZ_ops (modinv BigZ_ops (bz secp_n) (bz a)).

(* accessors in the style of k256's AffinePoint: the identity has x = y = 0 *)
Definition xcoord (P : point) : Z := match P with Some (x, _) => x | None => 0 end.
Definition ycoord (P : point) : Z := match P with Some (_, y) => y | None => 0 end.
Definition yodd (P : point) : bool := Z.odd (ycoord P).
Definition is_inf (P : point) : bool := match P with None => true | Some _ => false end.

(* ------------------------------------------------------------------ *)
(* SEC1 (Elliptic-Curve-Point-to-Octet-String), 32-byte big-endian coordinates. *)
Definition be32 (a : Z) : bytes := be_bytes 32 (Z.to_N a).
Definition be_Z (bs : bytes) : Z := Z.of_N (be_val bs).

(* k256 to_encoded_point: the identity is the single byte 00 *)
Definition sec1_encode (compressed : bool) (P : point) : bytes :=
  match P with
  | None => [x00]
  | Some (x, y) =>
      if compressed then (if Z.odd y then x03 else x02) :: be32 x
      else x04 :: be32 x ++ be32 y
  end.

(* k256 0.10 PublicKey::from_sec1_bytes / VerifyingKey::from_sec1_bytes:
   sec1 0.2.1 Tag::from_u8 knows the tags 00 (identity, length 1), 02, 03 (length 33),
   04 (length 65), 05 ("compact", length 33); the hybrid tags 06/07 and everything
   else are a PointEncoding error.  AffinePoint::from_encoded_point then rejects tag
   05 (unsupported), field elements >= p, non-residues (02/03) and off-curve (04);
   PublicKey rejects the identity.  So exactly the encodings of non-identity curve
   points with canonical coordinates are accepted. *)
Section Sec1.
  Variable lift : Z -> bool -> option point.
  Variable oncurve : point -> bool.
  Definition sec1_decode_g (bs : bytes) : option point :=
    match bs with
    | tag :: rest =>
        if byte_eqb tag x02 || byte_eqb tag x03 then
          if Nat.eqb (length rest) 32 then lift (be_Z rest) (byte_eqb tag x03) else None
        else if byte_eqb tag x04 then
          if Nat.eqb (length rest) 64 then
            let x := be_Z (firstn 32 rest) in
            let y := be_Z (skipn 32 rest) in
            if in_field x && in_field y && oncurve (Some (x, y)) then Some (Some (x, y)) else None
          else None
        else None
    | [] => None
    end.
End Sec1.
Definition sec1_decode : bytes -> option point := sec1_decode_g lift_x on_curve.
Definition sec1_decode_fast : bytes -> option point := sec1_decode_g lift_x_fast on_curve_fast.

(* ------------------------------------------------------------------ *)
(* ECDSA over an abstract group interface.  Scalars are plain Z in [0, n).  *)
Section Ecdsa.
  Variable pt : Type.
  Variable g_smul : Z -> pt -> pt.
  Variable g_add : pt -> pt -> pt.
  Variable g_gen : pt.
  Variable g_x : pt -> Z.            (* affine x, 0 for the identity (k256 AffinePoint) *)
  Variable g_yodd : pt -> bool.
  Variable g_isinf : pt -> bool.
  Variable g_lift : Z -> bool -> option pt.
  Variable n : Z.
  Variable inv_n : Z -> Z.           (* inverse modulo n *)

  (* k256 `impl SignPrimitive<Secp256k1> for Scalar`::try_sign_prehashed.
     d: secret scalar, k: nonce, z: message scalar, all in [0, n).
     Errors: k = 0 (k.is_zero / invert() none), s = 0, r = 0 (Signature::from_scalars).
     The result is low-S normalised; the recovery id is
     RecoveryId::new(is_r_odd ^ is_s_high, false): its x-reduced bit is NEVER set,
     also when x(kG) >= n. *)
  Definition prim_sign_g (d k z : Z) : option (Z * Z * bool) :=
    if k =? 0 then None
    else
      let kinv := inv_n k in
      let R := g_smul k g_gen in
      let r := g_x R mod n in
      let s := (kinv * ((z + r * d) mod n)) mod n in
      if s =? 0 then None
      else if r =? 0 then None
      else
        let high := n / 2 <? s in
        Some (r, if high then n - s else s, xorb (g_yodd R) high).

  (* ecdsa::Signature invariant (TryFrom<&[u8]>): both scalars in [1, n-1] *)
  Definition sig_in_range (r s : Z) : bool :=
    (1 <=? r) && (r <? n) && (1 <=? s) && (s <? n).

  (* k256 `impl VerifyPrimitive<Secp256k1> for AffinePoint`::verify_prehashed:
     rejects high S (s > n/2) BEFORE anything else. *)
  Definition prim_verify_g (Q : pt) (z : Z) (rs : Z * Z) : bool :=
    let '(r, s) := rs in
    if negb (sig_in_range r s) then false
    else if n / 2 <? s then false
    else
      let si := inv_n s in
      let u1 := (z * si) mod n in
      let u2 := (r * si) mod n in
      g_x (g_add (g_smul u1 g_gen) (g_smul u2 Q)) mod n =? r.

  (* k256 recoverable::Signature::recover_verify_key_from_digest_bytes.  Only recovery
     ids 0/1 exist in k256 (Id::new rejects 2, 3), so the id is one bit: "y of R is odd".
     R = decompress(r, odd); pk = (-(r^-1 z)) G + (r^-1 s) R.  The result is returned
     as is; [recover_g] below adds k256's behaviour on the identity. *)
  Definition recover_point_g (r s : Z) (odd : bool) (z : Z) : option pt :=
    match g_lift r odd with
    | None => None
    | Some R =>
        let ri := inv_n r in
        let u1 := (- ((ri * z) mod n)) mod n in
        let u2 := (ri * s) mod n in
        Some (g_add (g_smul u1 g_gen) (g_smul u2 R))
    end.

  (* `VerifyingKey::from(&pk)` = from_encoded_point(..).unwrap(): PANICS when pk is the identity *)
  Definition recover_g (r s : Z) (odd : bool) (z : Z) : outcome pt :=
    if negb (sig_in_range r s) then Err
    else match recover_point_g r s odd z with
         | None => Err
         | Some P => if g_isinf P then Panic else Ok P
         end.

  (* elliptic_curve::ecdh::diffie_hellman: (Q * d).to_affine().x *)
  Definition ecdh_point_g (d : Z) (Q : pt) : pt := g_smul d Q.
  Definition ecdh_g (d : Z) (Q : pt) : Z := g_x (g_smul d Q).
End Ecdsa.

(* reference instance *)
Definition lift_pt (x : Z) (odd : bool) : option point := lift_x x odd.
Definition prim_sign : Z -> Z -> Z -> option (Z * Z * bool) :=
  prim_sign_g point smul G xcoord yodd secp_n sinv.
Definition prim_verify : point -> Z -> Z * Z -> bool :=
  prim_verify_g point smul padd G xcoord secp_n sinv.
Definition recover_point : Z -> Z -> bool -> Z -> option point :=
  recover_point_g point smul padd G lift_x secp_n sinv.
Definition recover : Z -> Z -> bool -> Z -> outcome point :=
  recover_g point smul padd G is_inf lift_x secp_n sinv.
Definition ecdh (d : Z) (Q : point) : Z := ecdh_g point smul xcoord d Q.
Definition pubkey (d : Z) : point := smul d G.

(* execution instance *)
Definition prim_sign_fast : Z -> Z -> Z -> option (Z * Z * bool) :=
  prim_sign_g point smul_fast G xcoord yodd secp_n sinv_fast.
Definition prim_verify_fast : point -> Z -> Z * Z -> bool :=
  prim_verify_g point smul_fast padd_fast G xcoord secp_n sinv_fast.
Definition recover_point_fast : Z -> Z -> bool -> Z -> option point :=
  recover_point_g point smul_fast padd_fast G lift_x_fast secp_n sinv_fast.
Definition recover_fast : Z -> Z -> bool -> Z -> outcome point :=
  recover_g point smul_fast padd_fast G is_inf lift_x_fast secp_n sinv_fast.
Definition ecdh_fast (d : Z) (Q : point) : Z := ecdh_g point smul_fast xcoord d Q.
Definition pubkey_fast (d : Z) : point := smul_fast d G.

(* shared secret as the repository returns it: 32 bytes, big-endian x *)
Definition ecdh_bytes_fast (d : Z) (Q : point) : bytes := be32 (ecdh_fast d Q).
