(* Prim/Pbkdf2.v — PBKDF2 (RFC 2898 §5.2 / RFC 8018), generic over the PRF.
     T_i = U_1 xor U_2 xor ... xor U_c,  U_1 = PRF(P, S || INT_32_BE(i)),  U_j = PRF(P, U_{j-1})
     DK  = first dkLen bytes of T_1 || T_2 || ... || T_l,  l = ceil(dkLen / hLen).
   The iteration count is an N (the library's is a u32); the RFC requires c >= 1, and c = 0
   is given the same meaning as c = 1 here (N subtraction truncates).             *)
From BSV Require Import Base.Bytes Base.Hex Prim.MD Prim.Hmac.

Section Pbkdf2.
  Variable prf : bytes -> bytes -> bytes.   (* prf key message *)
  Variable hlen : nat.                      (* output length of prf *)

  (* state: (U_j, U_1 xor ... xor U_j) *)
  Definition pb_step (pw : bytes) (ua : bytes * bytes) : bytes * bytes :=
    let u' := prf pw (fst ua) in (u', xor_bytes (snd ua) u').

  Definition pb_F (pw salt : bytes) (c : N) (i : N) : bytes :=
    let u1 := prf pw (salt ++ be_bytes 4 i) in
    snd (N.iter (c - 1) (pb_step pw) (u1, u1)).

  Fixpoint pb_T (pw salt : bytes) (c : N) (n : nat) (i : N) : bytes :=
    match n with
    | O => []
    | S n' => pb_F pw salt c i ++ pb_T pw salt c n' (i + 1)
    end.

  Definition pb_blocks (dklen : nat) : nat := (dklen + hlen - 1) / hlen.

  Definition pbkdf2 (pw salt : bytes) (c : N) (dklen : nat) : bytes :=
    firstn dklen (pb_T pw salt c (pb_blocks dklen) 1).

  (* ---------------------------------------------------------------- *)
  Hypothesis prf_length : forall k m, length (prf k m) = hlen.

  Lemma pb_F_length pw salt c i : length (pb_F pw salt c i) = hlen.
  Proof.
    unfold pb_F. cbn zeta.
    set (u1 := prf pw (salt ++ be_bytes 4 i)).
    assert (H : let ua := N.iter (c - 1) (pb_step pw) (u1, u1) in
                length (fst ua) = hlen /\ length (snd ua) = hlen).
    { apply N.iter_invariant.
      - intros [u a] [Hu Ha]. cbn [pb_step fst snd] in *.
        rewrite xor_bytes_length, prf_length, Ha. split; [reflexivity | apply Nat.min_id].
      - cbn [fst snd]. unfold u1. rewrite prf_length. split; reflexivity. }
    apply H.
  Qed.

  Lemma pb_T_length pw salt c n i : length (pb_T pw salt c n i) = n * hlen.
  Proof.
    revert i; induction n as [|n IH]; intros i; cbn [pb_T]; [reflexivity|].
    rewrite app_length, pb_F_length, IH. lia.
  Qed.

  Lemma pb_blocks_enough dklen : 0 < hlen -> dklen <= pb_blocks dklen * hlen.
  Proof.
    intros Hpos. unfold pb_blocks.
    pose proof (Nat.div_mod_eq (dklen + hlen - 1) hlen) as E.
    pose proof (Nat.mod_upper_bound (dklen + hlen - 1) hlen ltac:(lia)) as B.
    set (q := (dklen + hlen - 1) / hlen) in *.
    set (rm := (dklen + hlen - 1) mod hlen) in *.
    rewrite (Nat.mul_comm q hlen). lia.
  Qed.

  Lemma pbkdf2_length pw salt c dklen : 0 < hlen -> length (pbkdf2 pw salt c dklen) = dklen.
  Proof.
    intros Hpos. unfold pbkdf2. apply firstn_length_le.
    rewrite pb_T_length. apply pb_blocks_enough, Hpos.
  Qed.
End Pbkdf2.

Definition pbkdf2_hmac_sha1 : bytes -> bytes -> N -> nat -> bytes := pbkdf2 hmac_sha1 20.
Definition pbkdf2_hmac_sha256 : bytes -> bytes -> N -> nat -> bytes := pbkdf2 hmac_sha256 32.
Definition pbkdf2_hmac_sha512 : bytes -> bytes -> N -> nat -> bytes := pbkdf2 hmac_sha512 64.

Lemma pbkdf2_hmac_sha1_length pw salt c dklen : length (pbkdf2_hmac_sha1 pw salt c dklen) = dklen.
Proof. apply pbkdf2_length; [apply hmac_sha1_length | lia]. Qed.
Lemma pbkdf2_hmac_sha256_length pw salt c dklen : length (pbkdf2_hmac_sha256 pw salt c dklen) = dklen.
Proof. apply pbkdf2_length; [apply hmac_sha256_length | lia]. Qed.
Lemma pbkdf2_hmac_sha512_length pw salt c dklen : length (pbkdf2_hmac_sha512 pw salt c dklen) = dklen.
Proof. apply pbkdf2_length; [apply hmac_sha512_length | lia]. Qed.

(* ------------------------------------------------------------------ *)
Module Pbkdf2Tests.
Local Open Scope string_scope.
Definition s := bytes_of_string.
Definition hx (f : bytes -> bytes -> N -> nat -> bytes) pw salt c l : string := hex_of_bytes (f pw salt c l).
Definition pw24 := s "passwordPASSWORDpassword".
Definition salt36 := s "saltSALTsaltSALTsaltSALTsaltSALTsalt".
Definition pw0 : bytes := s "pass" ++ x00 :: s "word".
Definition salt0 : bytes := s "sa" ++ x00 :: s "lt".

(* RFC 6070 *)
Example rfc6070_1 : hx pbkdf2_hmac_sha1 (s "password") (s "salt") 1 20 = "0c60c80f961f0e71f3a9b524af6012062fe037a6".
Proof. vm_compute; reflexivity. Qed.
Example rfc6070_2 : hx pbkdf2_hmac_sha1 (s "password") (s "salt") 2 20 = "ea6c014dc72d6f8ccd1ed92ace1d41f0d8de8957".
Proof. vm_compute; reflexivity. Qed.
(* RFC6070_4096 *)

(* same inputs as the RFC 6070 25-byte vector with 3 iterations (python hashlib); two blocks, truncated *)
Example pbkdf2_sha1_25 : hx pbkdf2_hmac_sha1 pw24 salt36 3 25 = "12bff094c08980616953161b483d7890d5c26e2b22e694bac5".
Proof. vm_compute; reflexivity. Qed.

(* PBKDF2-HMAC-SHA256 / SHA512, computed with python hashlib.pbkdf2_hmac *)
Example pbkdf2_sha256_1 : hx pbkdf2_hmac_sha256 (s "password") (s "salt") 1 32
  = "120fb6cffcf8b32c43e7225256c4f837a86548c92ccc35480805987cb70be17b".
Proof. vm_compute; reflexivity. Qed.
Example pbkdf2_sha256_2 : hx pbkdf2_hmac_sha256 (s "password") (s "salt") 2 64
  = "ae4d0c95af6b46d32d0adff928f06dd02a303f8ef3c251dfd6e2d85a95474c43830651afcb5c862f0b249bd031f7a67520d136470f5ec271ece91c07773253d9".
Proof. vm_compute; reflexivity. Qed.
Example pbkdf2_sha256_100 : hx pbkdf2_hmac_sha256 pw24 salt36 5 100
  = "e9d88812c44e4f5b13338471494cdb433f99ea807a8e9ede5b43e1e2f0a104616a76bfc627c197cda2a4c03d5a8ab9f7e690ad0e6a3fd313906ff357231cb6f56f5a94e2ecc46a5a37f4cd2317bac02b9dd45af0f6cd13441cb98a4bb2eb36f28d64a1fc".
Proof. vm_compute; reflexivity. Qed.
Example pbkdf2_sha256_nul : hx pbkdf2_hmac_sha256 pw0 salt0 3 16 = "f9ae1a3213f419738b54954ba60cd651".
Proof. vm_compute; reflexivity. Qed.
Example pbkdf2_sha512_1 : hx pbkdf2_hmac_sha512 (s "password") (s "salt") 1 32
  = "867f70cf1ade02cff3752599a3a53dc4af34c7a669815ae5d513554e1c8cf252".
Proof. vm_compute; reflexivity. Qed.
Example pbkdf2_sha512_2 : hx pbkdf2_hmac_sha512 (s "password") (s "salt") 2 64
  = "e1d9c16aa681708a45f5c7c4e215ceb66e011a2e9f0040713f18aefdb866d53cf76cab2868a39b9f7840edce4fef5a82be67335c77a6068e04112754f27ccf4e".
Proof. vm_compute; reflexivity. Qed.
Example pbkdf2_sha512_100 : hx pbkdf2_hmac_sha512 pw24 salt36 5 100
  = "dbfaa4c5e70a1dc6967b73a8dcdbd6e7c60bbe94c3cd2c7dac80fb84db4fe41a6016e82f75b3c22e30246951719902a856332715d5d09a34eb60afc9a9581e546cf8d41d6e27986a5f2c47ad667c9c08d3559d7dfec0a19a5834c98fe8a414a2c97fdf1c".
Proof. vm_compute; reflexivity. Qed.
Example pbkdf2_sha512_nul : hx pbkdf2_hmac_sha512 pw0 salt0 3 16 = "c8b254d6d32a42d5abadd31db0f4ab08".
Proof. vm_compute; reflexivity. Qed.

(* password longer than the block (hashed by HMAC), 7 iterations, output not a multiple of hLen *)
Example pbkdf2_sha256_long : hx pbkdf2_hmac_sha256 (lcg_bytes 70 3) (lcg_bytes 33 4) 7 131
  = "9b0936ca46b7701043e5b63671042ed7d755ba3e56f33c2f89663653563313ad4d67b726f69bf038abd3688c3b207743118b184fe0d9dca90dacbe23bcad125d67167f0d21ce3bd591090c5754cfb6e0c1bf40570d81d976ad962babf61bd2bdb9336c906abbb8939a612f44aa75d8b8e974469050f6df21a97bbe88c0de3bff6e94c9".
Proof. vm_compute; reflexivity. Qed.
Example pbkdf2_sha512_long : hx pbkdf2_hmac_sha512 (lcg_bytes 130 3) (lcg_bytes 33 4) 7 131
  = "a3a16cd1f8b0bfc2174f2b80ff11c83bfd9b665e42d81f4e3943b542d60cb6fad0b8e586020f404b4501cd6f6fda72b29591b71cfc100ed9ea1734ad5e4417e33fcd9a66e21ac50814e0464d7d8e239f8785ce2e86023e6b655cc5f35d17f10bc5e9ddd4e49f4c1491f4552efa427b8200c8d10e9a92c9cee114b419d701800338193b".
Proof. vm_compute; reflexivity. Qed.
Example pbkdf2_sha1_long : hx pbkdf2_hmac_sha1 (lcg_bytes 70 3) (lcg_bytes 33 4) 7 61
  = "e4c5f47abf4e6b677ab46b3cecd250a720102551cf8e47bf3adb1728fc09a72b9837d2f8d6bcd9b11fcc1b0dc01f760141ace6d02dcce8a9773ce90a19".
Proof. vm_compute; reflexivity. Qed.
End Pbkdf2Tests.
