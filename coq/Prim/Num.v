(* Prim/Num.v — a record of integer operations, instantiated with Z (the
   reference instance: every theorem is about it) and with Bignums.BigZ
   (execution only; fast under vm_compute).

   [num_ok o] says that every operation of [o] commutes with [n_to_Z o];
   [Z_ops_ok] is trivial and [BigZ_ops_ok] follows from the BigZ.spec_*
   lemmas.  Generic code written over [num_ops] is proved once to refine its
   own Z instance (see Prim/Secp256k1.v, section Refine). *)
From BSV Require Import Base.Bytes.
From Bignums Require BigZ.

Record num_ops (T : Type) : Type := MkNumOps {
  n_of_Z : Z -> T;
  n_to_Z : T -> Z;
  n_add  : T -> T -> T;
  n_sub  : T -> T -> T;
  n_mul  : T -> T -> T;
  n_div  : T -> T -> T;          (* floor division, Z.div *)
  n_mod  : T -> T -> T;          (* Z.modulo: sign of the divisor *)
  n_eqb  : T -> T -> bool;
  n_ltb  : T -> T -> bool;
  n_even : T -> bool
}.
Arguments n_of_Z {T} _ _.
Arguments n_to_Z {T} _ _.
Arguments n_add {T} _ _ _.
Arguments n_sub {T} _ _ _.
Arguments n_mul {T} _ _ _.
Arguments n_div {T} _ _ _.
Arguments n_mod {T} _ _ _.
Arguments n_eqb {T} _ _ _.
Arguments n_ltb {T} _ _ _.
Arguments n_even {T} _ _.

Record num_ok {T : Type} (o : num_ops T) : Prop := MkNumOk {
  ok_of_Z : forall z, n_to_Z o (n_of_Z o z) = z;
  ok_add  : forall a b, n_to_Z o (n_add o a b) = (n_to_Z o a + n_to_Z o b)%Z;
  ok_sub  : forall a b, n_to_Z o (n_sub o a b) = (n_to_Z o a - n_to_Z o b)%Z;
  ok_mul  : forall a b, n_to_Z o (n_mul o a b) = (n_to_Z o a * n_to_Z o b)%Z;
  ok_div  : forall a b, n_to_Z o (n_div o a b) = (n_to_Z o a / n_to_Z o b)%Z;
  ok_mod  : forall a b, n_to_Z o (n_mod o a b) = (n_to_Z o a mod n_to_Z o b)%Z;
  ok_eqb  : forall a b, n_eqb o a b = (n_to_Z o a =? n_to_Z o b)%Z;
  ok_ltb  : forall a b, n_ltb o a b = (n_to_Z o a <? n_to_Z o b)%Z;
  ok_even : forall a, n_even o a = Z.even (n_to_Z o a)
}.

(* ------------------------------------------------------------------ *)
(* Reference instance.                                                  *)
Definition Z_ops : num_ops Z :=
  MkNumOps Z (fun z => z) (fun z => z) Z.add Z.sub Z.mul Z.div Z.modulo Z.eqb Z.ltb Z.even.

Lemma Z_ops_ok : num_ok Z_ops.
Proof. constructor; reflexivity. Qed.

(* ------------------------------------------------------------------ *)
(* Execution instance.                                                  *)
Definition BigZ_ops : num_ops BigZ.BigZ.t :=
  MkNumOps BigZ.BigZ.t BigZ.BigZ.of_Z BigZ.BigZ.to_Z
           BigZ.BigZ.add BigZ.BigZ.sub BigZ.BigZ.mul BigZ.BigZ.div BigZ.BigZ.modulo
           BigZ.BigZ.eqb BigZ.BigZ.ltb BigZ.BigZ.even.

Lemma BigZ_ops_ok : num_ok BigZ_ops.
Proof.
  constructor; cbn [BigZ_ops n_of_Z n_to_Z n_add n_sub n_mul n_div n_mod n_eqb n_ltb n_even].
  - apply BigZ.BigZ.spec_of_Z.
  - apply BigZ.BigZ.spec_add.
  - apply BigZ.BigZ.spec_sub.
  - apply BigZ.BigZ.spec_mul.
  - apply BigZ.BigZ.spec_div.
  - apply BigZ.BigZ.spec_modulo.
  - apply BigZ.BigZ.spec_eqb.
  - apply BigZ.BigZ.spec_ltb.
  - apply BigZ.BigZ.spec_even.
Qed.
