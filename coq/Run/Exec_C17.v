(* Run/Exec_C17.v — executable entry point of the C17 correspondence check.
   run op args = "<implementation model output>|<specification output>|<known-finding class or ->" *)
From BSV Require Import Base.Hex Model.Opcodes Model.Script Model.Asm Spec.ScriptTok Spec.AsmSpec.

Definition out3 (impl spec known : string) : string := impl +++ "|" +++ spec +++ "|" +++ known.

(* Outside the quantifier of the round-trip / rendering statements the property still demands totality
   (rendering and parsing never panic).  The comparison language cannot wildcard the first field, so the
   expected value printed for such inputs is the model's own non-panicking output: a panic or abort of the
   library is then a specification violation with the failing input attached. *)
Definition total_only (impl : string) : string := if String.eqb impl "PANIC" then "ERR" else impl.

(* text travels as the hex of its bytes (checksummed above 1024 bytes, like every byte string) *)
Definition show_text (s : string) : string := show_bytes (bytes_of_string s).

Definition show_script (r : outcome (list bit)) : string :=
  match r with
  | Ok s => "OK:" +++ show_bytes (to_bytes s) +++ ";" +++ show_bits s
  | Err => "ERR"
  | Panic => "PANIC"
  end.

Definition nonempty_push (t : tok) : bool :=
  match t with TPush _ [] => false | _ => true end.

(* script.to_asm / script.to_ext_asm : bytes -> from_bytes -> rendering *)
Definition run_to_asm (ext : bool) (bs : bytes) : string :=
  let impl := match from_bytes bs with
              | Ok s => "OK:" +++ show_text (to_asm ext s)
              | Err => "ERR" | Panic => "PANIC" end in
  let spec := match tokenize_spec bs with
              | TokOk ts =>
                  if balanced ts then
                    if ext then "OK:" +++ show_text (render_ext ts)
                    else if forallb nonempty_push ts then "OK:" +++ show_text (render_plain ts) else total_only impl
                  else "ERR"
              | TokBad => "ERR"
              | TokTruncDirect => total_only impl
              end in
  out3 impl spec "-".

Definition ascii_only (s : string) : bool := all_chars (fun c => (N_of_ascii c <? 128)%N) s.

(* script.from_asm : text -> bytes ; tree *)
Definition run_from_asm (t : string) : string :=
  let impl := show_script (from_asm t) in
  if ascii_only t then
    let spec := match parse_spec t with
                | Some ts => "OK:" +++ show_bytes (toks_bytes ts) +++ ";*"
                | None => "ERR"
                end in
    out3 impl spec "-"
  else out3 impl (total_only impl) "-".

(* script.asm_roundtrip : bytes -> from_bytes -> to_asm -> from_asm -> bytes, to_asm *)
Definition run_roundtrip (bs : bytes) : string :=
  let impl :=
    match from_bytes bs with
    | Ok s =>
        let t1 := to_asm false s in
        match from_asm t1 with
        | Ok s2 => "OK:" +++ show_text t1 +++ ";" +++ show_bytes (to_bytes s2) +++ ";" +++ show_text (to_asm false s2)
        | Err => "OK:" +++ show_text t1 +++ ";ERR;"
        | Panic => "PANIC"
        end
    | Err => "ERR" | Panic => "PANIC"
    end in
  match tokenize_spec bs with
  | TokOk ts =>
      if balanced ts then
        if forallb minimal_tok ts then
          let t := show_text (render_plain ts) in
          out3 impl ("OK:" +++ t +++ ";" +++ show_bytes bs +++ ";" +++ t)
               (if existsb numeric_tok ts then "ambiguous-numeric-push" else "-")
        else out3 impl (total_only impl) "-"
      else out3 impl "ERR" "-"
  | TokBad => out3 impl "ERR" "-"
  | TokTruncDirect => out3 impl (total_only impl) "-"
  end.

(* P2PKHAddress::get_locking_script: the address formats its 20-byte hash into ASM text *)
Definition push_bytes (d : bytes) : bytes := minimal_prefix (N.of_nat (length d)) ++ d.

Definition run_locking (h : bytes) : string :=
  if Nat.eqb (length h) 20 then
    out3 (show_script (from_asm ("OP_DUP OP_HASH160 " +++ hex_of_bytes h +++ " OP_EQUALVERIFY OP_CHECKSIG")))
         ("OK:" +++ show_bytes ([x76; xa9] ++ push_bytes h ++ [x88; xac]) +++ ";*") "-"
  else out3 "ERR" "ERR" "-".

(* P2PKHAddress::get_unlocking_script: "<sig||flag hex> <pubkey hex>" through from_asm_string.
   The driver checks that the key and the signature are real and canonically encoded. *)
Definition run_unlocking (pk sig : bytes) (flag : N) : string :=
  let sf := sig ++ [n2b flag] in
  out3 (show_script (from_asm (hex_of_bytes sf +++ " " +++ hex_of_bytes pk)))
       ("OK:" +++ show_bytes (push_bytes sf ++ push_bytes pk) +++ ";*") "-".

(* script.build_history : one Script object grown from parsed chunks (push / push_array / from_script_bits / clone),
   observed after every step.  The modes only differ in the library calls; the object is the concatenation of the
   chunks' trees.  Expected values depend on the bytes accumulated so far only (independent flat tokenizer). *)
Definition obs3 (a b c : string) : string := a +++ "," +++ b +++ "," +++ c.
Definition obs_impl (s : list bit) : string :=
  obs3 (show_text (to_asm false s)) (show_text (to_asm true s)) (show_bytes (to_bytes s)).
Definition obs_spec (bs : bytes) : string :=
  match tokenize_spec bs with
  | TokOk ts => if forallb nonempty_push ts
                then obs3 (show_text (render_plain ts)) (show_text (render_ext ts)) (show_bytes bs) else "*"
  | _ => "*"
  end.

Fixpoint build_run (chunks : list string) (s : list bit) (bs : bytes) (strict : bool) (acc_i acc_s : list string) : string :=
  match chunks with
  | [] =>
      let back := match from_asm (to_asm false s) with
                  | Ok s2 => show_bytes (to_bytes s2) | Err => "ERR" | Panic => "PANIC" end in
      let same := match from_bytes (to_bytes s) with
                  | Ok p => if String.eqb (to_asm false p) (to_asm false s) then
                              if String.eqb (to_asm true p) (to_asm true s) then "y" else "n" else "n"
                  | _ => "n" end in
      let spec_back :=
        if strict then
          match tokenize_spec bs with
          | TokOk ts => if forallb minimal_tok ts then show_bytes bs else "*"
          | _ => "*" end
        else "*" in
      let known := if strict then match tokenize_spec bs with
                                  | TokOk ts => if forallb minimal_tok ts then (if existsb numeric_tok ts then "ambiguous-numeric-push" else "-") else "-"
                                  | _ => "-" end else "-" in
      out3 ("OK:" +++ join ";" (rev acc_i) +++ ";" +++ back +++ ";" +++ same)
           ("OK:" +++ join ";" (rev acc_s) +++ ";" +++ spec_back +++ ";" +++ (if strict then "y" else "*")) known
  | ch :: r =>
      match split "." ch with
      | [m; d] =>
          if existsb (String.eqb m) ["p"; "a"; "n"; "c"] then
            match expand d with
            | Some b =>
                match from_bytes b with
                | Ok t =>
                    let s' := s ++ t in
                    let ok := match tokenize_spec b with TokOk _ => true | _ => false end in
                    let bs' := bs ++ b in
                    let strict' := strict && ok in
                    build_run r s' bs' strict' (obs_impl s' :: acc_i) ((if strict' then obs_spec bs' else "*") :: acc_s)
                | _ => "BADARG"
                end
            | None => "BADARG"
            end
          else "BADARG"
      | _ => "BADARG"
      end
  end.
Definition run_build (a : string) : string :=
  build_run (match a with EmptyString => [] | _ => split "/" a end) [] [] true [obs_impl []] [obs_spec []].

Definition run (op : string) (args : list string) : string :=
  match op, args with
  | "script.to_asm", [a] => match expand a with Some bs => run_to_asm false bs | None => "BADARG" end
  | "script.to_ext_asm", [a] => match expand a with Some bs => run_to_asm true bs | None => "BADARG" end
  | "script.from_asm", [a] => match expand a with Some bs => run_from_asm (string_of_bytes bs) | None => "BADARG" end
  | "script.build_history", [a] => run_build a
  | "script.asm_roundtrip", [a] => match expand a with Some bs => run_roundtrip bs | None => "BADARG" end
  | "p2pkh.locking_script", [a] => match expand a with Some h => run_locking h | None => "BADARG" end
  | "p2pkh.unlocking_script", [a; b; c] =>
      match expand a, expand b, N_of_dec c with
      | Some pk, Some sg, Some f => if (f <? 256)%N then run_unlocking pk sg f else "BADARG"
      | _, _, _ => "BADARG"
      end
  | _, _ => "BADOP"
  end.
