(* Run/Exec_C12.v — executable entry point of the C12 correspondence check (Bitcoin Signed Message).
   run op args = "<implementation model output>|<specification output>|-"

   <impl>: Model/Bsm.v over the execution instance (BigZ) of the curve.  The digest of the magic message is
   computed once per case (sign_with_digest / verify_with_digest, equal to sign_impl / verify_message_impl by
   Proofs/BsmProofs.v) and the elliptic-curve results needed to verify the genuine signature are computed once
   and looked up (memo_prims: extensionally equal to fast_prims, Proofs/BsmProofs.v memo lemmas).
   <spec>: Spec/BsmSpec.v — double SHA-256 of compact(24)||magic||compact(|msg|)||msg, RFC 6979 signature over it
   by the Prim references, header 27 + recid + 4*compressed; genuine signatures verify (1), tampered ones do not (ERR).

   ops (compressed = 0|1, prefix = one byte in hex):
     bsm.sign key compressed msg                  -> compact signature (65 bytes)
     bsm.sign_k key compressed nonce ncompressed msg prefix -> compact signature; verify against own address
     bsm.compact_verify key compressed msg prefix -> compact; verify; verify after compact round trip;
                                                    plain ECDSA verify_digest(Sha256d) over the independently built preimage
     bsm.verify msg compact prefix hash           -> 1 | ERR
     bsm.tamper key compressed msg prefix kind i  -> verify;is_valid_message;is_valid_bitcoin_message after tampering: m = message bit i (or a byte appended),
                                                    s = bit i of the compact signature, h = bit i of the address hash,
                                                    c = address of the other compression form, k = address of key i,
                                                    p = untampered, address re-prefixed with byte i (positive control) *)
From BSV Require Import Base.Hex.
From BSV Require Import Prim.Num Prim.Secp256k1 Prim.Sha256 Prim.Ripemd160 Prim.Hmac Prim.Rfc6979.
From BSV Require Import Model.HashApi Model.VarInt Model.Ecdsa Model.Sig Model.Bsm Spec.BsmSpec.
From BSV Require Import Run.BsmMemo.
From BSV Require Model.Keys.
Local Open Scope Z_scope.

Definition out3 (impl spec known : string) : string := impl +++ "|" +++ spec +++ "|" +++ known.

(* ------------------------------------------------------------------ *)
Definition flag (b : bool) : string := if b then "1" else "0".
Definition show_v (r : outcome bool) : string :=
  match r with Ok true => "1" | Ok false => "0" | Err => "E" | Panic => "P" end.
Definition show_verify (r : outcome bool) : string :=
  match r with Ok true => "OK:1" | Ok false => "OK:0" | Err => "ERR" | Panic => "PANIC" end.

Definition key_of (kb : bytes) (c : bool) : outcome privkey :=
  do k <- privkey_from_bytes kb; Ok (compress_public_key k c).

Definition own_address (P : ec_prims) (sk : privkey) (prefix : byte) : outcome Keys.address :=
  do a <- Keys.addr_from_pubkey (keys_pub (to_public_key P sk)); Keys.addr_set_chain a prefix.

Definition make_addr (p : byte) (h : bytes) : outcome Keys.address :=
  do a <- Keys.addr_from_pubkey_hash h; Keys.addr_set_chain a p.

Definition odd_of (sg : signature) : bool := match sig_rec sg with Some ri => ri_y_odd ri | None => false end.

Definition run_sign (kb : bytes) (c : bool) (msg : bytes) : string :=
  match key_of kb c with
  | Ok sk =>
      out3 (match sign_with_digest fast_prims sk (magic_digest msg) with
            | Ok sg => "OK:" +++ hex_of_bytes (to_compact_bytes sg None) | Err => "ERR" | Panic => "PANIC" end)
           (match bsm_sign_spec (sk_d sk) c msg with Some b => "OK:" +++ hex_of_bytes b | None => "-" end) "-"
  | _ => out3 "ERR" "ERR" "-"
  end.

Definition is_ok (r : outcome bool) : string := match r with Ok true => "1" | _ => "0" end.

(* the nonce key carries a compression marker of its own (nc); the signature must carry the signer's *)
Definition run_sign_k (kb : bytes) (c : bool) (nb : bytes) (nc : bool) (msg : bytes) (p : byte) : string :=
  match key_of kb c, key_of nb nc with
  | Ok sk, Ok ek =>
      out3 (match sign_with_k_impl fast_prims sk ek msg, own_address fast_prims sk p with
            | Ok sg, Ok a => "OK:" +++ hex_of_bytes (to_compact_bytes sg None) +++ ";"
                             +++ show_v (verify_with_digest fast_prims (magic_digest msg) sg a)
            | Panic, _ => "PANIC" | _, Panic => "PANIC"
            | _, _ => "ERR" end)
           (match prim_sign_fast (sk_d sk) (sk_d ek) (be_Z (bsm_digest msg) mod secp_n) with
            | Some (r, s, v) => "OK:" +++ hex_of_bytes (bsm_compact r s v c) +++ ";1" | None => "ERR" end) "-"
  | _, _ => out3 "ERR" "ERR" "-"
  end.

Definition rec_own (M : ec_prims) (sg : signature) (dg : bytes) (pk : pubkey) : string :=
  match get_public_key_from_digest M sg dg with
  | Ok q => if bytes_eqb (pk_point q) (pk_point pk) then "1" else "0"
  | Err => "E" | Panic => "P"
  end.

Definition addr_eqb (x y : Keys.address) : bool :=
  byte_eqb (Keys.a_prefix x) (Keys.a_prefix y) && bytes_eqb (Keys.a_hash x) (Keys.a_hash y)
  && bytes_eqb (Keys.a_checksum x) (Keys.a_checksum y).

Definition routes_verify (M : ec_prims) (dg : bytes) (sg : signature) (sk : privkey) (p : byte) (a : Keys.address) : string :=
  let P := p_pubkey M (sk_d sk) in
  let C := {| Keys.ci_pubkey := fun _ => P; Keys.ci_decode := sec1_decode_fast; Keys.ci_lift := lift_x_fast |} in
  let kk := {| Keys.sk_scalar := sk_d sk; Keys.sk_compressed := sk_compressed sk |} in
  let re (x : outcome Keys.address) := do y <- x; Keys.addr_set_chain y p in
  let via_method := Keys.to_public_key C kk in                       (* k.to_public_key() *)
  let via_assoc := Ok (Keys.pub_from_private C kk) in                (* PublicKey::from_private_key(&k) *)
  let routes : list (outcome Keys.address) :=
    [ re (do q <- via_method; Keys.pub_to_address q);
      re (do q <- via_assoc; Keys.pub_to_address q);
      re (do q <- via_method; Keys.addr_from_pubkey q);
      re (do q <- via_assoc; Keys.addr_from_pubkey q);
      re (Keys.addr_from_pubkey_hash (hash_160 (Keys.pk_point (Keys.pub_from_private C kk))));
      Keys.addr_from_string (Keys.addr_to_string a);
      re (do q0 <- via_method; do q <- Keys.pub_from_hex C (hex_of_bytes (Keys.pk_point q0)); Keys.pub_to_address q) ] in
  let one (r : outcome Keys.address) : string * bool :=
    match r with
    | Ok x => (show_v (verify_with_digest M dg sg x), addr_eqb x a)
    | _ => ("N", false)
    end in
  let rs := map one routes in
  fold_right (fun x acc => fst x +++ acc) "" rs +++ ";" +++ flag (forallb snd rs).

Definition run_compact_verify (kb : bytes) (c : bool) (msg : bytes) (prefix : byte) : string :=
  match key_of kb c with
  | Ok sk =>
      let dg := magic_digest msg in
      let impl :=
        match sign_with_digest fast_prims sk dg with
        | Ok sg =>
            let M := memo_prims (sig_r sg) (sig_s sg) (odd_of sg) (scalar_be dg) in
            let cb := to_compact_bytes sg None in
            let pk := to_public_key fast_prims sk in
            match own_address fast_prims sk prefix with
            | Ok a =>
                let v1 := verify_with_digest M dg sg a in
                "OK:" +++ hex_of_bytes cb
                +++ ";" +++ show_v v1
                +++ ";" +++ show_v (do sg' <- from_compact_impl cb; verify_with_digest M dg sg' a)
                (* ECDSA::verify_digest(preimage built by the driver itself, pubkey, sig, Sha256d) *)
                +++ ";" +++ show_v (match p_decode M (pk_point pk) with
                                    | None => Err
                                    | Some Q => if p_verify M Q (scalar_be (bsm_digest msg)) (sig_r sg, sig_s sg) then Ok true else Err
                                    end)
                (* BSM::is_valid_message, P2PKHAddress::is_valid_bitcoin_message = verify_message_impl(..).is_ok() *)
                +++ ";" +++ is_ok v1 +++ ";" +++ is_ok v1
                (* Signature::recover_public_key_from_digest(digest computed by the driver) = the signer's key, in its form *)
                +++ ";" +++ rec_own M sg (bsm_digest msg) pk
                +++ ";" +++ match from_compact_impl cb with Ok sg' => rec_own M sg' (bsm_digest msg) pk | _ => "E" end
                (* the signer's address through every public route (to_public_key / from_private_key x to_p2pkh_address /
                   from_pubkey, from_pubkey_hash(hash_160(get_point)), from_string(to_string), from_hex(to_hex)), re-prefixed *)
                +++ ";" +++ routes_verify M dg sg sk prefix a
            | Err => "ERR" | Panic => "PANIC"
            end
        | Err => "ERR" | Panic => "PANIC"
        end in
      out3 impl (match bsm_sign_spec (sk_d sk) c msg with
                 | Some b => "OK:" +++ hex_of_bytes b +++ ";1;1;1;1;1;1;1;1111111;1" | None => "-" end) "-"
  | _ => out3 "ERR" "ERR" "-"
  end.

Definition run_verify (msg cb : bytes) (p : byte) (h : bytes) : string :=
  out3 (show_verify (do sg <- from_compact_impl cb; do a <- make_addr p h;
                     verify_with_digest fast_prims (magic_digest msg) sg a)) "ERR~OK:1" "-".

Definition flip_bit (bs : bytes) (i : nat) : bytes :=
  let k := Nat.div i 8 in
  match nth_error bs k with
  | Some b => firstn k bs ++ n2b (N.lxor (b2n b) (2 ^ N.of_nat (Nat.modulo i 8))) :: skipn (S k) bs
  | None => bs ++ [x00]
  end.

Definition show_t (r : outcome bool) : string :=
  match r with Panic => "PANIC" | _ => "OK:" +++ show_v r +++ ";" +++ is_ok r +++ ";" +++ is_ok r +++ ";" +++ show_v r end.

(* a message RELATED to m (same table as the driver) *)
Definition is_wsb (b : byte) : bool := let n := b2n b in ((9 <=? n)%N && (n <=? 13)%N) || (n =? 32)%N.
Fixpoint lstrip (m : bytes) : bytes := match m with b :: r => if is_wsb b then lstrip r else m | [] => [] end.
Definition up_b (b : byte) : byte := let n := b2n b in if (97 <=? n)%N && (n <=? 122)%N then n2b (n - 32) else b.
Definition lo_b (b : byte) : byte := let n := b2n b in if (65 <=? n)%N && (n <=? 90)%N then n2b (n + 32) else b.
Fixpoint dbl_space (m : bytes) : option bytes :=
  match m with
  | [] => None
  | b :: r => if byte_eqb b x20 then Some (x20 :: b :: r)
              else match dbl_space r with Some r' => Some (b :: r') | None => None end
  end.
Definition related (m : bytes) (i : N) : bytes :=
  match i with
  | 0 => x20 :: m | 1 => m ++ [x0a] | 2 => m ++ [x20] | 3 => x09 :: m
  | 4 => rev (lstrip (rev (lstrip m)))
  | 5 => [xef; xbb; xbf] ++ m | 6 => m ++ [x00]
  | 7 => map up_b m | 8 => map lo_b m
  | 9 => match dbl_space m with Some v => v | None => m ++ [x20; x20] end
  | 10 => m ++ [x0d; x0a] | 11 => x0c :: m | 12 => x0b :: m | 13 => x0a :: m ++ [x09]
  | _ => x00 :: m
  end%N.

Definition run_tamper (kb : bytes) (c : bool) (msg : bytes) (p : byte) (kind : string) (i : N) : string :=
  match key_of kb c with
  | Ok sk =>
      let dg := magic_digest msg in
      let idx := N.to_nat (N.min i 1000000) in
      let impl :=
        match sign_with_digest fast_prims sk dg, own_address fast_prims sk p with
        | Ok sg, Ok a =>
            match kind with
            | "m" => show_t (verify_with_digest fast_prims (magic_digest (flip_bit msg idx)) sg a)
            | "w" => show_t (verify_with_digest fast_prims (magic_digest (related msg i)) sg a)
            | "s" => show_t (do sg' <- from_compact_impl (flip_bit (to_compact_bytes sg None) (Nat.modulo idx 520));
                                  verify_with_digest fast_prims dg sg' a)
            | "h" => show_t (do a' <- make_addr p (flip_bit (Keys.a_hash a) (Nat.modulo idx 160));
                                  verify_with_digest fast_prims dg sg a')
            | "c" => show_t (do a' <- own_address fast_prims (compress_public_key sk (negb c)) p;
                                  verify_with_digest fast_prims dg sg a')
            | "k" => show_t (do a' <- own_address fast_prims {| sk_d := Z.of_N i; sk_compressed := c |} p;
                                  verify_with_digest fast_prims dg sg a')
            | "p" => show_t (do a' <- Keys.addr_set_chain a (n2b i); verify_with_digest fast_prims dg sg a')
            | "q" => show_t (do a1 <- Keys.addr_set_chain a (n2b i); do a2 <- Keys.addr_set_chain a1 x00;
                             do a3 <- Keys.addr_set_chain a2 p; verify_with_digest fast_prims dg sg a3)
            | "o" => let sk2 := compress_public_key sk (negb c) in
                     show_t (do sg2 <- sign_with_digest fast_prims sk2 dg; do a' <- own_address fast_prims sk2 p;
                             verify_with_digest fast_prims dg sg2 a')
            | _ => "BADARG"
            end
        | Panic, _ => "PANIC" | _, Panic => "PANIC"
        | _, _ => "ERR"
        end in
      out3 impl (match kind with
                 | "p" => "OK:1;1;1;1" | "q" => "OK:1;1;1;1" | "o" => "OK:1;1;1;1"
                 | "w" => if bytes_eqb (related msg i) msg then "OK:1;1;1;1" else "OK:E;0;0;E"   (* the SAME message must verify *)
                 | _ => "OK:E;0;0;E" end) "-"
  | _ => out3 "ERR" "ERR" "-"
  end.

(* ------------------------------------------------------------------ *)
Definition arg_flag (s : string) : option bool :=
  match s with "0" => Some false | "1" => Some true | _ => None end.
Definition arg_byte (s : string) : option byte :=
  match bytes_of_hex s with Some [b] => Some b | _ => None end.

Definition run (op : string) (args : list string) : string :=
  match op, args with
  | "bsm.sign", [k; c; m] =>
      match expand k, arg_flag c, expand m with
      | Some kb, Some cb, Some mb => run_sign kb cb mb | _, _, _ => "BADARG" end
  | "bsm.sign_k", [k; c; n; nc; m; p] =>
      match expand k, arg_flag c, expand n, arg_flag nc, expand m, arg_byte p with
      | Some kb, Some cb, Some nb, Some ncb, Some mb, Some pb => run_sign_k kb cb nb ncb mb pb
      | _, _, _, _, _, _ => "BADARG" end
  | "bsm.compact_verify", [k; c; m; p] =>
      match expand k, arg_flag c, expand m, arg_byte p with
      | Some kb, Some cb, Some mb, Some pb => run_compact_verify kb cb mb pb | _, _, _, _ => "BADARG" end
  | "bsm.verify", [m; s; p; h] =>
      match expand m, expand s, arg_byte p, expand h with
      | Some mb, Some sb, Some pb, Some hb => run_verify mb sb pb hb | _, _, _, _ => "BADARG" end
  | "bsm.tamper", [k; c; m; p; kind; i] =>
      match expand k, arg_flag c, expand m, arg_byte p, N_of_dec i with
      | Some kb, Some cb, Some mb, Some pb, Some iv => run_tamper kb cb mb pb kind iv
      | _, _, _, _, _ => "BADARG" end
  | _, _ => "BADOP"
  end.
