(* Run/Exec_C15.v — executable entry point of the C15 correspondence check (BigZ instance of the curve).
   run op args = "<implementation model output>|<specification output>|<known-finding class or ->"
   op (driver side: harness/src/ops_c15.rs):
     interp.spend <tx> <idx> <ext>   ->  OK:<stack items>;<codeseparator_offset>  |  ERR
       ext = `_` or entries `<sat|n>.<locking script descriptor|n>` joined by `,`, entry k for input k
   Implementation column: Model/InterpSig.v (from_transaction + run over Model/Interp.v).
   Specification column: Spec/SpendSpec.v — for locking scripts of the P2PK / P2PKH / m-of-n families (code
   separators anywhere at top level) with push-only unlocking scripts of the exact arity:
     accept (final stack = one true element)  iff  the independent characterisation holds,
   otherwise a rejection (an error, or a false element on the stack).  `-` outside the families. *)
From BSV Require Import Base.Hex Prim.Num Prim.Secp256k1 Prim.Der Prim.Sha256 Prim.Ripemd160.
From BSV Require Import Model.Opcodes Model.Script Model.VarInt Model.Tx Model.HashApi Model.Sighash Model.Ecdsa Model.Sig
  Model.Interp Model.InterpSig.
From BSV Require Import Spec.ScriptTok Spec.SighashWire Spec.Bip143 Spec.LegacySighash Spec.SpendSpec.

Definition out3 (impl spec known : string) : string := impl +++ "|" +++ spec +++ "|" +++ known.
Definition FP := fast_prims.

Fixpoint show_items (v : list bytes) : string :=
  match v with [] => "" | x :: r => show_bytes x +++ "," +++ show_items r end.

(* ------------------------------------------------------------------ *)
(* the `ext` argument *)
Definition ext_entry : Type := (option N * option bytes)%type.
Definition parse_entry (s : string) : option ext_entry :=
  match split "." s with
  | [a; b] =>
      match (if String.eqb a "n" then Some None else option_map Some (N_of_dec a)),
            (if String.eqb b "n" then Some None else option_map Some (expand b)) with
      | Some sat, Some lock =>
          match sat with
          | Some v => if (v <=? 18446744073709551615)%N then Some (sat, lock) else None
          | None => Some (sat, lock)
          end
      | _, _ => None
      end
  | _ => None
  end.
Fixpoint parse_entries (l : list string) : option (list ext_entry) :=
  match l with
  | [] => Some []
  | s :: r => match parse_entry s, parse_entries r with
              | Some e, Some es => Some (e :: es)
              | _, _ => None
              end
  end.
Definition parse_ext (s : string) : option (list ext_entry) :=
  if String.eqb s "_" then Some [] else parse_entries (split "," s).

(* the driver's apply_ext: entry k goes to input k when that input exists (entries beyond the inputs are
   ignored without being parsed); an unparseable locking script is an error *)
Fixpoint apply_ext (ins : list txin) (es : list ext_entry) : outcome (list txin) :=
  match ins, es with
  | [], _ => Ok []
  | _, [] => Ok ins
  | i :: ir, (sat, lock) :: er =>
      let i1 := match sat with Some v => set_satoshis i v | None => i end in
      do i2 <- match lock with
               | Some lb => do l <- from_bytes lb; Ok (set_locking_script i1 l)
               | None => Ok i1
               end;
      do rest <- apply_ext ir er;
      Ok (i2 :: rest)
  end.

Definition clamp_idx (t : tx) (idx : N) : nat := N.to_nat (N.min idx (N.of_nat (length (inputs t)))).

(* ------------------------------------------------------------------ *)
(* implementation column *)
Definition impl_spend (t : tx) (i : nat) : string :=
  match spend FP t i with
  | Err => "ERR"
  | Panic => "PANIC"
  | Ok (RunOk j) => let st := istate j in
                    "OK:" +++ show_items (stack st) +++ ";" +++ dec_of_N (N.of_nat (codesep st))
  | Ok (RunErr _) => "ERR"
  | Ok RunPanic => "PANIC"
  | Ok RunOutOfFuel => "FUEL"
  end.

(* ------------------------------------------------------------------ *)
(* specification column *)
Definition H_spec (b : bytes) : bytes := sha256 (sha256 b).
Definition H160_spec (b : bytes) : bytes := ripemd160 (sha256 b).

Definition spec_expected := expected H_spec H160_spec sec1_decode_fast prim_verify_fast.

Definition spec_spend (t : tx) (i : nat) (es : list ext_entry) : string :=
  match nth_error es i, nth_error (inputs t) i with
  | Some (Some amount, Some lockb), Some inp =>
      match tokenize_spec lockb, tokenize_spec (to_bytes (unlocking inp)) with
      | TokOk lock, TokOk unlock =>
          match spec_expected (view_tx t) i amount lock unlock with
          | (Accept, _) => "OK:01,;*"
          | (Reject, true) => "ERR"
          | (Reject, false) => "ERR~OK:,;*"
          | (AcceptOrReject, true) => "ERR~OK:01,;*"
          | (AcceptOrReject, false) => "ERR~OK:,;*~OK:01,;*"
          | (Unspecified, _) => "-"
          end
      | _, _ => "-"
      end
  | _, _ => "-"
  end.

Definition run_spend (txb : bytes) (idx : N) (es : list ext_entry) : string :=
  match tx_from_bytes txb with
  | Panic => out3 "PANIC" "-" "-"
  | Err => out3 "ERR" "-" "-"
  | Ok t0 =>
      match apply_ext (inputs t0) es with
      | Panic => out3 "PANIC" "-" "-"
      | Err => out3 "ERR" "-" "-"
      | Ok ins =>
          let t := set_inputs t0 ins in
          let i := clamp_idx t idx in
          out3 (impl_spend t i) (spec_spend t i es) "-"
      end
  end.

Definition run (op : string) (args : list string) : string :=
  match op, args with
  | "interp.spend", [txd; idx; ext] =>
      match expand txd, N_of_dec idx, parse_ext ext with
      | Some txb, Some i, Some es => run_spend txb i es
      | _, _, _ => "BADARG"
      end
  | _, _ => "BADOP"
  end.
