(* Run/Exec_C15.v — executable entry point of the C15 correspondence check (BigZ instance of the curve).
   run op args = "<implementation model output>|<specification output>|<known-finding class or ->"
   ops (driver side: harness/src/ops_c15.rs):
     spend.build <kind> <tx> <idx> <value> <keys> <signers> <seps> <variant>  ->  OK:<signed tx>;<ext>;<locking>;<subscript>
     interp.spend <tx> <idx> <ext>   ->  OK:<stack items>;<codeseparator_offset>  |  ERR
       ext = `_` or entries `<sat|n>.<locking script descriptor|n>` joined by `,`, entry k for input k
   Implementation column: Model/InterpSig.v (from_transaction + run over Model/Interp.v).
   Specification column: Spec/SpendSpec.v — for locking scripts of the P2PK / P2PKH / m-of-n families (code
   separators anywhere at top level) with push-only unlocking scripts of the exact arity:
     accept (final stack = one true element)  iff  the independent characterisation holds,
   otherwise a rejection (an error, or a false element on the stack).  `-` outside the families. *)
From BSV Require Import Base.Hex Prim.Num Prim.Secp256k1 Prim.Der Prim.Sha256 Prim.Ripemd160.
From BSV Require Import Model.Opcodes Model.Script Model.VarInt Model.Tx Model.HashApi Model.Sighash Model.Ecdsa Model.Sig
  Model.Interp Model.InterpSig.
From BSV Require Import Spec.ScriptTok Spec.SighashWire Spec.Bip143 Spec.LegacySighash Spec.SpendSpec Spec.SpendTwo.

Definition out3 (impl spec known : string) : string := impl +++ "|" +++ spec +++ "|" +++ known.
Definition FP := fast_prims.

Fixpoint show_items (v : list bytes) : string :=
  match v with [] => "" | x :: r => show_bytes x +++ "," +++ show_items r end.

(* ------------------------------------------------------------------ *)
(* the `ext` argument *)
Definition ext_entry : Type := (option N * option bytes)%type.
Definition parse_entry (s : string) : option ext_entry :=
  match split "." s with
  | [a; b] =>
      match (if String.eqb a "n" then Some None else option_map Some (N_of_dec a)),
            (if String.eqb b "n" then Some None else option_map Some (expand b)) with
      | Some sat, Some lock =>
          match sat with
          | Some v => if (v <=? 18446744073709551615)%N then Some (sat, lock) else None
          | None => Some (sat, lock)
          end
      | _, _ => None
      end
  | _ => None
  end.
Fixpoint parse_entries (l : list string) : option (list ext_entry) :=
  match l with
  | [] => Some []
  | s :: r => match parse_entry s, parse_entries r with
              | Some e, Some es => Some (e :: es)
              | _, _ => None
              end
  end.
Definition parse_ext (s : string) : option (list ext_entry) :=
  if String.eqb s "_" then Some [] else parse_entries (split "," s).

(* the driver's apply_ext: entry k goes to input k when that input exists (entries beyond the inputs are
   ignored without being parsed); an unparseable locking script is an error *)
Fixpoint apply_ext (ins : list txin) (es : list ext_entry) : outcome (list txin) :=
  match ins, es with
  | [], _ => Ok []
  | _, [] => Ok ins
  | i :: ir, (sat, lock) :: er =>
      let i1 := match sat with Some v => set_satoshis i v | None => i end in
      do i2 <- match lock with
               | Some lb => do l <- from_bytes lb; Ok (set_locking_script i1 l)
               | None => Ok i1
               end;
      do rest <- apply_ext ir er;
      Ok (i2 :: rest)
  end.

Definition clamp_idx (t : tx) (idx : N) : nat := N.to_nat (N.min idx (N.of_nat (length (inputs t)))).

(* ------------------------------------------------------------------ *)
(* implementation column *)
Definition impl_spend (t : tx) (i : nat) : string :=
  match spend FP t i with
  | Err => "ERR"
  | Panic => "PANIC"
  | Ok (RunOk j) => let st := istate j in
                    "OK:" +++ show_items (stack st) +++ ";" +++ dec_of_N (N.of_nat (codesep st)) +++ ";"
                    +++ (match split_last (stack st) with Some (_, top) => if cast_to_bool top then "T" else "F" | None => "F" end)
  | Ok (RunErr _) => "ERR"
  | Ok RunPanic => "PANIC"
  | Ok RunOutOfFuel => "FUEL"
  end.

(* ------------------------------------------------------------------ *)
(* specification column *)
Definition H_spec (b : bytes) : bytes := sha256 (sha256 b).
Definition H160_spec (b : bytes) : bytes := ripemd160 (sha256 b).

Definition spec_expected := expected H_spec H160_spec sec1_decode_fast prim_verify_fast.

(* outside the families the property prescribes no outcome, but whatever the transaction, the index and the scripts, the run
   ends with a stack or an error (C15_spend_total): anything but PANIC / ABORT matches *)
Definition no_panic : string := "ERR~*;*;*".
(* rejected: an error, or no true element on top of the final stack *)
Definition rejected : string := "ERR~*;*;F".

(* A locking script of one of the three families, an unlocking script that is NOT push-only, and no data element of the
   unlocking script is a valid signature for any key of the locking script (P2PKH: any pushed element hashing to the
   committed hash): nothing the lock could accept was supplied, so the input must not count as spent. *)
Definition pushed_data (ts : list tok) : list bytes :=
  List.concat (map (fun t => match t with TPush _ d => [d] | TOp _ => [] end) ts).
Definition no_signature_attack (wt : wtx) (i : nat) (amount : N) (lock unlock : list tok) : bool :=
  match recognise lock, pushed_items unlock with
  | Some (fam, _), None =>
      let ds := pushed_data unlock in
      let keys := match fam with
                  | FP2PK pk => [pk]
                  | FP2PKH h => filter (fun d => bytes_eqb (H160_spec d) h) ds
                  | FMS _ ks => ks
                  end in
      let valid := sig_valid H_spec sec1_decode_fast prim_verify_fast wt i (script_code lock) amount in
      negb (existsb (fun sg => existsb (fun pk => valid sg pk) keys) ds)
  | _, _ => false
  end.

Definition spec_spend (t : tx) (i : nat) (es : list ext_entry) : string :=
  match nth_error es i, nth_error (inputs t) i with
  | Some (Some amount, Some lockb), Some inp =>
      match tokenize_spec lockb, tokenize_spec (to_bytes (unlocking inp)) with
      | TokOk lock, TokOk unlock =>
          match spec_expected (view_tx t) i amount lock unlock with
          | (Accept, _) => "OK:01,;*;T"
          | (Reject, true) => "ERR"
          | (Reject, false) => "ERR~OK:,;*;F"
          | (AcceptOrReject, true) => "ERR~OK:01,;*;T"
          | (AcceptOrReject, false) => "ERR~OK:,;*;F~OK:01,;*;T"
          | (Unspecified, _) =>
              if no_signature_attack (view_tx t) i amount lock unlock then rejected else
              match expected_two H_spec sec1_decode_fast prim_verify_fast (view_tx t) i amount lock unlock with
              | Accept => "OK:01,;*;T"
              | Reject => "ERR~OK:,;*;F"
              | _ => no_panic
              end
          end
      | _, _ => no_panic
      end
  | _, _ => no_panic
  end.

Definition run_spend (txb : bytes) (idx : N) (es : list ext_entry) : string :=
  match tx_from_bytes txb with
  | Panic => out3 "PANIC" "-" "-"
  | Err => out3 "ERR" no_panic "-"
  | Ok t0 =>
      match apply_ext (inputs t0) es with
      | Panic => out3 "PANIC" "-" "-"
      | Err => out3 "ERR" no_panic "-"
      | Ok ins =>
          let t := set_inputs t0 ins in
          let i := clamp_idx t idx in
          out3 (impl_spend t i) (spec_spend t i es) "-"
      end
  end.

(* ------------------------------------------------------------------ *)
(* spend.build: the library assembles and signs a spend (harness/src/ops_c15.rs); the model does the same with
   Model/InterpSig.tx_sign_element (RFC 6979 ECDSA of Model/Ecdsa.v, DER of Model/Sig.v) and the script builders.
   Output: OK:<tx hex>;<ext>;<locking script hex>;<subscript hex> *)
Definition parse_key (s : string) : option privkey :=
  let '(unc, h) := match s with String "u" r => (true, r) | _ => (false, s) end in
  match bytes_of_hex h with
  | Some kb => match privkey_from_bytes kb with Ok k => Some (compress_public_key k (negb unc)) | _ => None end
  | None => None
  end.
Fixpoint parse_all {A} (f : string -> option A) (l : list string) : option (list A) :=
  match l with
  | [] => Some []
  | x :: r => match f x, parse_all f r with Some a, Some ar => Some (a :: ar) | _, _ => None end
  end.
Definition signer : Type := (nat * N * option privkey)%type.       (* key index, flag byte, nonce of sign_with_k *)
Definition parse_signer (nkeys : nat) (s : string) : option signer :=
  let base (a b : string) (k : option privkey) : option signer :=
    match N_of_dec a, N_of_dec b with
    | Some ki, Some fl =>
        if (ki <? N.of_nat nkeys)%N && (fl <? 256)%N && is_sighash fl then Some (N.to_nat ki, fl, k) else None
    | _, _ => None
    end in
  match split "." s with
  | [a; b] => base a b None
  | [a; b; c] => match bytes_of_hex c with
                 | Some kb => match privkey_from_bytes kb with Ok k => base a b (Some k) | _ => None end
                 | None => None
                 end
  | _ => None
  end.
Definition s_key (s : signer) : nat := fst (fst s).
Definition s_flag (s : signer) : N := snd (fst s).
Definition parse_pos (s : string) : option nat :=
  match N_of_dec s with Some n => if (n <? 100000)%N then Some (N.to_nat n) else None | None => None end.

Definition sep_bit : bit := BOp 171.
Definition count_eq (k : nat) (l : list nat) : nat := length (filter (Nat.eqb k) l).
Fixpoint insert_seps (k : nat) (bits : list bit) (seps : list nat) : list bit :=
  match bits with
  | [] => repeat sep_bit (length (filter (fun p => Nat.leb k p) seps))
  | b :: r => repeat sep_bit (count_eq k seps) ++ b :: insert_seps (S k) r seps
  end.
Definition is_check_bit (b : bit) : bool :=
  match b with BOp c => (c =? 172)%N || (c =? 173)%N || (c =? 174)%N || (c =? 175)%N | _ => false end.
Definition is_sep_bit (b : bit) : bool := match b with BOp c => (c =? 171)%N | _ => false end.
(* bits after the last separator that precedes the first signature check *)
Fixpoint cut_code (start ts : list bit) : list bit :=
  match ts with
  | [] => start
  | t :: r => if is_check_bit t then start else if is_sep_bit t then cut_code r r else cut_code start r
  end.
Definition has_check (ts : list bit) : bool := existsb is_check_bit ts.

Definition push_bytes_of (d : bytes) : outcome bytes := encode_pushdata d.
Fixpoint concat_pushes (ds : list bytes) : outcome bytes :=
  match ds with
  | [] => Ok []
  | d :: r => do p <- push_bytes_of d; do q <- concat_pushes r; Ok (p ++ q)
  end.
(* Script::from_asm_string of hex tokens: every token becomes a push of its bytes (sizes here are 20..73) *)
Definition asm_push (d : bytes) : bit := BPush d.

Definition build_spend (kind : string) (txb : bytes) (idx : N) (value : N) (sks : list privkey) (signers : list signer)
           (seps : list nat) (rawlock : bytes) (rawsubs : list bytes) (variant : bool) : outcome string :=
  let pks := map (pubkey_bytes FP) sks in
  let pk0 := match pks with p :: _ => p | [] => [] end in
  do plain <-
    (if String.eqb kind "p2pkh" then Ok [BOp 118; BOp 169; asm_push (hash_160 pk0); BOp 136; BOp 172]
     else if String.eqb kind "p2pk" then do p <- push_bytes_of pk0; from_bytes (p ++ [xac])
     else if String.eqb kind "ms" then
       do ps <- concat_pushes pks;
       from_bytes (n2b (80 + N.of_nat (length signers)) :: ps ++ [n2b (80 + N.of_nat (length pks)); xae])
     else from_bytes rawlock);
  let rawd := String.eqb kind "rawd" in
  let raw := String.eqb kind "raw" || rawd in
  do bits <-
    (if variant && negb raw then
       match rev plain with
       | BOp 172 :: r => Ok (rev r ++ [BOp 173; BOp 81])
       | BOp 174 :: r => Ok (rev r ++ [BOp 175; BOp 81])
       | _ => Err
       end
     else Ok plain);
  let locking := insert_seps 0 bits seps in
  do subs <- (if raw then
                (fix go (l : list bytes) : outcome (list (list bit)) :=
                   match l with [] => Ok [] | x :: r => do a <- from_bytes x; do ar <- go r; Ok (a :: ar) end) rawsubs
              else if has_check locking then Ok [cut_code locking locking] else Err);
  let subscript := match subs with x :: _ => x | [] => [] end in
  let sub_for (j : nat) : list bit := nth (Nat.min j (length subs - 1)) subs [] in
  do t0 <- tx_from_bytes txb;
  let i := clamp_idx t0 idx in
  match nth_error (inputs t0) i with
  | None => Err
  | Some inp =>
      let inp1 := set_unlocking (set_locking_script (set_satoshis inp value) locking) [] in
      let t1 := set_inputs t0 (set_nth i inp1 (inputs t0)) in
      let sign_one (j : nat) (s : signer) : outcome bytes :=
        match nth_error sks (s_key s) with
        | Some sk => match snd s with
                     | None => tx_sign_element FP t1 sk (s_flag s) i (sub_for j) value
                     | Some ek => tx_sign_with_k_element FP t1 sk ek (s_flag s) i (sub_for j) value
                     end
        | None => Err
        end in
      do sigs <- (fix go (j : nat) (l : list signer) : outcome (list bytes) :=
                    match l with [] => Ok [] | s :: r => do a <- sign_one j s; do ar <- go (S j) r; Ok (a :: ar) end) 0%nat signers;
      do unlocking <-
        (if String.eqb kind "p2pkh" then
           match signers, sigs with
           | s0 :: _, sg0 :: _ =>
               let pks0 := match nth_error pks (s_key s0) with Some p => p | None => [] end in
               if bytes_eqb (hash_160 pks0) (hash_160 pk0) then Ok [asm_push sg0; asm_push pks0] else Err
           | _, _ => Err
           end
         else
           do ps <- (fix go (l : list signer) (sg : list bytes) : outcome bytes :=
                       match l, sg with
                       | s :: r, g :: gr =>
                           do p <- push_bytes_of g;
                           do k <- (if raw && variant then
                                      push_bytes_of (match nth_error pks (s_key s) with Some x => x | None => [] end)
                                    else Ok []);
                           do q <- go r gr; Ok (p ++ k ++ q)
                       | _, _ => Ok []
                       end) signers sigs;
           from_bytes ((if String.eqb kind "ms" || rawd then [x00] else []) ++ ps));
      let inp2 := set_unlocking inp1 unlocking in
      let t2 := set_inputs t1 (set_nth i inp2 (inputs t1)) in
      let ext := join "," (mapi_from 0 (fun k _ => if Nat.eqb k i then dec_of_N value +++ "." +++ hex_of_bytes (to_bytes locking) else "n.n")
                                     (inputs t2)) in
      (* the eight checks of the driver: what is signed verifies (C05) and not against the reversed digest, the encodings of
         the signature element agree and round-trip (C06), the hash cache is transparent (C04): constants; the finalised
         script is computed *)
      let fin := match finalised_script inp2 with
                 | Ok b => bytes_eqb (to_bytes b) (to_bytes unlocking ++ to_bytes locking)
                 | _ => false
                 end in
      Ok (hex_of_bytes (tx_bytes t2) +++ ";" +++ ext +++ ";" +++ hex_of_bytes (to_bytes locking) +++ ";"
          +++ hex_of_bytes (to_bytes subscript) +++ ";110111" +++ (if fin then "1" else "0") +++ "1")
  end.

Definition run_build (kind txd idx value keys signers seps variant : string) : string :=
  match expand txd, N_of_dec idx, N_of_dec value, parse_all parse_key (split "," keys) with
  | Some txb, Some i, Some v, Some sks =>
      match parse_all (parse_signer (length sks)) (split "," signers),
            (if String.eqb variant "0" then Some false else if String.eqb variant "1" then Some true else None) with
      | Some sg, Some vf =>
          let raw := String.eqb kind "raw" || String.eqb kind "rawd" in
          let sepso := if raw || String.eqb seps "_" then Some [] else parse_all parse_pos (split "," seps) in
          let rawp := if raw then match split "." seps with
                                  | a :: b :: more =>
                                      match expand a, parse_all expand (b :: more) with
                                      | Some x, Some ys => Some (x, ys)
                                      | _, _ => None
                                      end
                                  | _ => None end
                      else Some ([], []) in
          match sepso, rawp with
          | Some sp, Some (rl, rs) =>
              if (v <=? 18446744073709551615)%N then
                out3 (match build_spend kind txb i v sks sg sp rl rs vf with
                      | Ok s => "OK:" +++ s | Err => "ERR" | Panic => "PANIC" end) "-" "-"
              else "BADARG"
          | _, _ => "BADARG"
          end
      | _, _ => "BADARG"
      end
  | _, _, _, _ => "BADARG"
  end.

(* ------------------------------------------------------------------ *)
(* interp.seq: one Transaction object (and one kept Interpreter) driven through a little program (see the driver).
   The model has no memo and no aliasing: every observation is computed from the field values at that moment; the kept
   interpreter holds the transaction as it was when it was made, and stepping it before running changes nothing (C16).
   Specification column: for every run, the verdict of Spec/SpendSpec.v / SpendTwo.v on the field values at that moment. *)
Definition u64_max : N := 18446744073709551615%N.
Definition u32_max : N := 4294967295%N.

Definition verdict_of (t : tx) (i : nat) : string :=
  match nth_error (inputs t) i with
  | None => "R"
  | Some inp =>
      match satoshis inp, locking inp with
      | Some amount, Some l =>
          match tokenize_spec (to_bytes l), tokenize_spec (to_bytes (unlocking inp)) with
          | TokOk lock, TokOk unlock =>
              match fst (spec_expected (view_tx t) i amount lock unlock) with
              | Accept => "A"
              | Reject => "R"
              | AcceptOrReject => "*"
              | Unspecified =>
                  match expected_two H_spec sec1_decode_fast prim_verify_fast (view_tx t) i amount lock unlock with
                  | Accept => "A" | Reject => "R" | _ => "*"
                  end
              end
          | _, _ => "*"
          end
      | _, _ => "*"
      end
  end.

Fixpoint join_items (v : list bytes) : string :=
  match v with [] => "" | [x] => show_bytes x | x :: r => show_bytes x +++ "^" +++ join_items r end.
Definition coarse_of (s : list bytes) : string :=
  match s with
  | [[b]] => if (b2n b =? 1)%N then "A" else "O"
  | [[]] => "R"
  | _ => "O"
  end.
(* (observation, coarse letter) of from_transaction + run *)
Definition observe_run (r : outcome (run_result txctx)) : outcome (string * string) :=
  match r with
  | Ok (RunOk j) => let st := istate j in
                    Ok (join_items (stack st) +++ "@" +++ dec_of_N (N.of_nat (codesep st)), coarse_of (stack st))
  | Ok (RunErr _) | Err => Ok ("E", "R")
  | Ok RunPanic | Panic => Panic
  | Ok RunOutOfFuel => Panic
  end.

Record seq_st : Type := mkSeq {
  q_tx : tx;
  q_kept : option tx;                  (* the transaction the kept interpreter was made from (None: none / from_transaction failed) *)
  q_obs : list string;
  q_coarse : list string;              (* what the driver must print *)
  q_spec : list string                 (* what the specification prescribes *)
}.

Inductive step_res := SOk (s : seq_st) | SErr | SPanic | SBad.

Definition upd_input (t : tx) (k : nat) (f : txin -> txin) : tx :=
  match nth_error (inputs t) k with
  | Some inp => set_inputs t (set_nth k (f inp) (inputs t))
  | None => t
  end.
Definition with_tx (s : seq_st) (t : tx) : seq_st := mkSeq t (q_kept s) (q_obs s) (q_coarse s) (q_spec s).
Definition add_obs (s : seq_st) (o : string) : seq_st := mkSeq (q_tx s) (q_kept s) (q_obs s ++ [o]) (q_coarse s) (q_spec s).
Definition add_run (s : seq_st) (o c sp : string) : seq_st :=
  mkSeq (q_tx s) (q_kept s) (q_obs s ++ [o]) (q_coarse s ++ [c]) (q_spec s ++ [sp]).

Definition seq_step (sk : privkey) (i : nat) (s : seq_st) (step : string) : step_res :=
  match step with
  | EmptyString => SBad
  | String c rest =>
      let op1 := String c EmptyString in
      let t := q_tx s in
      let f := split "." rest in
      let run_on (t0 : tx) : step_res :=
        match observe_run (spend FP t0 i) with
        | Ok (o, cl) => SOk (add_run s o cl (verdict_of t0 i))
        | _ => SPanic
        end in
      if String.eqb op1 "r" then (if String.eqb rest "" then run_on t else SBad)
      else if String.eqb op1 "i" then
        (if String.eqb rest "" then
           SOk (mkSeq t (match from_transaction t i with Ok _ => Some t | _ => None end) (q_obs s) (q_coarse s) (q_spec s))
         else SBad)
      else if String.eqb op1 "n" then
        match N_of_dec rest with Some k => if (k <=? 1000)%N then SOk s else SBad | None => SBad end
      else if String.eqb op1 "R" then
        (if String.eqb rest "" then
           match q_kept s with
           | Some t0 => run_on t0
           | None => SOk (add_run s "E" "R" "*")
           end
         else SBad)
      else if String.eqb op1 "v" then
        match N_of_dec rest with
        | Some v => if (v <=? u64_max)%N then SOk (with_tx s (upd_input t i (fun inp => set_satoshis inp v))) else SBad
        | None => SBad
        end
      else if String.eqb op1 "l" || String.eqb op1 "u" then
        match expand rest with
        | None => SBad
        | Some b =>
            match from_bytes b with
            | Ok sc => SOk (with_tx s (upd_input t i (fun inp => if String.eqb op1 "l" then set_locking_script inp sc
                                                                 else set_unlocking inp sc)))
            | Err => SErr
            | Panic => SPanic
            end
        end
      else if String.eqb op1 "V" || String.eqb op1 "L" then
        match N_of_dec rest with
        | Some v =>
            if (v <=? u32_max)%N then
              SOk (with_tx s (if String.eqb op1 "V" then mk_tx v (inputs t) (outputs t) (locktime t)
                              else mk_tx (version t) (inputs t) (outputs t) v))
            else SBad
        | None => SBad
        end
      else if String.eqb op1 "o" || String.eqb op1 "q" then
        match f with
        | [a; b] =>
            match N_of_dec a, N_of_dec b with
            | Some k, Some v =>
                if negb (k <=? 1000)%N || negb (v <=? u64_max)%N then SBad
                else if String.eqb op1 "o" then
                  SOk (with_tx s (match nth_error (outputs t) (N.to_nat k) with
                                  | Some o => mk_tx (version t) (inputs t)
                                                    (set_nth (N.to_nat k) (mk_txout v (script_pub_key o)) (outputs t)) (locktime t)
                                  | None => t
                                  end))
                else if (v <=? u32_max)%N then SOk (with_tx s (upd_input t (N.to_nat k) (fun inp => set_sequence inp v)))
                else SBad
            | _, _ => SBad
            end
        | _ => SBad
        end
      else if String.eqb op1 "a" then
        match N_of_dec rest with
        | Some v => if (v <=? u64_max)%N
                    then SOk (with_tx s (mk_tx (version t) (inputs t) (outputs t ++ [mk_txout v [BOp 81]]) (locktime t)))
                    else SBad
        | None => SBad
        end
      else if String.eqb op1 "c" then (if String.eqb rest "" then SOk s else SBad)
      else if String.eqb op1 "s" then
        (if String.eqb rest "" then
           match tx_from_bytes (tx_bytes t) with
           | Ok t2 =>
               let ins := mapi_from 0 (fun k new => match nth_error (inputs t) k with
                                                    | Some old => mk_txin (prev_tx_id new) (vout new) (unlocking new) (sequence new)
                                                                          (locking old) (satoshis old)
                                                    | None => new
                                                    end) (inputs t2) in
               SOk (with_tx s (set_inputs t2 ins))
           | Err => SErr
           | Panic => SPanic
           end
         else SBad)
      else if String.eqb op1 "g" || String.eqb op1 "G" || String.eqb op1 "K" || String.eqb op1 "p" then
        match f with
        | [a; b; d] =>
            match N_of_dec a, N_of_dec b, expand d with
            | Some fl, Some v, Some subb =>
                if negb (fl <=? 255)%N || negb (v <=? u64_max)%N || negb (is_sighash fl) then SBad
                else
                  match from_bytes subb with
                  | Panic => SPanic
                  | Err => SErr
                  | Ok sub =>
                      if String.eqb op1 "p" then
                        match sighash_preimage sha_256d t i fl sub v with
                        | Ok p => SOk (add_obs s (show_bytes p))
                        | Err => SOk (add_obs s "E")
                        | Panic => SPanic
                        end
                      else
                        match tx_sign_element FP t sk fl i sub v with
                        | Panic => SPanic
                        | Err => SOk (add_obs s "E")
                        | Ok sb =>
                            let s1 := add_obs s (hex_of_bytes sb) in
                            if String.eqb op1 "g" then SOk s1
                            else
                              match (do p <- encode_pushdata sb;
                                     do k <- (if String.eqb op1 "K" then encode_pushdata (pubkey_bytes FP sk) else Ok []);
                                     from_bytes (p ++ k)) with
                              | Ok sc => SOk (with_tx s1 (upd_input t i (fun inp => set_unlocking inp sc)))
                              | _ => SOk s1
                              end
                        end
                  end
            | _, _, _ => SBad
            end
        | _ => SBad
        end
      else if String.eqb op1 "t" then
        match f with
        | [a; b; d] =>
            match expand a, expand b, expand d with
            | Some sg, Some pkb, Some pre =>
                match sighashsig_from_bytes sg pre, pubkey_from_bytes FP pkb with
                | Ok ss, Ok pk =>
                    let bit (b : bool) : string := if b then "1" else "0" in
                    let d1 := match verify_digest FP pre pk (ss_sig ss) SHSha256d with Ok true => true | _ => false end in
                    let d2 := match tx_verify FP pk ss with Ok true => true | _ => false end in
                    let rdig := ad_finalize ASha256r (ad_reverse (get_hash_digest SHSha256d pre)) in
                    let d3 := match verify_hashbuf_impl FP rdig pk (ss_sig ss) with Ok true => true | _ => false end in
                    SOk (add_obs s (bit d1 +++ bit d2 +++ bit d3))
                | Panic, _ | _, Panic => SPanic
                | _, _ => SOk (add_obs s "E")
                end
            | _, _, _ => SBad
            end
        | _ => SBad
        end
      else SBad
  end.

Fixpoint seq_steps (sk : privkey) (i : nat) (s : seq_st) (steps : list string) : step_res :=
  match steps with
  | [] => SOk s
  | x :: r => match seq_step sk i s x with SOk s' => seq_steps sk i s' r | e => e end
  end.

Definition run_seq (txb : bytes) (idx : N) (es : list ext_entry) (sk : privkey) (steps : list string) : string :=
  match tx_from_bytes txb with
  | Panic => out3 "PANIC" "-" "-"
  | Err => out3 "ERR" "-" "-"
  | Ok t0 =>
      match apply_ext (inputs t0) es with
      | Panic => out3 "PANIC" "-" "-"
      | Err => out3 "ERR" "-" "-"
      | Ok ins =>
          let t := set_inputs t0 ins in
          let i := clamp_idx t idx in
          match seq_steps sk i (mkSeq t None [] [] []) steps with
          | SBad => "BADARG"
          | SErr => out3 "ERR" "-" "-"
          | SPanic => out3 "PANIC" "-" "-"
          | SOk s =>
              let tail (l : list string) := match l with [] => "-" | _ => join ";" l end in
              out3 ("OK:" +++ join "/" (q_obs s) +++ ";" +++ tail (q_coarse s)) ("*;" +++ tail (q_spec s)) "-"
          end
      end
  end.

Definition idx_of (s : string) : option N :=
  match N_of_dec s with Some n => if (n <=? u64_max)%N then Some n else None | None => None end.

Definition run (op : string) (args : list string) : string :=
  match op, args with
  | "interp.spend", [txd; idx; ext] =>
      match expand txd, idx_of idx, parse_ext ext with
      | Some txb, Some i, Some es => run_spend txb i es
      | _, _, _ => "BADARG"
      end
  | "interp.spend_steps", [txd; idx; ext] =>        (* stepping = run (property C16): the same answer *)
      match expand txd, idx_of idx, parse_ext ext with
      | Some txb, Some i, Some es => run_spend txb i es
      | _, _, _ => "BADARG"
      end
  | "interp.seq", [txd; idx; ext; key; steps] =>
      match expand txd, idx_of idx, parse_ext ext, parse_key key with
      | Some txb, Some i, Some es, Some sk => run_seq txb i es sk (split "," steps)
      | _, _, _, _ => "BADARG"
      end
  | "spend.build", [kind; txd; idx; value; keys; signers; seps; variant] =>
      run_build kind txd idx value keys signers seps variant
  | _, _ => "BADOP"
  end.
