(* Run/Exec_C20.v — executable entry point of the C20 correspondence check.
   ops aes.encrypt, aes.decrypt, aes.encrypt_impl, aes.decrypt_impl (the public *_impl functions, which
   `encrypt` / `decrypt` forward to and ECIES calls directly), aes.roundtrip (encrypt then decrypt the result);
   the spec column is decisive for every input inside the property's quantifier (wrong sizes: ERR, so a panic is
   a violation); "-" only for CTR encrypt/decrypt when the low 64 counter bits wrap (outside the claim), where
   aes.roundtrip still demands the round trip;
   run op [mode; key; iv; data] = "<implementation model output>|<specification output>|<known-finding class or ->"
   implementation model = Model/AesApi.v (transcription of src/encryption/mod.rs and the crates it calls);
   specification        = the standard modes of Prim/Aes.v applied directly (RFC 5652 padding, SP 800-38A
                          CBC and CTR with a 128-bit big-endian counter), "-" (unspecified) for CTR inputs
                          whose low 64 counter bits wrap, ERR for wrong key / IV sizes. *)
From BSV Require Import Base.Hex Prim.Aes Model.AesApi.

Definition parse_algo (s : string) : option algo :=
  match s with
  | "128cbc" => Some AES128_CBC
  | "256cbc" => Some AES256_CBC
  | "128ctr" => Some AES128_CTR
  | "256ctr" => Some AES256_CTR
  | _ => None
  end.

Definition show_out (r : outcome bytes) : string :=
  match r with Ok b => "OK:" +++ show_bytes b | Err => "ERR" | Panic => "PANIC" end.

Definition out3 (impl spec known : string) : string := impl +++ "|" +++ spec +++ "|" +++ known.

Definition cbc_mode (a : algo) : bool := match a with AES128_CBC | AES256_CBC => true | _ => false end.

Definition spec_encrypt (a : algo) (key iv msg : bytes) : string :=
  if negb (sizes_ok a key iv) then "ERR"
  else if cbc_mode a then "OK:" +++ show_bytes (cbc_encrypt key iv msg)
  else if ctr_in_domain iv msg then "OK:" +++ show_bytes (ctr key iv msg)
  else "-".

Definition spec_decrypt (a : algo) (key iv ct : bytes) : string :=
  if negb (sizes_ok a key iv) then "ERR"
  else if cbc_mode a then show_out (of_option (cbc_decrypt key iv ct))
  else if ctr_in_domain iv ct then "OK:" +++ show_bytes (ctr key iv ct)
  else "-".

(* Both defects once seen here are repaired in the library (KNOWN_FINDINGS.txt: fixed d992bd9, d6b6852), so no
   input belongs to a known-finding class: a recurrence is a violation. *)
Definition known_class (enc : bool) (a : algo) (key iv data : bytes) : string := "-".

(* encrypt, then decrypt the result *)
Definition impl_roundtrip (a : algo) (key iv msg : bytes) : string :=
  match encrypt a key iv msg with
  | Ok c => "OK:" +++ show_bytes c +++ ";" +++ show_out (decrypt a key iv c)
  | Err => "ERR"
  | Panic => "PANIC"
  end.

Definition spec_roundtrip (a : algo) (key iv msg : bytes) : string :=
  if negb (sizes_ok a key iv) then "ERR"
  else if cbc_mode a then "OK:" +++ show_bytes (cbc_encrypt key iv msg) +++ ";OK:" +++ show_bytes msg
  else if ctr_in_domain iv msg then "OK:" +++ show_bytes (ctr key iv msg) +++ ";OK:" +++ show_bytes msg
  else "*;OK:" +++ show_bytes msg.

Definition run (op : string) (args : list string) : string :=
  match args with
  | [md; k; i; d] =>
      match parse_algo md, expand k, expand i, expand d with
      | Some a, Some key, Some iv, Some data =>
          match op with
          | "aes.encrypt" | "aes.encrypt_impl" => out3 (show_out (encrypt a key iv data)) (spec_encrypt a key iv data) (known_class true a key iv data)
          | "aes.decrypt" | "aes.decrypt_impl" => out3 (show_out (decrypt a key iv data)) (spec_decrypt a key iv data) (known_class false a key iv data)
          | "aes.roundtrip" => out3 (impl_roundtrip a key iv data) (spec_roundtrip a key iv data) (known_class true a key iv data)
          | _ => "BADOP"
          end
      | _, _, _, _ => "BADARG"
      end
  | _ => match op with "aes.encrypt" | "aes.decrypt" | "aes.roundtrip" | "aes.encrypt_impl" | "aes.decrypt_impl" => "BADARG" | _ => "BADOP" end
  end.
