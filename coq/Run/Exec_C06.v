(* Run/Exec_C06.v — executable entry point of the C06 correspondence check (BigZ instance of the model).
   run op args = "<implementation model output>|<specification output>|-"
   ops (driver side: harness/src/ops_c06.rs):
     sig.der_roundtrip r s               -> OK:<der>;<r'>;<s'>
     sig.from_der bytes                  -> OK:<r>;<s>
     sig.from_hex_der text               -> OK:<r>;<s>
     sig.compact r s recid comp          -> OK:<65 bytes>;<r'>;<s'>;<hdr'>
     sig.from_compact bytes              -> OK:<r>;<s>;<hdr>
     sig.recover compact msg hash        -> OK:K;<len>;<pubkey> | OK:E
     sig.recover_digest compact digest   -> OK:K;<len>;<pubkey> | OK:E
     sig.sign_recover_digest key comp msg hash rk digest -> OK:<same>;<pubkey> | OK:E
     sig.sign_recover key comp msg hash rk msg2 hash2 -> OK:<same>;<pubkey> | OK:E
     sig.cross signer key comp msg hash rk aux route entry -> OK:<same>;<pubkey> | OK:E   (every signing entry point through
                        recovery: route mem | cmp, entry m | d; spec = the signer's key in the signer's form)
     sig.compact_der der info            -> OK:<65 bytes>           (object without recovery info; info = n | <recid><c>)
     sig.signed key comp msg hash rk info msg2 hash2 -> OK:<65 bytes>;<K<pubkey>|E>;<v>   (the signer's in-memory object)
     sig.recover_der der msg hash        -> OK:E;E                   (recovery without recovery info)
     sighashsig.roundtrip r s flag       -> OK:<bytes>;<bytes'>
     sighashsig.parse bytes              -> OK:<bytes'>
   Specification column (Spec/EcdsaSpec.v): round trips give back the same r, s (flag, recovery id, compression marker);
   parsers accept exactly the strict encodings; recovery after signing returns the signer's key in the recorded
   compression form for the same message and hash, and not that key otherwise; recovery never panics. *)
From BSV Require Import Base.Hex Prim.Num Prim.Secp256k1 Prim.Der Model.HashApi Model.Opcodes Model.Ecdsa Model.Sig
     Spec.EcdsaSpec Run.Exec_C05.
Local Open Scope Z_scope.

Definition rs_fields (sg : signature) : string := hex32 (sig_r sg) +++ ";" +++ hex32 (sig_s sg).
Definition in_range_bytes (r s : bytes) : bool :=
  Nat.eqb (length r) 32 && Nat.eqb (length s) 32 && in_scalar (be_Z r) && in_scalar (be_Z s).

Definition run_der_roundtrip (r s : bytes) : string :=
  out3 (render (do sg <- sig_of r s;
                let der := to_der_bytes sg in
                match from_der_impl der with
                | Ok b => Ok (show_bytes der +++ ";" +++ rs_fields b)
                | Err => Ok (show_bytes der +++ ";E")
                | Panic => Panic
                end))
       (if in_range_bytes r s then
          "OK:" +++ show_bytes (der_encode (be_Z r) (be_Z s)) +++ ";" +++ hex32 (be_Z r) +++ ";" +++ hex32 (be_Z s)
        else "ERR") "-".

Definition spec_rs (o : option (Z * Z)) : string :=
  match o with Some (r, s) => "OK:" +++ hex32 r +++ ";" +++ hex32 s | None => "ERR" end.

Definition run_from_der (bs : bytes) : string :=
  out3 (render (omap rs_fields (from_der_impl bs))) (spec_rs (spec_from_der bs)) "-".

Definition run_from_hex_der (t : bytes) : string :=
  out3 (render (omap rs_fields (from_hex_der (string_of_bytes t))))
       (spec_rs (match bytes_of_hex (string_of_bytes t) with Some bs => spec_from_der bs | None => None end)) "-".

Definition recinfo_of (recid : N) (c : bool) : recinfo :=
  {| ri_y_odd := N.testbit recid 0; ri_x_reduced := N.testbit recid 1; ri_compressed := c |}.

Definition run_compact (r s : bytes) (recid : N) (c : bool) : string :=
  out3 (render (do sg <- sig_of r s;
                let cb := to_compact_bytes sg (Some (recinfo_of recid c)) in
                match from_compact_impl cb with
                | Ok b => Ok (show_bytes cb +++ ";" +++ sig_fields b)
                | Err => Ok (show_bytes cb +++ ";E")
                | Panic => Panic
                end))
       (if in_range_bytes r s then
          "OK:" +++ show_bytes (spec_compact (be_Z r) (be_Z s) recid c) +++ ";" +++ hex32 (be_Z r) +++ ";" +++ hex32 (be_Z s)
          +++ ";" +++ dec_of_N (27 + recid + (if c then 4 else 0))%N
        else "ERR") "-".

Definition run_from_compact (bs : bytes) : string :=
  out3 (render (omap sig_fields (from_compact_impl bs)))
       (match spec_compact_parse bs with
        | Some (r, s, recid, c) =>
            "OK:" +++ hex32 r +++ ";" +++ hex32 s +++ ";" +++ dec_of_N (27 + recid + (if c then 4 else 0))%N
        | None => "ERR"
        end) "-".

Definition rec_out (o : outcome pubkey) : outcome string :=
  match o with
  | Ok p => Ok ("K;" +++ dec_of_N (N.of_nat (length (pk_point p))) +++ ";" +++ show_bytes (pk_point p))
  | Err => Ok "E"
  | Panic => Panic
  end.

(* recovery of an arbitrary compact signature, either entry point: the property demands that it returns an error or a key
   IN THE FORM RECORDED IN THE HEADER (33 bytes for headers 31..34, 65 bytes for 27..30) — never a panic (in particular
   not for signatures that recover to the point at infinity, s*R = z*G); a compact string that does not parse: ERR *)
Definition recover_spec (cb : bytes) : string :=
  match spec_compact_parse cb with
  | Some (_, _, _, compressed) => "OK:K;" +++ (if compressed then "33" else "65") +++ ";*~OK:E"
  | None => "ERR"
  end.

Definition run_recover (cb msg : bytes) (h : signing_hash) : string :=
  out3 (render (do sg <- from_compact_impl cb; rec_out (get_public_key FP sg msg h))) (recover_spec cb) "-".
Definition run_recover_digest (cb digest : bytes) : string :=
  out3 (render (do sg <- from_compact_impl cb; rec_out (get_public_key_from_digest FP sg digest))) (recover_spec cb) "-".

(* sign -> compact -> parse -> recover_public_key_from_digest: for the digest the signer used, exactly the signer's key in
   the signer's form; for another digest not that key *)
Definition run_sign_recover_digest (kb : bytes) (c : bool) (msg : bytes) (h : signing_hash) (rk : bool) (digest : bytes) : string :=
  out3 (render (do k <- key_of kb c;
                do sg <- sign_with_deterministic_k FP k msg h rk;
                do back <- from_compact_impl (to_compact_bytes sg None);
                let own := pk_point (to_public_key FP k) in
                match get_public_key_from_digest FP back digest with
                | Ok p => Ok (bit (bytes_eqb (pk_point p) own) +++ ";" +++ show_bytes (pk_point p))
                | Err => Ok "E"
                | Panic => Panic
                end))
       (if valid_key kb then
          if bytes_eqb digest (spec_digest (is_double h) msg) then
            "OK:1;" +++ show_bytes (sec1_encode c (pubkey_fast (be_Z kb)))
          else "OK:0;*~OK:E"
        else "ERR") "-".

Definition run_sign_recover (kb : bytes) (c : bool) (msg : bytes) (h : signing_hash) (rk : bool)
           (msg2 : bytes) (h2 : signing_hash) : string :=
  out3 (render (do k <- key_of kb c;
                do sg <- sign_with_deterministic_k FP k msg h rk;
                do back <- from_compact_impl (to_compact_bytes sg None);
                let own := pk_point (to_public_key FP k) in
                match get_public_key FP back msg2 h2 with
                | Ok p => Ok (bit (bytes_eqb (pk_point p) own) +++ ";" +++ show_bytes (pk_point p))
                | Err => Ok "E"
                | Panic => Panic
                end))
       (if valid_key kb then
          if bytes_eqb msg msg2 && Bool.eqb (is_double h) (is_double h2) then
            "OK:1;" +++ show_bytes (sec1_encode c (pubkey_fast (be_Z kb)))
          else "OK:0;*~OK:E"
        else "ERR") "-".

(* every way a signature is produced (Exec_C05.produce) through recovery in every form:
   route mem (the signer's object) | cmp (to_compact_bytes(None), from_compact_bytes);
   entry m (recover_public_key(msg, hash)) | d (recover_public_key_from_digest(digest of msg)).
   Specification: exactly the signer's public key in the signer's compression form. *)
Definition run_sig_cross (signer : string) (kb : bytes) (c : bool) (msg : bytes) (h : signing_hash) (rk : bool) (aux : bytes)
           (route entry : string) : string :=
  out3 (render (do p <- produce signer kb c msg h rk aux;
                let '(k, sg, hs) := p in
                do obj <- (if String.eqb route "mem" then Ok sg else from_compact_impl (to_compact_bytes sg None));
                let own := pk_point (to_public_key FP k) in
                match (if String.eqb entry "m" then get_public_key FP obj msg hs
                       else get_public_key_from_digest FP obj (digest_bytes hs msg)) with
                | Ok q => Ok (bit (bytes_eqb (pk_point q) own) +++ ";" +++ show_bytes (pk_point q))
                | Err => Ok "E"
                | Panic => Panic
                end))
       (if produce_valid signer kb aux then "OK:1;" +++ show_bytes (sec1_encode c (pubkey_fast (be_Z kb))) else "ERR") "-".

(* digest signing -> (compact round trip) -> recovery from the same digest and verify_hashbuf.  Every entry point reads the
   32-byte digest as an integer REDUCED modulo n, so digests at and above n (n, n+1, 2^256-1) and 0, 1, n-1 behave alike:
   the signer's key in the signer's form, and the signature verifies. *)
Definition run_digest_cross (kb : bytes) (c : bool) (digest : bytes) (route : string) : string :=
  out3 (render (do k <- key_of kb c;
                do sg <- sign_digest_with_deterministic_k FP k digest;
                do obj <- (if String.eqb route "mem" then Ok sg else from_compact_impl (to_compact_bytes sg None));
                let pk := to_public_key FP k in
                do v <- vres (verify_hashbuf FP digest pk obj);
                match get_public_key_from_digest FP obj digest with
                | Ok q => Ok (bit (bytes_eqb (pk_point q) (pk_point pk)) +++ ";" +++ show_bytes (pk_point q) +++ ";" +++ v)
                | Err => Ok ("0;E;" +++ v)
                | Panic => Panic
                end))
       (if valid_key kb && Nat.eqb (length digest) 32 then
          "OK:1;" +++ show_bytes (sec1_encode c (pubkey_fast (be_Z kb))) +++ ";1"
        else "ERR") "-".

(* "n" -> None, "<recid><c>" -> Some info *)
Definition info_of (s : string) : option (option recinfo) :=
  match s with
  | "n" => Some None
  | String a (String b EmptyString) =>
      match N_of_dec (String a EmptyString), flag_of (String b EmptyString) with
      | Some id, Some c => if (id <=? 3)%N then Some (Some (recinfo_of id c)) else None
      | _, _ => None
      end
  | _ => None
  end.
Definition info_header (o : option recinfo) (carried : recinfo) : N :=
  match o with
  | Some i => compact_header i
  | None => compact_header carried
  end.

(* an object WITHOUT recovery info (from_der): to_compact_bytes(None) uses the default info (header 27),
   to_compact_bytes(Some info) the given one; r and s are the parsed ones *)
Definition run_compact_der (der : bytes) (info : option recinfo) : string :=
  out3 (render (do sg <- from_der_impl der; Ok (show_bytes (to_compact_bytes sg info))))
       (match spec_from_der der with
        | Some (r, s) => "OK:" +++ show_bytes (n2b (info_header info default_recinfo) :: be32 r ++ be32 s)
        | None => "ERR"
        end) "-".

(* the in-memory object returned by the signer, without a serialise/parse round trip:
   to_compact_bytes(info) — an explicit info wins over the carried one, None uses the carried one (signer's
   compression marker, recovery bit that leads back to the key); recover_public_key(msg2, hash2) must give the
   signer's key in the signer's form for the same message and hash and must not give it otherwise;
   verify_message(msg2, own key) is true exactly for the same message when the signing hash was SHA-256 *)
Definition run_signed (kb : bytes) (c : bool) (msg : bytes) (h : signing_hash) (rk : bool) (info : option recinfo)
           (msg2 : bytes) (h2 : signing_hash) : string :=
  let own := sec1_encode c (pubkey_fast (be_Z kb)) in
  out3 (render (do k <- key_of kb c;
                do sg <- sign_with_deterministic_k FP k msg h rk;
                do rec <- match get_public_key FP sg msg2 h2 with
                          | Ok p => Ok ("K" +++ show_bytes (pk_point p))
                          | Err => Ok "E"
                          | Panic => Panic
                          end;
                Ok (show_bytes (to_compact_bytes sg info) +++ ";" +++ rec +++ ";"
                    +++ bit (verify_message FP sg msg2 (to_public_key FP k)))))
       (if valid_key kb then
          match spec_sign_det prim_sign_fast (be_Z kb) (is_double h) msg rk with
          | Some (r, s) =>
              let same := bytes_eqb msg msg2 && Bool.eqb (is_double h) (is_double h2) in
              let v := bit (bytes_eqb msg msg2 && negb (is_double h)) in
              let body := show_bytes (be32 r ++ be32 s) in
              let hdrs := match info with
                          | Some i => [compact_header i]
                          | None => if c then [31; 32]%N else [27; 28]%N
                          end in
              if same then
                join "~" (map (fun hd => "OK:" +++ show_bytes [n2b hd] +++ body +++ ";K" +++ show_bytes own +++ ";" +++ v) hdrs)
              else "-"
          | None => "ERR"
          end
        else "ERR") "-".

(* recovery on an object without recovery info: an error from both functions *)
Definition run_recover_der (der msg : bytes) (h : signing_hash) : string :=
  out3 (render (do sg <- from_der_impl der;
                do a <- match get_public_key FP sg msg h with Ok _ => Ok "K" | Err => Ok "E" | Panic => Panic end;
                do b <- match get_public_key_from_digest FP sg msg with Ok _ => Ok "K" | Err => Ok "E" | Panic => Panic end;
                Ok (a +++ ";" +++ b)))
       (match spec_from_der der with Some _ => "OK:E;E" | None => "ERR" end) "-".

Definition run_sighashsig_roundtrip (r s : bytes) (f : N) : string :=
  out3 (render (do sg <- sig_of r s;
                if sighash_of_u8 f then
                  do b <- sighashsig_to_bytes {| ss_sig := sg; ss_flag := n2b f; ss_buffer := [] |};
                  match sighashsig_from_bytes b [] with
                  | Ok back => do b' <- sighashsig_to_bytes back; Ok (show_bytes b +++ ";" +++ show_bytes b')
                  | Err => Ok (show_bytes b +++ ";E")
                  | Panic => Panic
                  end
                else Err))
       (if in_range_bytes r s && existsb (N.eqb f) flag_bytes then
          let b := show_bytes (der_encode (be_Z r) (be_Z s) ++ [n2b f]) in "OK:" +++ b +++ ";" +++ b
        else "ERR") "-".

Definition run_sighashsig_parse (bs : bytes) : string :=
  out3 (render (do ss <- sighashsig_from_bytes bs []; do b <- sighashsig_to_bytes ss; Ok (show_bytes b)))
       (match spec_sighashsig_parse bs with Some _ => "OK:" +++ show_bytes bs | None => "ERR" end) "-".

Definition run (op : string) (args : list string) : string :=
  match op, args with
  | "sig.der_roundtrip", [r; s] =>
      match expand r, expand s with Some rb, Some sb => run_der_roundtrip rb sb | _, _ => "BADARG" end
  | "sig.from_der", [b] => match expand b with Some bs => run_from_der bs | None => "BADARG" end
  | "sig.from_hex_der", [t] => match expand t with Some tb => run_from_hex_der tb | None => "BADARG" end
  | "sig.compact", [r; s; id; c] =>
      match expand r, expand s, N_of_dec id, flag_of c with
      | Some rb, Some sb, Some n, Some cb => if (n <=? 3)%N then run_compact rb sb n cb else "BADARG"
      | _, _, _, _ => "BADARG"
      end
  | "sig.from_compact", [b] => match expand b with Some bs => run_from_compact bs | None => "BADARG" end
  | "sig.recover", [cb; m; h] =>
      match expand cb, expand m, hash_of h with
      | Some c, Some mb, Some hh => run_recover c mb hh
      | _, _, _ => "BADARG"
      end
  | "sig.recover_digest", [cb; d] =>
      match expand cb, expand d with Some c, Some db => run_recover_digest c db | _, _ => "BADARG" end
  | "sig.sign_recover", [k; c; m; h; rk; m2; h2] =>
      match expand k, flag_of c, expand m, hash_of h, flag_of rk, expand m2, hash_of h2 with
      | Some kb, Some cb, Some mb, Some hh, Some rkb, Some mb2, Some hh2 => run_sign_recover kb cb mb hh rkb mb2 hh2
      | _, _, _, _, _, _, _ => "BADARG"
      end
  | "sig.sign_recover_digest", [k; c; m; h; rk; d] =>
      match expand k, flag_of c, expand m, hash_of h, flag_of rk, expand d with
      | Some kb, Some cb, Some mb, Some hh, Some rkb, Some db => run_sign_recover_digest kb cb mb hh rkb db
      | _, _, _, _, _, _ => "BADARG"
      end
  | "sig.cross", [sn; k; c; m; h; rk; aux; route; entry] =>
      match expand k, flag_of c, expand m, hash_of h, flag_of rk, expand aux with
      | Some kb, Some cb, Some mb, Some hh, Some rkb, Some ab =>
          if is_signer sn && (String.eqb route "mem" || String.eqb route "cmp") && (String.eqb entry "m" || String.eqb entry "d")
          then run_sig_cross sn kb cb mb hh rkb ab route entry else "BADARG"
      | _, _, _, _, _, _ => "BADARG"
      end
  | "sig.digest_cross", [k; c; d; route] =>
      match expand k, flag_of c, expand d with
      | Some kb, Some cb, Some db =>
          if String.eqb route "mem" || String.eqb route "cmp" then run_digest_cross kb cb db route else "BADARG"
      | _, _, _ => "BADARG"
      end
  | "sig.compact_der", [d; i] =>
      match expand d, info_of i with Some db, Some info => run_compact_der db info | _, _ => "BADARG" end
  | "sig.signed", [k; c; m; h; rk; i; m2; h2] =>
      match expand k, flag_of c, expand m, hash_of h, flag_of rk with
      | Some kb, Some cb, Some mb, Some hh, Some rkb =>
          match info_of i, expand m2, hash_of h2 with
          | Some info, Some mb2, Some hh2 => run_signed kb cb mb hh rkb info mb2 hh2
          | _, _, _ => "BADARG"
          end
      | _, _, _, _, _ => "BADARG"
      end
  | "sig.recover_der", [d; m; h] =>
      match expand d, expand m, hash_of h with
      | Some db, Some mb, Some hh => run_recover_der db mb hh
      | _, _, _ => "BADARG"
      end
  | "sighashsig.roundtrip", [r; s; f] =>
      match expand r, expand s, N_of_dec f with
      | Some rb, Some sb, Some n => if (n <=? 255)%N then run_sighashsig_roundtrip rb sb n else "BADARG"
      | _, _, _ => "BADARG"
      end
  | "sighashsig.parse", [b] => match expand b with Some bs => run_sighashsig_parse bs | None => "BADARG" end
  | _, _ => "BADOP"
  end.
