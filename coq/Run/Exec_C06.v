(* Run/Exec_C06.v — executable entry point of the C06 correspondence check (BigZ instance of the model).
   run op args = "<implementation model output>|<specification output>|-"
   ops (driver side: harness/src/ops_c06.rs):
     sig.der_roundtrip r s               -> OK:<der>;<r'>;<s'>
     sig.from_der bytes                  -> OK:<r>;<s>
     sig.from_hex_der text               -> OK:<r>;<s>
     sig.compact r s recid comp          -> OK:<65 bytes>;<r'>;<s'>;<hdr'>
     sig.from_compact bytes              -> OK:<r>;<s>;<hdr>
     sig.recover compact msg hash        -> OK:K;<pubkey> | OK:E
     sig.recover_digest compact digest   -> OK:K;<pubkey> | OK:E
     sig.sign_recover key comp msg hash rk msg2 hash2 -> OK:<same>;<pubkey> | OK:E
     sighashsig.roundtrip r s flag       -> OK:<bytes>;<bytes'>
     sighashsig.parse bytes              -> OK:<bytes'>
   Specification column (Spec/EcdsaSpec.v): round trips give back the same r, s (flag, recovery id, compression marker);
   parsers accept exactly the strict encodings; recovery after signing returns the signer's key in the recorded
   compression form for the same message and hash, and not that key otherwise; recovery never panics. *)
From BSV Require Import Base.Hex Prim.Num Prim.Secp256k1 Prim.Der Model.HashApi Model.Opcodes Model.Ecdsa Model.Sig
     Spec.EcdsaSpec Run.Exec_C05.
Local Open Scope Z_scope.

Definition rs_fields (sg : signature) : string := hex32 (sig_r sg) +++ ";" +++ hex32 (sig_s sg).
Definition in_range_bytes (r s : bytes) : bool :=
  Nat.eqb (length r) 32 && Nat.eqb (length s) 32 && in_scalar (be_Z r) && in_scalar (be_Z s).

Definition run_der_roundtrip (r s : bytes) : string :=
  out3 (render (do sg <- sig_of r s;
                let der := to_der_bytes sg in
                match from_der_impl der with
                | Ok b => Ok (show_bytes der +++ ";" +++ rs_fields b)
                | Err => Ok (show_bytes der +++ ";E")
                | Panic => Panic
                end))
       (if in_range_bytes r s then
          "OK:" +++ show_bytes (der_encode (be_Z r) (be_Z s)) +++ ";" +++ hex32 (be_Z r) +++ ";" +++ hex32 (be_Z s)
        else "ERR") "-".

Definition spec_rs (o : option (Z * Z)) : string :=
  match o with Some (r, s) => "OK:" +++ hex32 r +++ ";" +++ hex32 s | None => "ERR" end.

Definition run_from_der (bs : bytes) : string :=
  out3 (render (omap rs_fields (from_der_impl bs))) (spec_rs (spec_from_der bs)) "-".

Definition run_from_hex_der (t : bytes) : string :=
  out3 (render (omap rs_fields (from_hex_der (string_of_bytes t))))
       (spec_rs (match bytes_of_hex (string_of_bytes t) with Some bs => spec_from_der bs | None => None end)) "-".

Definition recinfo_of (recid : N) (c : bool) : recinfo :=
  {| ri_y_odd := N.testbit recid 0; ri_x_reduced := N.testbit recid 1; ri_compressed := c |}.

Definition run_compact (r s : bytes) (recid : N) (c : bool) : string :=
  out3 (render (do sg <- sig_of r s;
                let cb := to_compact_bytes sg (Some (recinfo_of recid c)) in
                match from_compact_impl cb with
                | Ok b => Ok (show_bytes cb +++ ";" +++ sig_fields b)
                | Err => Ok (show_bytes cb +++ ";E")
                | Panic => Panic
                end))
       (if in_range_bytes r s then
          "OK:" +++ show_bytes (spec_compact (be_Z r) (be_Z s) recid c) +++ ";" +++ hex32 (be_Z r) +++ ";" +++ hex32 (be_Z s)
          +++ ";" +++ dec_of_N (27 + recid + (if c then 4 else 0))%N
        else "ERR") "-".

Definition run_from_compact (bs : bytes) : string :=
  out3 (render (omap sig_fields (from_compact_impl bs)))
       (match spec_compact_parse bs with
        | Some (r, s, recid, c) =>
            "OK:" +++ hex32 r +++ ";" +++ hex32 s +++ ";" +++ dec_of_N (27 + recid + (if c then 4 else 0))%N
        | None => "ERR"
        end) "-".

Definition rec_out (o : outcome pubkey) : outcome string :=
  match o with Ok p => Ok ("K;" +++ show_bytes (pk_point p)) | Err => Ok "E" | Panic => Panic end.

(* recovery of an arbitrary compact signature: the property demands that it returns a key or an error — never a panic
   (in particular for signatures that recover to the point at infinity, s*R = z*G) *)
Definition no_panic_spec : string := "OK:K;*~OK:E~ERR".

Definition run_recover (cb msg : bytes) (h : signing_hash) : string :=
  out3 (render (do sg <- from_compact_impl cb; rec_out (get_public_key FP sg msg h))) no_panic_spec "-".
Definition run_recover_digest (cb digest : bytes) : string :=
  out3 (render (do sg <- from_compact_impl cb; rec_out (get_public_key_from_digest FP sg digest))) no_panic_spec "-".

Definition run_sign_recover (kb : bytes) (c : bool) (msg : bytes) (h : signing_hash) (rk : bool)
           (msg2 : bytes) (h2 : signing_hash) : string :=
  out3 (render (do k <- key_of kb c;
                do sg <- sign_with_deterministic_k FP k msg h rk;
                do back <- from_compact_impl (to_compact_bytes sg None);
                let own := pk_point (to_public_key FP k) in
                match get_public_key FP back msg2 h2 with
                | Ok p => Ok (bit (bytes_eqb (pk_point p) own) +++ ";" +++ show_bytes (pk_point p))
                | Err => Ok "E"
                | Panic => Panic
                end))
       (if valid_key kb then
          if bytes_eqb msg msg2 && Bool.eqb (is_double h) (is_double h2) then
            "OK:1;" +++ show_bytes (sec1_encode c (pubkey_fast (be_Z kb)))
          else "OK:0;*~OK:E"
        else "-") "-".

Definition run_sighashsig_roundtrip (r s : bytes) (f : N) : string :=
  out3 (render (do sg <- sig_of r s;
                if sighash_of_u8 f then
                  do b <- sighashsig_to_bytes {| ss_sig := sg; ss_flag := n2b f; ss_buffer := [] |};
                  match sighashsig_from_bytes b [] with
                  | Ok back => do b' <- sighashsig_to_bytes back; Ok (show_bytes b +++ ";" +++ show_bytes b')
                  | Err => Ok (show_bytes b +++ ";E")
                  | Panic => Panic
                  end
                else Err))
       (if in_range_bytes r s && existsb (N.eqb f) flag_bytes then
          let b := show_bytes (der_encode (be_Z r) (be_Z s) ++ [n2b f]) in "OK:" +++ b +++ ";" +++ b
        else "ERR") "-".

Definition run_sighashsig_parse (bs : bytes) : string :=
  out3 (render (do ss <- sighashsig_from_bytes bs []; do b <- sighashsig_to_bytes ss; Ok (show_bytes b)))
       (match spec_sighashsig_parse bs with Some _ => "OK:" +++ show_bytes bs | None => "ERR" end) "-".

Definition run (op : string) (args : list string) : string :=
  match op, args with
  | "sig.der_roundtrip", [r; s] =>
      match expand r, expand s with Some rb, Some sb => run_der_roundtrip rb sb | _, _ => "BADARG" end
  | "sig.from_der", [b] => match expand b with Some bs => run_from_der bs | None => "BADARG" end
  | "sig.from_hex_der", [t] => match expand t with Some tb => run_from_hex_der tb | None => "BADARG" end
  | "sig.compact", [r; s; id; c] =>
      match expand r, expand s, N_of_dec id, flag_of c with
      | Some rb, Some sb, Some n, Some cb => if (n <=? 3)%N then run_compact rb sb n cb else "BADARG"
      | _, _, _, _ => "BADARG"
      end
  | "sig.from_compact", [b] => match expand b with Some bs => run_from_compact bs | None => "BADARG" end
  | "sig.recover", [cb; m; h] =>
      match expand cb, expand m, hash_of h with
      | Some c, Some mb, Some hh => run_recover c mb hh
      | _, _, _ => "BADARG"
      end
  | "sig.recover_digest", [cb; d] =>
      match expand cb, expand d with Some c, Some db => run_recover_digest c db | _, _ => "BADARG" end
  | "sig.sign_recover", [k; c; m; h; rk; m2; h2] =>
      match expand k, flag_of c, expand m, hash_of h, flag_of rk, expand m2, hash_of h2 with
      | Some kb, Some cb, Some mb, Some hh, Some rkb, Some mb2, Some hh2 => run_sign_recover kb cb mb hh rkb mb2 hh2
      | _, _, _, _, _, _, _ => "BADARG"
      end
  | "sighashsig.roundtrip", [r; s; f] =>
      match expand r, expand s, N_of_dec f with
      | Some rb, Some sb, Some n => if (n <=? 255)%N then run_sighashsig_roundtrip rb sb n else "BADARG"
      | _, _, _ => "BADARG"
      end
  | "sighashsig.parse", [b] => match expand b with Some bs => run_sighashsig_parse bs | None => "BADARG" end
  | _, _ => "BADOP"
  end.
