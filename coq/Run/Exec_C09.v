(* Run/Exec_C09.v — decoder totality check.  For every `dec.<name>` op the driver reports only the outcome class
   (OK / ERR / PANIC / ABORT).  Where a Gallina model of the decoder exists its class is the <impl> field (so the
   correspondence is checked on the malformed streams too); decoders that live in external crates (JSON, CBOR, ...) or
   whose model is exercised by another property's check have <impl> = "*" (not modelled here).
   <spec> is always "OK~ERR": a value or an error, never a panic or an abort.  The peak-memory bound is checked by the
   orchestrator from the driver's allocator counter. *)
From BSV Require Import Base.Hex Model.Opcodes Model.Script Model.VarInt Model.Tx Model.AesApi Run.Exec_C20.

Definition cls {A} (r : outcome A) : string :=
  match r with Ok _ => "OK" | Err => "ERR" | Panic => "PANIC" end.

(* known-finding class: the recursive parser/drop overflows the native stack on tens of thousands of nested
   conditionals; a Gallina function has no stack.  Conservative superset: at least 10000 IF-family opcode bytes. *)
Fixpoint count_if (bs : bytes) (acc : N) : N :=
  match bs with
  | [] => acc
  | b :: r => count_if r (if is_if (b2n b) then acc + 1 else acc)%N
  end.
Definition deep (bs : bytes) : string := if (10000 <=? count_if bs 0)%N then "deep-nesting" else "-".

Definition out3 (impl spec known : string) : string := impl +++ "|" +++ spec +++ "|" +++ known.

Definition hex_text (bs : bytes) : option bytes := bytes_of_hex (string_of_bytes bs).

Definition run (op : string) (args : list string) : string :=
  match op, args with
  | "dec.script", [a] => match expand a with Some bs => out3 (cls (from_bytes bs)) "OK~ERR" (deep bs) | None => "BADARG" end
  | "dec.script_hex", [a] =>
      match expand a with
      | Some t => match hex_text t with
                  | Some bs => out3 (cls (from_bytes bs)) "OK~ERR" (deep bs)
                  | None => out3 "ERR" "OK~ERR" "-" end
      | None => "BADARG" end
  | "dec.tx", [a] => match expand a with Some bs => out3 (cls (tx_from_bytes bs)) "OK~ERR" (deep bs) | None => "BADARG" end
  | "dec.tx_hex", [a] =>
      match expand a with
      | Some t => match hex_text t with
                  | Some bs => out3 (cls (tx_from_bytes bs)) "OK~ERR" (deep bs)
                  | None => out3 "ERR" "OK~ERR" "-" end
      | None => "BADARG" end
  | "dec.txin", [a] => match expand a with Some bs => out3 (cls (txin_read bs)) "OK~ERR" (deep bs) | None => "BADARG" end
  | "dec.txout", [a] => match expand a with Some bs => out3 (cls (txout_read bs)) "OK~ERR" (deep bs) | None => "BADARG" end
  | "dec.outpoint", [a] => match expand a with Some bs => out3 (cls (txin_from_outpoint bs)) "OK~ERR" "-" | None => "BADARG" end
  | "dec.aes_enc", [md; k; i; d] =>
      match parse_algo md, expand k, expand i, expand d with
      | Some al, Some key, Some iv, Some data => out3 (cls (encrypt al key iv data)) "OK~ERR" "-"
      | _, _, _, _ => "BADARG" end
  | "dec.aes_dec", [md; k; i; d] =>
      match parse_algo md, expand k, expand i, expand d with
      | Some al, Some key, Some iv, Some data => out3 (cls (decrypt al key iv data)) "OK~ERR" "-"
      | _, _, _, _ => "BADARG" end
  | _, _ =>
      (* every other dec.* op: decoder not modelled in this file *)
      if String.prefix "dec." op then
        match args with
        | a :: _ => match expand a with Some bs => out3 "*" "OK~ERR" (deep bs) | None => out3 "*" "OK~ERR" "-" end
        | [] => out3 "*" "OK~ERR" "-"
        end
      else "BADOP"
  end.
