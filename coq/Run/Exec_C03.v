(* Run/Exec_C03.v — executable entry point of the C03 / C10 correspondence checks.
   run op args = "<implementation model output>|<specification output>|<known-finding class or ->"
   ops: tx.sighash, script.rm_codesep, tx.sign_verify.
   The implementation model hashes with the model of the library's Hash::sha_256d (Model/HashApi.v);
   the specification with SHA-256 applied twice (Prim/Sha256.v). *)
From BSV Require Import Base.Hex Prim.Sha256 Model.Opcodes Model.Script Model.VarInt Model.Tx Model.HashApi Model.Sighash
  Spec.ScriptTok Spec.SighashWire Spec.Bip143 Spec.LegacySighash.

Definition out3 (impl spec known : string) : string := impl +++ "|" +++ spec +++ "|" +++ known.
Definition H_spec (b : bytes) : bytes := sha256 (sha256 b).
Definition H_impl (b : bytes) : bytes := sha_256d b.

Definition show_pre (r : outcome bytes) : string :=
  match r with Ok p => "OK:" +++ show_bytes p | Err => "ERR" | Panic => "PANIC" end.

(* the six flag bytes each property speaks about *)
Definition c03_flag (f : N) : bool := inN f [65; 66; 67; 193; 194; 195]%N.
Definition c10_flag (f : N) : bool := inN f [1; 2; 3; 129; 130; 131]%N.

(* The index is a usize on the Rust side.  Every index >= the number of inputs takes the same path
   (get_input is None), so it is clamped before it becomes a unary number. *)
Definition clamp_idx (t : tx) (idx : N) : nat := N.to_nat (N.min idx (N.of_nat (length (inputs t)))).

(* What the specification prescribes for (transaction, index, flag, subscript bytes, value).
   The subscript enters as the raw byte string handed to the driver, read by the independent tokenizer;
   nothing is prescribed when that byte string is not a well-formed script (C02's business). *)
Definition spec_sighash (t : tx) (i : nat) (f : N) (subb : bytes) (v : N) : string :=
  match tokenize_spec subb with
  | TokOk ts =>
      if negb (balanced ts) then "-"
      else if c03_flag f then
        match bip143_preimage H_spec (view_tx t) i f subb v with
        | None => "ERR"
        | Some p =>
            if single_without_output (view_tx t) i f then "ERR~OK:" +++ show_bytes p
            else "OK:" +++ show_bytes p
        end
      else if c10_flag f then
        match legacy_preimage (view_tx t) i f ts with
        | None => "ERR"
        | Some p => "OK:" +++ show_bytes p
        end
      else "-"
  | _ => "-"
  end.

Definition run_sighash (txb : bytes) (idx f : N) (subb : bytes) (v : N) : string :=
  match tx_from_bytes txb, from_bytes subb with
  | Ok t, Ok sub =>
      let i := clamp_idx t idx in
      out3 (show_pre (sighash_preimage H_impl t i f sub v)) (spec_sighash t i f subb v) "-"
  | Panic, _ | _, Panic => out3 "PANIC" "-" "-"
  | _, _ => out3 "ERR" "-" "-"
  end.

(* tx.sighash_ann: annotations "k,sat|-,lock|-/..." are applied to the parsed value (extended-format fields of TxIn);
   the routes clone / JSON / CBOR / construction API keep them, the hex route drops them; neither the library's
   computation nor the specification may look at them.  Second field: Transaction::sign signs that buffer. *)
Definition ann_in (i : txin) (sat : option N) (lock : option (list bit)) : txin :=
  mk_txin (prev_tx_id i) (vout i) (unlocking i) (sequence i)
          (match lock with Some l => Some l | None => locking i end)
          (match sat with Some v => Some v | None => satoshis i end).
Definition strip_in (i : txin) : txin := mk_txin (prev_tx_id i) (vout i) (unlocking i) (sequence i) None None.

(* Some (Ok ..) parsed; Some Err: an annotation script the library refuses; None: malformed / index without input *)
Fixpoint apply_anns (l : list string) (t : tx) : option (outcome tx) :=
  match l with
  | [] => Some (Ok t)
  | e :: r =>
      match split "," e with
      | [k; sat; lock] =>
          match N_of_dec k with
          | Some kn =>
              let sat' := if String.eqb sat "-" then Some None else option_map Some (N_of_dec sat) in
              let lock' := if String.eqb lock "-" then Some None else option_map Some (expand lock) in
              match sat', lock' with
              | Some so, Some lo =>
                  if (kn <? N.of_nat (length (inputs t)))%N then
                    match nth_error (inputs t) (N.to_nat kn) with
                    | Some i =>
                        match (match lo with None => Ok None | Some lb => omap Some (from_bytes lb) end) with
                        | Ok ls => apply_anns r (mk_tx (version t) (set_nth (N.to_nat kn) (ann_in i so ls) (inputs t)) (outputs t) (locktime t))
                        | Err => Some Err
                        | Panic => Some Panic
                        end
                    | None => None
                    end
                  else None
              | _, _ => None
              end
          | None => None
          end
      | _ => None
      end
  end.

Definition run_sighash_ann (txb : bytes) (idx f : N) (subb : bytes) (v : N) (ann route : string) : string :=
  match tx_from_bytes txb, from_bytes subb with
  | Ok t0, Ok sub =>
      match apply_anns (if String.eqb ann "-" then [] else split "/" ann) t0 with
      | None => "BADARG"
      | Some (Ok t1) =>
          let t := if String.eqb route "h" then mk_tx (version t1) (map strip_in (inputs t1)) (outputs t1) (locktime t1) else t1 in
          let i := clamp_idx t idx in
          let impl := match sighash_preimage H_impl t i f sub v with
                      | Ok p => "OK:" +++ show_bytes p +++ ";1" | Err => "ERR" | Panic => "PANIC" end in
          let spec0 := spec_sighash t i f subb v in
          let spec := if String.eqb spec0 "-" then "-" else if String.eqb spec0 "ERR" then "ERR"
                      else join "~" (map (fun a => if String.eqb a "ERR" then a else a +++ ";1") (split "~" spec0)) in
          out3 impl spec "-"
      | Some Err => out3 "ERR" "-" "-"
      | Some Panic => out3 "PANIC" "-" "-"
      end
  | Panic, _ | _, Panic => out3 "PANIC" "-" "-"
  | _, _ => match apply_anns (if String.eqb ann "-" then [] else split "/" ann) (mk_tx 0 [] [] 0) with
            | _ => out3 "ERR" "-" "-" end
  end.

Definition run_rm_codesep (subb : bytes) : string :=
  let impl := match from_bytes subb with
              | Ok s => "OK:" +++ show_bytes (to_bytes (remove_codeseparators s))
              | Err => "ERR" | Panic => "PANIC" end in
  let spec := match tokenize_spec subb with
              | TokOk ts => if balanced ts then "OK:" +++ show_bytes (toks_bytes (erase_separators ts)) else "-"
              | _ => "-" end in
  out3 impl spec "-".

(* tx.sign_verify: the driver signs, then reports the preimage of a fresh copy, the flag byte at the end of
   SighashSignature::to_bytes, Transaction::verify, ECDSA::verify_digest of the DER part against the
   preimage (hash Sha256d), Transaction::_verify(.., false), and Transaction::verify under a different key.
   With a 7th argument (ephemeral key) the driver uses sign_with_k.
   The model says: the preimage, the flag, true, true, true, false. *)
Definition run_sign_verify (txb : bytes) (f idx : N) (subb : bytes) (v : N) : string :=
  match tx_from_bytes txb, from_bytes subb with
  | Ok t, Ok sub =>
      let i := clamp_idx t idx in
      let tail := ";" +++ dec_of_N f +++ ";1;1;1;0" in
      let impl := match sighash_preimage H_impl t i f sub v with
                  | Ok p => "OK:" +++ show_bytes p +++ tail | Err => "ERR" | Panic => "PANIC" end in
      let spec := match tokenize_spec subb with
                  | TokOk ts =>
                      if balanced ts && c03_flag f then
                        match bip143_preimage H_spec (view_tx t) i f subb v with
                        | None => "ERR"
                        | Some p => if single_without_output (view_tx t) i f
                                    then "ERR~OK:" +++ show_bytes p +++ tail else "OK:" +++ show_bytes p +++ tail
                        end
                      else if balanced ts && c10_flag f then
                        match legacy_preimage (view_tx t) i f ts with
                        | None => "ERR" | Some p => "OK:" +++ show_bytes p +++ tail end
                      else "-"
                  | _ => "-" end in
      out3 impl spec "-"
  | Panic, _ | _, Panic => out3 "PANIC" "-" "-"
  | _, _ => out3 "ERR" "-" "-"
  end.

Definition run (op : string) (args : list string) : string :=
  match op, args with
  | "tx.sighash", [txd; idx; fl; subd; vd] =>
      match expand txd, N_of_dec idx, N_of_dec fl, expand subd, N_of_dec vd with
      | Some txb, Some i, Some f, Some subb, Some v =>
          if is_sighash f then run_sighash txb i f subb v else "BADARG"
      | _, _, _, _, _ => "BADARG"
      end
  | "tx.sighash_ann", [txd; idx; fl; subd; vd; ann; route] =>
      match expand txd, N_of_dec idx, N_of_dec fl, expand subd, N_of_dec vd with
      | Some txb, Some i, Some f, Some subb, Some v =>
          if is_sighash f && existsb (String.eqb route) ["d"; "c"; "j"; "b"; "a"; "h"]
          then run_sighash_ann txb i f subb v ann route else "BADARG"
      | _, _, _, _, _ => "BADARG"
      end
  | "script.rm_codesep", [a] => match expand a with Some bs => run_rm_codesep bs | None => "BADARG" end
  | "tx.sign_verify", [txd; key; fl; idx; subd; vd] =>
      match expand txd, expand key, N_of_dec fl, N_of_dec idx, expand subd, N_of_dec vd with
      | Some txb, Some _, Some f, Some i, Some subb, Some v =>
          if is_sighash f then run_sign_verify txb f i subb v else "BADARG"
      | _, _, _, _, _, _ => "BADARG"
      end
  | "tx.sign_verify", [txd; key; fl; idx; subd; vd; kd] =>
      match expand txd, expand key, N_of_dec fl, N_of_dec idx, expand subd, N_of_dec vd, expand kd with
      | Some txb, Some _, Some f, Some i, Some subb, Some v, Some _ =>
          if is_sighash f then run_sign_verify txb f i subb v else "BADARG"
      | _, _, _, _, _, _, _ => "BADARG"
      end
  | _, _ => "BADOP"
  end.
