(* Run/BsmMemo.v — single-entry caches around the expensive curve primitives, used by Run/Exec_C12.v to verify a
   genuine signature several times at the cost of one recovery / verification.  [memo_prims r s odd z] answers
   exactly like [fast_prims] on every argument (Proofs/BsmProofs.v, memo_prims_ext): a lookup returns the value
   the underlying function has on the key.  Definitions only. *)
From BSV Require Import Base.Hex.
From BSV Require Import Prim.Num Prim.Secp256k1 Model.Ecdsa Model.Sig.
Local Open Scope Z_scope.

(* ------------------------------------------------------------------ *)
(* single-entry caches around the expensive primitives *)
Definition opt_point_eqb (A B : option point) : bool :=
  match A, B with Some a, Some b => point_eqb a b | None, None => true | _, _ => false end.

Definition memo_prims (r s : Z) (odd : bool) (z : Z) : ec_prims :=
  let R := lift_x_fast r odd in
  let sR := match R with Some R' => smul_fast s R' | None => None end in
  let zG := smul_fast z G in
  let Q := recover_fast r s odd z in
  let vq := match Q with Ok Q' => prim_verify_fast Q' z (r, s) | _ => false end in
  MkPrims prim_sign_fast
    (fun Q' z' rs' =>
       if (match Q with Ok Q0 => point_eqb Q0 Q' | _ => false end) && (z' =? z) && (fst rs' =? r) && (snd rs' =? s)
       then vq else prim_verify_fast Q' z' rs')
    (fun r' s' o' z' =>
       if (r' =? r) && (s' =? s) && Bool.eqb o' odd && (z' =? z) then Q else recover_fast r' s' o' z')
    sec1_decode_fast pubkey_fast ecdh_fast
    (fun k' A =>
       if (k' =? s) && opt_point_eqb (Some A) R then sR
       else if (k' =? z) && point_eqb A G then zG
       else smul_fast k' A)
    (fun x o => if (x =? r) && Bool.eqb o odd then R else lift_x_fast x o).

