(* Run/Exec_C04.v — executable entry point of the C04 correspondence check.
   op tx.history: args = [initial transaction bytes; operation list].
   Operation list: operations joined by "_", fields by "."; byte fields are descriptors, integers decimal:
     ai.<txid>.<vout>.<script>.<seq>     add_input(TxIn::new(txid, vout, script, Some(seq)))
     pi.<txid>.<vout>.<script>.<seq>     prepend_input          ii.<k>.<...>  insert_input(k, ..)   si.<k>.<...>  set_input(k, ..)
     ao.<value>.<script>                 add_output(TxOut::new(value, script))
     po.<value>.<script>                 prepend_output         io.<k>.<...>  insert_output(k, ..)  so.<k>.<...>  set_output(k, ..)
     sv.<n>  set_version     sl.<n>  set_nlocktime     cl  continue with tx.clone()
     svc.<n> / slc.<n>                   the same, continuing with the clone these two calls return
     sh.<flag>.<idx>.<subscript>.<value> sighash_preimage
     sg.<flag>.<idx>.<subscript>.<value> sign (fixed key);  sk. ... sign_with_k (fixed key and nonce): first field v1 / v0 =
                                         Transaction::verify of the returned signature (E = refused); third field v1 / v0 =
                                         ECDSA::verify_digest of that signature against the fresh copy's preimage
     ais.<e>/<e>/...                     add_inputs(vec), element = <txid>,<vout>,<script>,<seq> ("ais." = empty vec)
     aos.<e>/<e>/...                     add_outputs(vec), element = <value>,<script>
     hi.<flag>                           the public hash_inputs(flag): first / third field = checksum of the 32 bytes
     go                                  get_outpoints()
     fk                                  keep a second object: other = tx.clone()      sw   swap tx and the other object
     cf / as / ms                        tx.clone_from(&other) / tx = other.clone() / std::mem::swap(&mut tx, &mut other) (nothing without an other object)
     new.<version>.<locktime> / def      continue with Transaction::new(..) / Transaction::default()
     mi.<k>.<vo|sq|id|us|sa|lk>.<val>.<s|a|i<j>>   get_input(k), ONE setter (vout / sequence / prev_tx_id / unlocking script / satoshis /
                                         locking script), then set_input(k) / add_input / insert_input(j) with that derived input
     an.<k>.<sat|->.<lock|->             annotate input k (get_input, set_satoshis / set_locking_script, set_input); no input k: nothing
     pb.<bytes> / ph.<bytes>             continue with Transaction::from_bytes(bytes) / from_hex(hex of bytes) (any accepted encoding,
                                         e.g. non-minimal compact sizes)
     fb / fh / fj / fc                   continue with from_bytes(to_bytes()) / from_hex(to_hex()) / from_json_string(to_json_string())
                                         / from_compact_bytes(to_compact_bytes()) of the current object (cache must be empty again;
                                         contents unchanged: properties C01 / C18; the histories contain no coinbase input)
   Result: "OK:" followed by six ";"-separated fields per step:
     preimage (n = not a sighash step, E = refused, else <len>:<checksum>) ; serialisation <len>:<checksum> ;
     preimage of a fresh from_bytes(to_bytes()) copy (n / E / X = the copy does not parse / <len>:<checksum>) ;
     the three cache slots after the step (- or hex).
   A panicking step makes the whole case PANIC.
   The specification column prescribes, per sighash step, the uncached preimage of the current contents
   (hash = SHA-256 twice) for both preimage fields. *)
From BSV Require Import Base.Hex Prim.Sha256 Model.Opcodes Model.Script Model.VarInt Model.Tx Model.HashApi Model.Sighash Model.Cache.

Definition out3 (impl spec known : string) : string := impl +++ "|" +++ spec +++ "|" +++ known.
Definition H_spec (b : bytes) : bytes := sha256 (sha256 b).
Definition H_impl (b : bytes) : bytes := sha_256d b.

Definition ck (bs : bytes) : string :=
  let '(a, b) := fletcher bs 1 0 in dec_of_N (N.of_nat (length bs)) +++ ":" +++ dec_of_N (b * 65536 + a)%N.
Definition show_slot (o : option bytes) : string := match o with None => "-" | Some h => hex_of_bytes h end.
Definition show_res (r : outcome bytes) : string := match r with Ok p => ck p | Err => "E" | Panic => "P" end.

(* operations as they arrive: indices are still N (usize) *)
Inductive xop :=
| XIn (kind : N) (k : N) (i : txin)          (* kind 0 add, 1 prepend, 2 insert, 3 set *)
| XOut (kind : N) (k : N) (o : txout)
| XVer (v : N) | XLock (v : N) | XClone
| XSig (f idx : N) (sub : list bit) (v : N)
| XSign (f idx : N) (sub : list bit) (v : N)
| XIns (l : list txin) | XOuts (l : list txout) | XHashIn (f : N) | XGetOutpoints
| XFork | XSwap | XCloneFrom | XNew (v lt : N) | XDefault | XReparse (kind : N) | XParse (b : bytes)
| XAnn (k : N) (sat : option N) (lock : option (list bit))
| XMod (k : N) (m : txin -> txin) (dst : N) (j : N).          (* dst 0 set_input(k), 1 add_input, 2 insert_input(j) *)

Definition parse_in (txid vo scr sq : string) : option txin :=
  match expand txid, N_of_dec vo, expand scr, N_of_dec sq with
  | Some id, Some v, Some sb, Some q =>
      match from_bytes sb with Ok s => Some (txin_new id v s (Some q)) | _ => None end
  | _, _, _, _ => None
  end.
Definition parse_out (v scr : string) : option txout :=
  match N_of_dec v, expand scr with
  | Some n, Some sb => match from_bytes sb with Ok s => Some (txout_new n s) | _ => None end
  | _, _ => None
  end.

Fixpoint parse_list {A} (pe : list string -> option A) (l : list string) : option (list A) :=
  match l with
  | [] => Some []
  | e :: r => match pe (split "," e), parse_list pe r with Some a, Some as' => Some (a :: as') | _, _ => None end
  end.
Definition parse_elems {A} (pe : list string -> option A) (body : string) : option (list A) :=
  if String.eqb body "" then Some [] else parse_list pe (split "/" body).
Definition pe_in (f : list string) : option txin := match f with [a; b; c; d] => parse_in a b c d | _ => None end.
Definition pe_out (f : list string) : option txout := match f with [a; b] => parse_out a b | _ => None end.

Definition parse_sig (mk : N -> N -> list bit -> N -> xop) (f i sub v : string) : option xop :=
  match N_of_dec f, N_of_dec i, expand sub, N_of_dec v with
  | Some f', Some i', Some sb, Some v' =>
      if is_sighash f' then match from_bytes sb with Ok s => Some (mk f' i' s v') | _ => None end else None
  | _, _, _, _ => None
  end.

Definition parse_op (s : string) : option xop :=
  match split "." s with
  | ["svc"; v] => option_map XVer (N_of_dec v)
  | ["slc"; v] => option_map XLock (N_of_dec v)
  | ["sg"; f; i; sub; v] => parse_sig XSign f i sub v
  | ["sk"; f; i; sub; v] => parse_sig XSign f i sub v
  | ["ais"; body] => option_map XIns (parse_elems pe_in body)
  | ["aos"; body] => option_map XOuts (parse_elems pe_out body)
  | ["hi"; f] => match N_of_dec f with Some f' => if is_sighash f' then Some (XHashIn f') else None | None => None end
  | ["go"] => Some XGetOutpoints
  | ["fk"] => Some XFork
  | ["sw"] => Some XSwap
  | ["ms"] => Some XSwap
  | ["cf"] => Some XCloneFrom
  | ["as"] => Some XCloneFrom
  | ["new"; v; lt] => match N_of_dec v, N_of_dec lt with Some a, Some b => Some (XNew a b) | _, _ => None end
  | ["def"] => Some XDefault
  | ["fb"] => Some (XReparse 0)
  | ["fh"] => Some (XReparse 1)
  | ["fj"] => Some (XReparse 2)
  | ["fc"] => Some (XReparse 3)
  | ["mi"; k; fld; val; dst] =>
      let m : option (txin -> txin) :=
        match fld with
        | "vo" => option_map (fun v i => mk_txin (prev_tx_id i) v (unlocking i) (sequence i) (locking i) (satoshis i))
                             (match N_of_dec val with Some v => if (v <? 4294967296)%N then Some v else None | None => None end)
        | "sq" => option_map (fun v i => mk_txin (prev_tx_id i) (vout i) (unlocking i) v (locking i) (satoshis i))
                             (match N_of_dec val with Some v => if (v <? 4294967296)%N then Some v else None | None => None end)
        | "sa" => option_map (fun v i => mk_txin (prev_tx_id i) (vout i) (unlocking i) (sequence i) (locking i) (Some v))
                             (match N_of_dec val with Some v => if (v <=? 18446744073709551615)%N then Some v else None | None => None end)
        | "id" => option_map (fun b i => mk_txin b (vout i) (unlocking i) (sequence i) (locking i) (satoshis i)) (expand val)
        | "us" => match expand val with
                  | Some b => match from_bytes b with
                              | Ok sc => Some (fun i => mk_txin (prev_tx_id i) (vout i) sc (sequence i) (locking i) (satoshis i)) | _ => None end
                  | None => None end
        | "lk" => match expand val with
                  | Some b => match from_bytes b with
                              | Ok sc => Some (fun i => mk_txin (prev_tx_id i) (vout i) (unlocking i) (sequence i) (Some sc) (satoshis i)) | _ => None end
                  | None => None end
        | _ => None
        end in
      let d : option (N * N) :=
        match dst with
        | "s" => Some (0, 0)%N
        | "a" => Some (1, 0)%N
        | String "i" r => option_map (fun j => (2, j)%N) (N_of_dec r)
        | _ => None
        end in
      match N_of_dec k, m, d with
      | Some kn, Some f, Some (dn, j) => Some (XMod kn f dn j)
      | _, _, _ => None
      end
  | ["an"; k; sat; lock] =>
      match N_of_dec k,
            (if String.eqb sat "-" then Some None else option_map Some (N_of_dec sat)),
            (if String.eqb lock "-" then Some None
             else match expand lock with Some lb => match from_bytes lb with Ok l => Some (Some l) | _ => None end | None => None end) with
      | Some kn, Some so, Some lo => Some (XAnn kn so lo)
      | _, _, _ => None
      end
  | ["pb"; d] => option_map XParse (expand d)
  | ["ph"; d] => option_map XParse (expand d)
  | ["ai"; a; b; c; d] => option_map (XIn 0 0) (parse_in a b c d)
  | ["pi"; a; b; c; d] => option_map (XIn 1 0) (parse_in a b c d)
  | ["ii"; k; a; b; c; d] => match N_of_dec k with Some n => option_map (XIn 2 n) (parse_in a b c d) | None => None end
  | ["si"; k; a; b; c; d] => match N_of_dec k with Some n => option_map (XIn 3 n) (parse_in a b c d) | None => None end
  | ["ao"; a; b] => option_map (XOut 0 0) (parse_out a b)
  | ["po"; a; b] => option_map (XOut 1 0) (parse_out a b)
  | ["io"; k; a; b] => match N_of_dec k with Some n => option_map (XOut 2 n) (parse_out a b) | None => None end
  | ["so"; k; a; b] => match N_of_dec k with Some n => option_map (XOut 3 n) (parse_out a b) | None => None end
  | ["sv"; v] => option_map XVer (N_of_dec v)
  | ["sl"; v] => option_map XLock (N_of_dec v)
  | ["cl"] => Some XClone
  | ["sh"; f; i; sub; v] =>
      match N_of_dec f, N_of_dec i, expand sub, N_of_dec v with
      | Some f', Some i', Some sb, Some v' =>
          if is_sighash f' then match from_bytes sb with Ok s => Some (XSig f' i' s v') | _ => None end else None
      | _, _, _, _ => None
      end
  | _ => None
  end.

Fixpoint parse_ops (l : list string) : option (list xop) :=
  match l with
  | [] => Some []
  | s :: r => match parse_op s, parse_ops r with Some o, Some os => Some (o :: os) | _, _ => None end
  end.

(* usize -> nat: every index beyond the relevant bound behaves like the bound itself (insert: > len panics;
   set: >= len panics; sighash: >= number of inputs is refused), so it is clamped first *)
Definition clampN (k : N) (bound : nat) : nat := N.to_nat (N.min k (N.of_nat bound)).
Definition to_op (s : state) (x : xop) : op :=
  let t := st_tx s in
  match x with
  | XIn kind k i =>
      if (kind =? 0)%N then AddInput i else if (kind =? 1)%N then PrependInput i
      else if (kind =? 2)%N then InsertInput (clampN k (S (length (inputs t)))) i
      else SetInput (clampN k (length (inputs t))) i
  | XOut kind k o =>
      if (kind =? 0)%N then AddOutput o else if (kind =? 1)%N then PrependOutput o
      else if (kind =? 2)%N then InsertOutput (clampN k (S (length (outputs t)))) o
      else SetOutput (clampN k (length (outputs t))) o
  | XVer v => SetVersion v
  | XLock v => SetLocktime v
  | XClone => CloneOp
  | XSig f idx sub v => Sighash f (clampN idx (length (inputs t))) sub v
  | XSign f idx sub v => SignOp f (clampN idx (length (inputs t))) sub v
  | XIns l => AddInputs l
  | XOuts l => AddOutputs l
  | XHashIn f => HashInputsOp f
  | XGetOutpoints => GetOutpointsOp
  | XMod k m dst j =>
      if (k <? N.of_nat (length (inputs t)))%N then
        match nth_error (inputs t) (N.to_nat k) with
        | Some i =>
            if (dst =? 0)%N then SetInput (N.to_nat k) (m i)
            else if (dst =? 1)%N then AddInput (m i)
            else InsertInput (clampN j (S (length (inputs t)))) (m i)
        | None => CloneOp
        end
      else CloneOp
  | XAnn k sat lock =>
      if (k <? N.of_nat (length (inputs t)))%N then
        match nth_error (inputs t) (N.to_nat k) with
        | Some i => SetInput (N.to_nat k)
                      (mk_txin (prev_tx_id i) (vout i) (unlocking i) (sequence i)
                               (match lock with Some l => Some l | None => locking i end)
                               (match sat with Some v => Some v | None => satoshis i end))
        | None => CloneOp
        end
      else CloneOp
  | XFork | XSwap | XCloneFrom | XNew _ _ | XDefault | XReparse _ | XParse _ => CloneOp     (* handled by `special` below *)
  end.

(* steps that replace the object instead of calling a method on it: every one of them yields a value whose cache is
   a copy (clone) or empty (constructors, parsers) *)
Definition special (x : xop) (s : state) (other : option state) : option (outcome (state * option state)) :=
  match x with
  | XFork => Some (Ok (s, Some s))
  | XSwap => Some (Ok (match other with Some o => (o, Some s) | None => (s, None) end))
  | XCloneFrom => Some (Ok (match other with Some o => (o, Some o) | None => (s, None) end))   (* contents and cache of the source *)
  | XNew v lt => Some (Ok (fresh (tx_new v lt), other))
  | XDefault => Some (Ok (fresh (tx_new 2 0), other))
  | XParse b =>
      Some (match tx_from_bytes b with Ok t' => Ok (fresh t', other) | Err => Err | Panic => Panic end)
  | XReparse k =>
      if (k <? 2)%N then
        Some (match tx_from_bytes (tx_bytes (st_tx s)) with
              | Ok t' => Ok (fresh t', other) | Err => Err | Panic => Panic end)
      else Some (Ok (fresh (st_tx s), other))
  | _ => None
  end.

Definition show_state_tail (s : state) : string :=
  ck (tx_bytes (st_tx s)) .
Definition show_slots (s : state) : string :=
  show_slot (c_inputs (st_cache s)) +++ ";" +++ show_slot (c_sequence (st_cache s)) +++ ";" +++ show_slot (c_outputs (st_cache s)).

(* fresh copy: Transaction::from_bytes(&tx.to_bytes()) and the same sighash call on it *)
(* a signing step shows whether the signature verifies: true whenever there is a preimage *)
Definition show_signed (r : outcome bytes) : string := match r with Ok _ => "v1" | Err => "E" | Panic => "P" end.
Definition show_out (o : op) (r : outcome bytes) : string :=
  match o with SignOp _ _ _ _ => show_signed r | _ => show_res r end.

Definition fresh_result (t : tx) (o : op) : string :=
  match o with
  | Sighash f idx sub v | SignOp f idx sub v =>
      match tx_from_bytes (tx_bytes t) with
      | Ok t' => show_out o (snd (sighash_cached H_impl (fresh t') idx f sub v))
      | _ => "X"
      end
  | HashInputsOp f =>
      match tx_from_bytes (tx_bytes t) with
      | Ok t' => ck (snd (hash_inputs_c H_impl (fresh t') f))
      | _ => "X"
      end
  | _ => "n"
  end.

Definition spec_result (t : tx) (o : op) : string :=
  match o with
  | Sighash f idx sub v | SignOp f idx sub v => show_out o (sighash_preimage H_spec t idx f sub v)
  | HashInputsOp f => ck (hash_inputs H_spec t f)
  | _ => "n"
  end.

(* returns (impl fields, spec fields) per step; Panic = a step panicked, Err = a re-parse was refused *)
Fixpoint run_history (xs : list xop) (s : state) (other : option state) : outcome (list string * list string) :=
  match xs with
  | [] => Ok ([], [])
  | x :: r =>
      match special x s other with
      | Some (Ok (s', other')) =>
          let impl := "n;" +++ ck (tx_bytes (st_tx s')) +++ ";n;" +++ show_slots s' in
          do rest <- run_history r s' other'; let '(is, ss) := rest in
          Ok (impl :: is, "n;*;n;*;*;*" :: ss)
      | Some Err => Err
      | Some Panic => Panic
      | None =>
          let o := to_op s x in
          match step H_impl s o with
          | Ok (s', out) =>
              let p := match out with Some res => show_out o res | None => "n" end in
              let impl := p +++ ";" +++ ck (tx_bytes (st_tx s')) +++ ";" +++ fresh_result (st_tx s') o +++ ";" +++ show_slots s' in
              let sp := spec_result (st_tx s') o in
              let spec := sp +++ ";*;" +++ sp +++ ";*;*;*" in
              do rest <- run_history r s' other; let '(is, ss) := rest in
              Ok (impl :: is, spec :: ss)
          | _ => Panic
          end
      end
  end.

Definition run_hist (txb : bytes) (ops : string) : string :=
  match tx_from_bytes txb with
  | Ok t =>
      match parse_ops (if String.eqb ops "" then [] else split "_" ops) with
      | Some xs =>
          match run_history xs (fresh t) None with
          | Ok (is, ss) => out3 ("OK:" +++ join ";" is) ("OK:" +++ join ";" ss) "-"
          | Panic => out3 "PANIC" "-" "-"
          | Err => out3 "ERR" "-" "-"
          end
      | None => "BADARG"
      end
  | Panic => out3 "PANIC" "-" "-"
  | Err => out3 "ERR" "-" "-"
  end.

Definition run (op : string) (args : list string) : string :=
  match op, args with
  | "tx.history", [txd; ops] => match expand txd with Some b => run_hist b ops | None => "BADARG" end
  | _, _ => "BADOP"
  end.
