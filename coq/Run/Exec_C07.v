(* Run/Exec_C07.v — executable entry point of the C07 correspondence check.
   run op args = "<implementation model output>|<specification output>|-"

   <impl> is Model/Keys.v on the execution curve instance (BigZ).  <spec> is what property C07 prescribes,
   computed from the Prim references only (Base58Check of Prim/Base58.v over Prim/Sha256.v, SEC1 and
   scalar multiplication of Prim/Secp256k1.v, RIPEMD-160 of Prim/Ripemd160.v).  Where the property does not
   fix the value (version byte of a WIF other than 80) the column still says "an error or a value, never a
   panic" (alternatives ERR or OK with wildcard fields).

   ops (text = hex of the UTF-8 bytes, flag/compressed = 0|1, prefix = one byte in hex):
     key.from_wif text                    -> key (to_bytes);compressed;key (to_hex)
     key.to_wif key compressed            -> wif;reparsed key;reparsed flag;reparsed to_hex
     key.from_hex text / key.from_bytes b -> key;compressed;to_hex
     key.to_pub key compressed            -> to_public_key (bytes;flag;to_hex);get_point;from_private_key (bytes;flag;to_hex)
     key.random                           -> from_random behaves: distinct;valid;compressed;WIF round trip
     key.address key compressed prefix    -> pubkey;hash160;address string;locking script
     pub.parse b / pub.from_hex text      -> bytes;is_compressed;to_hex
     pub.compress b / pub.decompress b    -> bytes;is_compressed;to_hex
     pub.address b                        -> prefix;hash;string;hash hex;from_pubkey = to_p2pkh_address
     pub.unlock_own b prefix der flag     -> unlocking script of the key's own address under that prefix
     addr.from_string text                -> prefix;hash;string;hash hex
     addr.to_string prefix hash           -> string
     addr.from_hash hash                  -> prefix;hash;string;hash hex
     addr.set_chain text prefix           -> prefix;hash;string;hash hex
     addr.chain_named hash name           -> set_chain_params(ChainParams::name()): prefix;hash;string;hash hex;same as _impl
     addr.locking prefix hash             -> script bytes
     addr.unlocking prefix hash pub der flag -> script bytes *)
From BSV Require Import Base.Hex.
From BSV Require Import Prim.Num Prim.Secp256k1 Prim.Base58 Prim.Sha256 Prim.Ripemd160 Prim.Der.
From BSV Require Import Model.HashApi Model.Opcodes Model.Script Model.Asm Model.Keys.

Definition out3 (impl spec known : string) : string := impl +++ "|" +++ spec +++ "|" +++ known.
Definition flag (b : bool) : string := if b then "1" else "0".
Definition text_of (bs : bytes) : string := string_of_bytes bs.

Definition sha256d_ref (m : bytes) : bytes := sha256 (sha256 m).
Definition hash160_ref (m : bytes) : bytes := ripemd160 (sha256 m).

Definition show_o {A} (f : A -> string) (r : outcome A) : string :=
  match r with Ok a => "OK:" +++ f a | Err => "ERR" | Panic => "PANIC" end.

(* PrivateKey::to_bytes ; flag ; PrivateKey::to_hex *)
Definition show_key (k : privkey) : string :=
  hex_of_bytes (priv_to_bytes k) +++ ";" +++ flag (sk_compressed k) +++ ";" +++ priv_to_hex k.
(* PublicKey::to_bytes ; is_compressed ; to_hex *)
Definition show_pub (pk : pubkey_t) : string :=
  hex_of_bytes (pk_point pk) +++ ";" +++ flag (pk_compressed pk) +++ ";" +++ hex_of_bytes (pk_point pk).

(* the driver finds the prefix by comparing the whole address (prefix, hash AND stored checksum) with
   from_pubkey_hash(hash).set_chain_params(p) for p = 0..255; the model reports the prefix when the stored
   checksum is the one that construction gives, "xx" otherwise.  Fields: prefix;to_pubkey_hash;to_string;to_pubkey_hash_hex *)
Definition show_addr_checked (a : address) : string :=
  (if bytes_eqb (a_checksum a) (checksum4 (a_prefix a :: a_hash a)) then hex_of_bytes [a_prefix a] else "xx")
  +++ ";" +++ hex_of_bytes (a_hash a) +++ ";" +++ addr_to_string a +++ ";" +++ hex_of_bytes (a_hash a).

(* ------------------------------------------------------------------ *)
(* specification side *)
Definition spec_key_of_bytes (bs : bytes) : option Z :=
  if Nat.eqb (length bs) 32 then (let v := be_Z bs in if in_scalar v then Some v else None) else None.

Definition spec_show_key (kb : bytes) (c : bool) : string :=
  hex_of_bytes kb +++ ";" +++ flag c +++ ";" +++ hex_of_bytes kb.
Definition spec_show_pub (enc : bytes) (c : bool) : string :=
  hex_of_bytes enc +++ ";" +++ flag c +++ ";" +++ hex_of_bytes enc.
Definition spec_addr_string (p : byte) (h : bytes) : string := b58check_encode sha256d_ref (p :: h).
Definition spec_show_addr (p : byte) (h : bytes) : string :=
  hex_of_bytes [p] +++ ";" +++ hex_of_bytes h +++ ";" +++ spec_addr_string p h +++ ";" +++ hex_of_bytes h.

(* Base58Check payload -> (key, compressed); None = must be rejected *)
Definition spec_wif_payload (payload : bytes) : option (bytes * bool) :=
  match payload with
  | _ :: rest =>
      if Nat.eqb (length rest) 32 then Some (rest, false)
      else if Nat.eqb (length rest) 33 && byte_eqb (last rest x00) x01 then Some (firstn 32 rest, true)
      else None
  | [] => None
  end.

Definition spec_from_wif (s : string) : string :=
  match b58check_decode sha256d_ref s with
  | None => "ERR"
  | Some payload =>
      match spec_wif_payload payload with
      | None => "ERR"
      | Some (kb, c) =>
          match spec_key_of_bytes kb with
          | None => "ERR"
          | Some _ =>
              (* the property speaks about mainnet WIF (version 80); for other version bytes it only excludes a panic *)
              if byte_eqb (hd x00 payload) x80 then "OK:" +++ spec_show_key kb c else "ERR~*;*;*"
          end
      end
  end.

Definition spec_from_string (s : string) : string :=
  match b58check_decode sha256d_ref s with
  | Some (p :: h) =>
      if Nat.eqb (length h) 20
      then "OK:" +++ hex_of_bytes [p] +++ ";" +++ hex_of_bytes h +++ ";" +++ s +++ ";" +++ hex_of_bytes h else "ERR"
  | _ => "ERR"
  end.

Definition p2pkh_bytes (h : bytes) : bytes := [x76; xa9; x14] ++ h ++ [x88; xac].
Definition push_bytes (d : bytes) : bytes := n2b (N.of_nat (length d)) :: d.

(* ------------------------------------------------------------------ *)
Definition run_from_wif (t : bytes) : string :=
  let s := text_of t in out3 (show_o show_key (from_wif s)) (spec_from_wif s) "-".

Definition run_to_wif (kb : bytes) (c : bool) : string :=
  let impl :=
    match priv_from_bytes kb with
    | Ok k0 => let k := compress_public_key k0 c in
               let w := to_wif k in
               "OK:" +++ w +++ ";" +++ match from_wif w with Ok k' => show_key k' | Err => "ERR" | Panic => "PANIC" end
    | Err => "ERR" | Panic => "PANIC"
    end in
  let spec :=
    match spec_key_of_bytes kb with
    | Some _ => "OK:" +++ b58check_encode sha256d_ref (x80 :: kb ++ (if c then [x01] else [])) +++ ";" +++ spec_show_key kb c
    | None => "ERR"
    end in
  out3 impl spec "-".

Definition spec_key (kb : bytes) : string :=
  match spec_key_of_bytes kb with Some _ => "OK:" +++ spec_show_key kb true | None => "ERR" end.

Definition run_from_hex (t : bytes) : string :=
  let s := text_of t in
  out3 (show_o show_key (priv_from_hex s))
       (match bytes_of_hex s with Some kb => spec_key kb | None => "ERR" end) "-".

Definition run_from_bytes (kb : bytes) : string :=
  out3 (show_o show_key (priv_from_bytes kb)) (spec_key kb) "-".

(* from_random: the driver reports four behavioural facts *)
Definition run_key_random : string := out3 "OK:1;1;1;1" "OK:1;1;1;1" "-".

(* one scalar multiplication per case, shared by both sides *)
Definition curve_memo (P : point) : curve_impl :=
  {| ci_pubkey := fun _ => P; ci_decode := sec1_decode_fast; ci_lift := lift_x_fast |}.

Definition run_to_pub (kb : bytes) (c : bool) : string :=
  match priv_from_bytes kb with
  | Ok k0 =>
      let P := pubkey_fast (sk_scalar k0) in
      let k := compress_public_key k0 c in
      let enc := sec1_encode c P in
      out3 (match to_public_key (curve_memo P) k with
            | Ok pk => "OK:" +++ show_pub pk
                       +++ ";" +++ hex_of_bytes (pk_point (pub_from_private (curve_memo P) k))       (* get_point *)
                       +++ ";" +++ show_pub (pub_from_private (curve_memo P) k)                       (* from_private_key *)
            | Err => "ERR" | Panic => "PANIC" end)
           ("OK:" +++ spec_show_pub enc c +++ ";" +++ hex_of_bytes enc +++ ";" +++ spec_show_pub enc c) "-"
  | Err => out3 "ERR" "ERR" "-"
  | Panic => out3 "PANIC" "ERR" "-"
  end.

Definition run_key_address (kb : bytes) (c : bool) (p : byte) : string :=
  match priv_from_bytes kb with
  | Ok k0 =>
      let P := pubkey_fast (sk_scalar k0) in
      let impl :=
        show_o (fun x => x)
          (do pk <- to_public_key (curve_memo P) (compress_public_key k0 c);
           do a <- pub_to_address pk;
           do a' <- addr_set_chain a p;
           do ls <- addr_locking_script a';
           Ok (hex_of_bytes (pk_point pk) +++ ";" +++ hex_of_bytes (a_hash a') +++ ";" +++ addr_to_string a'
               +++ ";" +++ hex_of_bytes (to_bytes ls))) in
      let enc := sec1_encode c P in
      let h := hash160_ref enc in
      out3 impl ("OK:" +++ hex_of_bytes enc +++ ";" +++ hex_of_bytes h +++ ";" +++ spec_addr_string p h
                 +++ ";" +++ hex_of_bytes (p2pkh_bytes h)) "-"
  | Err => out3 "ERR" "ERR" "-"
  | Panic => out3 "PANIC" "ERR" "-"
  end.

Definition spec_pub_parse (bs : bytes) : string :=
  match sec1_decode_fast bs with
  | Some _ => "OK:" +++ spec_show_pub bs (Nat.eqb (length bs) 33)
  | None => "ERR" end.

Definition run_pub_parse (bs : bytes) : string :=
  out3 (show_o show_pub (pub_from_bytes curve_fast bs)) (spec_pub_parse bs) "-".

Definition run_pub_from_hex (t : bytes) : string :=
  let s := text_of t in
  out3 (show_o show_pub (pub_from_hex curve_fast s))
       (match bytes_of_hex s with Some bs => spec_pub_parse bs | None => "ERR" end) "-".

Definition run_pub_recode (compress : bool) (bs : bytes) : string :=
  out3 (show_o show_pub (do pk <- pub_from_bytes curve_fast bs;
                         if compress then pub_to_compressed pk else pub_to_decompressed curve_fast pk))
       (match sec1_decode_fast bs with
        | Some P => "OK:" +++ spec_show_pub (sec1_encode compress P) compress
        | None => "ERR" end) "-".

(* P2PKHAddress::from_pubkey and PublicKey::to_p2pkh_address are the same function: last field 1 *)
Definition run_pub_address (bs : bytes) : string :=
  out3 (show_o (fun a => show_addr_checked a +++ ";" +++
                         match addr_from_pubkey {| pk_point := bs; pk_compressed := false |} with
                         | Ok b => flag (bytes_eqb (a_hash a) (a_hash b) && bytes_eqb (a_checksum a) (a_checksum b)
                                         && byte_eqb (a_prefix a) (a_prefix b))
                         | _ => "E" end)
               (do pk <- pub_from_bytes curve_fast bs; pub_to_address pk))
       (match sec1_decode_fast bs with
        | Some _ => "OK:" +++ spec_show_addr x00 (hash160_ref bs) +++ ";1"
        | None => "ERR" end) "-".

Definition sig_ok (der : bytes) (fl : byte) : bool :=
  match der_decode der with Some _ => sighash_of_u8 (b2n fl) | None => false end.

Definition show_script (r : outcome (list bit)) : string := show_o (fun s => hex_of_bytes (to_bytes s)) r.

Definition run_unlock_own (bs : bytes) (p : byte) (der : bytes) (fl : byte) : string :=
  if negb (sig_ok der fl) then out3 "ERR" "ERR" "-" else
  let sg := der ++ [fl] in
  out3 (show_script (do pk <- pub_from_bytes curve_fast bs;
                     do a <- pub_to_address pk;
                     do a' <- addr_set_chain a p;
                     addr_unlocking_script a' pk sg))
       (match sec1_decode_fast bs with
        | Some _ => "OK:" +++ hex_of_bytes (push_bytes sg ++ push_bytes bs)
        | None => "ERR" end) "-".

Definition run_addr_from_string (t : bytes) : string :=
  let s := text_of t in out3 (show_o show_addr_checked (addr_from_string s)) (spec_from_string s) "-".

Definition make_addr (p : byte) (h : bytes) : outcome address :=
  do a <- addr_from_pubkey_hash h; addr_set_chain a p.

Definition run_addr_to_string (p : byte) (h : bytes) : string :=
  out3 (show_o addr_to_string (make_addr p h))
       (if Nat.eqb (length h) 20 then "OK:" +++ spec_addr_string p h else "ERR") "-".

Definition run_addr_from_hash (h : bytes) : string :=
  out3 (show_o show_addr_checked (addr_from_pubkey_hash h))
       (if Nat.eqb (length h) 20 then "OK:" +++ spec_show_addr x00 h else "ERR") "-".

Definition run_addr_set_chain (t : bytes) (p : byte) : string :=
  let s := text_of t in
  out3 (show_o show_addr_checked (do a <- addr_from_string s; addr_set_chain a p))
       (match b58check_decode sha256d_ref s with
        | Some (_ :: h) => if Nat.eqb (length h) 20 then "OK:" +++ spec_show_addr p h else "ERR"
        | _ => "ERR" end) "-".

(* ChainParams::mainnet / default: p2pkh = 00; testnet, regtest, stn: 6f.  set_chain_params and the public
   set_chain_params_impl are the same function: last field 1 *)
Definition chain_byte (name : string) : option byte :=
  match name with
  | "mainnet" => Some x00 | "default" => Some x00
  | "testnet" => Some x6f | "regtest" => Some x6f | "stn" => Some x6f
  | _ => None
  end.
Definition run_chain_named (h : bytes) (p : byte) : string :=
  out3 (show_o (fun a => show_addr_checked a +++ ";1") (make_addr p h))
       (if Nat.eqb (length h) 20 then "OK:" +++ spec_show_addr p h +++ ";1" else "ERR") "-".

Definition run_addr_locking (p : byte) (h : bytes) : string :=
  out3 (show_script (do a <- make_addr p h; addr_locking_script a))
       (if Nat.eqb (length h) 20 then "OK:" +++ hex_of_bytes (p2pkh_bytes h) else "ERR") "-".

Definition run_addr_unlocking (p : byte) (h bs der : bytes) (fl : byte) : string :=
  if negb (sig_ok der fl) then out3 "ERR" "ERR" "-" else
  let sg := der ++ [fl] in
  out3 (show_script (do a <- make_addr p h;
                     do pk <- pub_from_bytes curve_fast bs;
                     addr_unlocking_script a pk sg))
       (if negb (Nat.eqb (length h) 20) then "ERR"
        else match sec1_decode_fast bs with
             | Some _ => if bytes_eqb (hash160_ref bs) h then "OK:" +++ hex_of_bytes (push_bytes sg ++ push_bytes bs) else "ERR"
             | None => "ERR" end) "-".

(* ------------------------------------------------------------------ *)
Definition arg_flag (s : string) : option bool :=
  match s with "0" => Some false | "1" => Some true | _ => None end.
Definition arg_byte (s : string) : option byte :=
  match bytes_of_hex s with Some [b] => Some b | _ => None end.

Definition run (op : string) (args : list string) : string :=
  match op, args with
  | "key.from_wif", [t] => match expand t with Some b => run_from_wif b | None => "BADARG" end
  | "key.to_wif", [k; c] =>
      match expand k, arg_flag c with Some kb, Some cb => run_to_wif kb cb | _, _ => "BADARG" end
  | "key.from_hex", [t] => match expand t with Some b => run_from_hex b | None => "BADARG" end
  | "key.from_bytes", [k] => match expand k with Some b => run_from_bytes b | None => "BADARG" end
  | "key.to_pub", [k; c] =>
      match expand k, arg_flag c with Some kb, Some cb => run_to_pub kb cb | _, _ => "BADARG" end
  | "key.random", [] => run_key_random
  | "key.address", [k; c; p] =>
      match expand k, arg_flag c, arg_byte p with
      | Some kb, Some cb, Some pb => run_key_address kb cb pb | _, _, _ => "BADARG" end
  | "pub.parse", [b] => match expand b with Some bs => run_pub_parse bs | None => "BADARG" end
  | "pub.from_hex", [t] => match expand t with Some b => run_pub_from_hex b | None => "BADARG" end
  | "pub.compress", [b] => match expand b with Some bs => run_pub_recode true bs | None => "BADARG" end
  | "pub.decompress", [b] => match expand b with Some bs => run_pub_recode false bs | None => "BADARG" end
  | "pub.address", [b] => match expand b with Some bs => run_pub_address bs | None => "BADARG" end
  | "pub.unlock_own", [b; p; d; f] =>
      match expand b, arg_byte p, expand d, arg_byte f with
      | Some bs, Some pb, Some der, Some fl => run_unlock_own bs pb der fl | _, _, _, _ => "BADARG" end
  | "addr.from_string", [t] => match expand t with Some b => run_addr_from_string b | None => "BADARG" end
  | "addr.to_string", [p; h] =>
      match arg_byte p, expand h with Some pb, Some hb => run_addr_to_string pb hb | _, _ => "BADARG" end
  | "addr.from_hash", [h] => match expand h with Some hb => run_addr_from_hash hb | None => "BADARG" end
  | "addr.set_chain", [t; p] =>
      match expand t, arg_byte p with Some tb, Some pb => run_addr_set_chain tb pb | _, _ => "BADARG" end
  | "addr.chain_named", [h; name] =>
      match expand h, chain_byte name with Some hb, Some pb => run_chain_named hb pb | _, _ => "BADARG" end
  | "addr.locking", [p; h] =>
      match arg_byte p, expand h with Some pb, Some hb => run_addr_locking pb hb | _, _ => "BADARG" end
  | "addr.unlocking", [p; h; b; d; f] =>
      match arg_byte p, expand h, expand b, expand d, arg_byte f with
      | Some pb, Some hb, Some bs, Some der, Some fl => run_addr_unlocking pb hb bs der fl
      | _, _, _, _, _ => "BADARG" end
  | _, _ => "BADOP"
  end.
