(* Run/Exec_C07.v — executable entry point of the C07 correspondence check.
   run op args = "<implementation model output>|<specification output>|-"

   <impl> is Model/Keys.v on the execution curve instance (BigZ).  <spec> is what property C07 prescribes,
   computed from the Prim references only (Base58Check of Prim/Base58.v over Prim/Sha256.v, SEC1 and
   scalar multiplication of Prim/Secp256k1.v, RIPEMD-160 of Prim/Ripemd160.v).  Where the property does not
   fix the value (version byte of a WIF other than 80) the column still says "an error or a value, never a
   panic" (alternatives ERR or OK with wildcard fields).

   ops (text = hex of the UTF-8 bytes, flag/compressed = 0|1, prefix = one byte in hex):
     key.from_wif text                    -> key (to_bytes);compressed;key (to_hex)
     key.to_wif key compressed            -> wif;reparsed key;reparsed flag;reparsed to_hex
     key.from_hex text / key.from_bytes b -> key;compressed;to_hex
     key.to_pub key compressed            -> to_public_key (bytes;flag;to_hex);get_point;from_private_key (bytes;flag;to_hex)
     key.random                           -> from_random behaves: distinct;valid;compressed;WIF round trip
     key.address key compressed prefix    -> pubkey;hash160;address string;locking script
     pub.parse b / pub.from_hex text      -> bytes;is_compressed;to_hex
     pub.compress b / pub.decompress b    -> bytes;is_compressed;to_hex
     pub.address b                        -> prefix;hash;string;hash hex;from_pubkey = to_p2pkh_address
     pub.unlock_own b prefix der flag     -> unlocking script of the key's own address under that prefix
     addr.from_string text                -> prefix;hash;string;hash hex
     addr.to_string prefix hash           -> string
     addr.from_hash hash                  -> prefix;hash;string;hash hex
     addr.set_chain text prefix           -> prefix;hash;string;hash hex
     addr.chain_named hash name           -> set_chain_params(ChainParams::name()): prefix;hash;string;hash hex;same as _impl
     key.history key steps                -> observations along a call history on one PrivateKey object
     pub.history b steps                  -> ... on one PublicKey object
     addr.history mode start steps        -> ... on one P2PKHAddress object (mode s: from_string, h: from_pubkey_hash)
     addr.locking prefix hash             -> script bytes
     addr.unlocking prefix hash pub der flag -> script bytes *)
From BSV Require Import Base.Hex.
From BSV Require Import Prim.Num Prim.Secp256k1 Prim.Base58 Prim.Sha256 Prim.Ripemd160 Prim.Der.
From BSV Require Import Model.HashApi Model.Opcodes Model.Script Model.Asm Model.Keys.

Definition out3 (impl spec known : string) : string := impl +++ "|" +++ spec +++ "|" +++ known.
Definition flag (b : bool) : string := if b then "1" else "0".
Definition text_of (bs : bytes) : string := string_of_bytes bs.

Definition sha256d_ref (m : bytes) : bytes := sha256 (sha256 m).
Definition hash160_ref (m : bytes) : bytes := ripemd160 (sha256 m).

Definition show_o {A} (f : A -> string) (r : outcome A) : string :=
  match r with Ok a => "OK:" +++ f a | Err => "ERR" | Panic => "PANIC" end.

(* PrivateKey::to_bytes ; flag ; PrivateKey::to_hex *)
Definition show_key (k : privkey) : string :=
  hex_of_bytes (priv_to_bytes k) +++ ";" +++ flag (sk_compressed k) +++ ";" +++ priv_to_hex k.
(* PublicKey::to_bytes ; is_compressed ; to_hex *)
Definition show_pub (pk : pubkey_t) : string :=
  hex_of_bytes (pk_point pk) +++ ";" +++ flag (pk_compressed pk) +++ ";" +++ hex_of_bytes (pk_point pk).

(* the driver finds the prefix by comparing the whole address (prefix, hash AND stored checksum) with
   from_pubkey_hash(hash).set_chain_params(p) for p = 0..255; the model reports the prefix when the stored
   checksum is the one that construction gives, "xx" otherwise.  Fields: prefix;to_pubkey_hash;to_string;to_pubkey_hash_hex *)
Definition show_addr_checked (a : address) : string :=
  (if bytes_eqb (a_checksum a) (checksum4 (a_prefix a :: a_hash a)) then hex_of_bytes [a_prefix a] else "xx")
  +++ ";" +++ hex_of_bytes (a_hash a) +++ ";" +++ addr_to_string a +++ ";" +++ hex_of_bytes (a_hash a).

(* ------------------------------------------------------------------ *)
(* specification side *)
Definition spec_key_of_bytes (bs : bytes) : option Z :=
  if Nat.eqb (length bs) 32 then (let v := be_Z bs in if in_scalar v then Some v else None) else None.

Definition spec_show_key (kb : bytes) (c : bool) : string :=
  hex_of_bytes kb +++ ";" +++ flag c +++ ";" +++ hex_of_bytes kb.
Definition spec_show_pub (enc : bytes) (c : bool) : string :=
  hex_of_bytes enc +++ ";" +++ flag c +++ ";" +++ hex_of_bytes enc.
Definition spec_addr_string (p : byte) (h : bytes) : string := b58check_encode sha256d_ref (p :: h).
Definition spec_show_addr (p : byte) (h : bytes) : string :=
  hex_of_bytes [p] +++ ";" +++ hex_of_bytes h +++ ";" +++ spec_addr_string p h +++ ";" +++ hex_of_bytes h.

(* Base58Check payload -> (key, compressed); None = must be rejected *)
Definition spec_wif_payload (payload : bytes) : option (bytes * bool) :=
  match payload with
  | _ :: rest =>
      if Nat.eqb (length rest) 32 then Some (rest, false)
      else if Nat.eqb (length rest) 33 && byte_eqb (last rest x00) x01 then Some (firstn 32 rest, true)
      else None
  | [] => None
  end.

Definition spec_from_wif (s : string) : string :=
  match b58check_decode sha256d_ref s with
  | None => "ERR"
  | Some payload =>
      match spec_wif_payload payload with
      | None => "ERR"
      | Some (kb, c) =>
          match spec_key_of_bytes kb with
          | None => "ERR"
          | Some _ =>
              (* the property speaks about mainnet WIF (version 80); for other version bytes it only excludes a panic *)
              if byte_eqb (hd x00 payload) x80 then "OK:" +++ spec_show_key kb c else "ERR~*;*;*"
          end
      end
  end.

Definition spec_from_string (s : string) : string :=
  match b58check_decode sha256d_ref s with
  | Some (p :: h) =>
      if Nat.eqb (length h) 20
      then "OK:" +++ hex_of_bytes [p] +++ ";" +++ hex_of_bytes h +++ ";" +++ s +++ ";" +++ hex_of_bytes h else "ERR"
  | _ => "ERR"
  end.

Definition p2pkh_bytes (h : bytes) : bytes := [x76; xa9; x14] ++ h ++ [x88; xac].
Definition push_bytes (d : bytes) : bytes := n2b (N.of_nat (length d)) :: d.

(* ------------------------------------------------------------------ *)
Definition run_from_wif (t : bytes) : string :=
  let s := text_of t in out3 (show_o show_key (from_wif s)) (spec_from_wif s) "-".

Definition run_to_wif (kb : bytes) (c : bool) : string :=
  let impl :=
    match priv_from_bytes kb with
    | Ok k0 => let k := compress_public_key k0 c in
               let w := to_wif k in
               "OK:" +++ w +++ ";" +++ match from_wif w with Ok k' => show_key k' | Err => "ERR" | Panic => "PANIC" end
    | Err => "ERR" | Panic => "PANIC"
    end in
  let spec :=
    match spec_key_of_bytes kb with
    | Some _ => "OK:" +++ b58check_encode sha256d_ref (x80 :: kb ++ (if c then [x01] else [])) +++ ";" +++ spec_show_key kb c
    | None => "ERR"
    end in
  out3 impl spec "-".

Definition spec_key (kb : bytes) : string :=
  match spec_key_of_bytes kb with Some _ => "OK:" +++ spec_show_key kb true | None => "ERR" end.

Definition run_from_hex (t : bytes) : string :=
  let s := text_of t in
  out3 (show_o show_key (priv_from_hex s))
       (match bytes_of_hex s with Some kb => spec_key kb | None => "ERR" end) "-".

Definition run_from_bytes (kb : bytes) : string :=
  out3 (show_o show_key (priv_from_bytes kb)) (spec_key kb) "-".

(* from_random: the driver reports four behavioural facts *)
Definition run_key_random : string := out3 "OK:1;1;1;1" "OK:1;1;1;1" "-".

(* one scalar multiplication per case, shared by both sides *)
Definition curve_memo (P : point) : curve_impl :=
  {| ci_pubkey := fun _ => P; ci_decode := sec1_decode_fast; ci_lift := lift_x_fast |}.

Definition run_to_pub (kb : bytes) (c : bool) : string :=
  match priv_from_bytes kb with
  | Ok k0 =>
      let P := pubkey_fast (sk_scalar k0) in
      let k := compress_public_key k0 c in
      let enc := sec1_encode c P in
      out3 (match to_public_key (curve_memo P) k with
            | Ok pk => "OK:" +++ show_pub pk
                       +++ ";" +++ hex_of_bytes (pk_point (pub_from_private (curve_memo P) k))       (* get_point *)
                       +++ ";" +++ show_pub (pub_from_private (curve_memo P) k)                       (* from_private_key *)
            | Err => "ERR" | Panic => "PANIC" end)
           ("OK:" +++ spec_show_pub enc c +++ ";" +++ hex_of_bytes enc +++ ";" +++ spec_show_pub enc c) "-"
  | Err => out3 "ERR" "ERR" "-"
  | Panic => out3 "PANIC" "ERR" "-"
  end.

Definition run_key_address (kb : bytes) (c : bool) (p : byte) : string :=
  match priv_from_bytes kb with
  | Ok k0 =>
      let P := pubkey_fast (sk_scalar k0) in
      let impl :=
        show_o (fun x => x)
          (do pk <- to_public_key (curve_memo P) (compress_public_key k0 c);
           do a <- pub_to_address pk;
           do a' <- addr_set_chain a p;
           do ls <- addr_locking_script a';
           Ok (hex_of_bytes (pk_point pk) +++ ";" +++ hex_of_bytes (a_hash a') +++ ";" +++ addr_to_string a'
               +++ ";" +++ hex_of_bytes (to_bytes ls))) in
      let enc := sec1_encode c P in
      let h := hash160_ref enc in
      out3 impl ("OK:" +++ hex_of_bytes enc +++ ";" +++ hex_of_bytes h +++ ";" +++ spec_addr_string p h
                 +++ ";" +++ hex_of_bytes (p2pkh_bytes h)) "-"
  | Err => out3 "ERR" "ERR" "-"
  | Panic => out3 "PANIC" "ERR" "-"
  end.

Definition spec_pub_parse (bs : bytes) : string :=
  match sec1_decode_fast bs with
  | Some _ => "OK:" +++ spec_show_pub bs (Nat.eqb (length bs) 33)
  | None => "ERR" end.

Definition run_pub_parse (bs : bytes) : string :=
  out3 (show_o show_pub (pub_from_bytes curve_fast bs)) (spec_pub_parse bs) "-".

Definition run_pub_from_hex (t : bytes) : string :=
  let s := text_of t in
  out3 (show_o show_pub (pub_from_hex curve_fast s))
       (match bytes_of_hex s with Some bs => spec_pub_parse bs | None => "ERR" end) "-".

Definition run_pub_recode (compress : bool) (bs : bytes) : string :=
  out3 (show_o show_pub (do pk <- pub_from_bytes curve_fast bs;
                         if compress then pub_to_compressed pk else pub_to_decompressed curve_fast pk))
       (match sec1_decode_fast bs with
        | Some P => "OK:" +++ spec_show_pub (sec1_encode compress P) compress
        | None => "ERR" end) "-".

(* P2PKHAddress::from_pubkey and PublicKey::to_p2pkh_address are the same function: last field 1 *)
Definition run_pub_address (bs : bytes) : string :=
  out3 (show_o (fun a => show_addr_checked a +++ ";" +++
                         match addr_from_pubkey {| pk_point := bs; pk_compressed := false |} with
                         | Ok b => flag (bytes_eqb (a_hash a) (a_hash b) && bytes_eqb (a_checksum a) (a_checksum b)
                                         && byte_eqb (a_prefix a) (a_prefix b))
                         | _ => "E" end)
               (do pk <- pub_from_bytes curve_fast bs; pub_to_address pk))
       (match sec1_decode_fast bs with
        | Some _ => "OK:" +++ spec_show_addr x00 (hash160_ref bs) +++ ";1"
        | None => "ERR" end) "-".

Definition sig_ok (der : bytes) (fl : byte) : bool :=
  match der_decode der with Some _ => sighash_of_u8 (b2n fl) | None => false end.

Definition show_script (r : outcome (list bit)) : string := show_o (fun s => hex_of_bytes (to_bytes s)) r.

Definition run_unlock_own (bs : bytes) (p : byte) (der : bytes) (fl : byte) : string :=
  if negb (sig_ok der fl) then out3 "ERR" "ERR" "-" else
  let sg := der ++ [fl] in
  out3 (show_script (do pk <- pub_from_bytes curve_fast bs;
                     do a <- pub_to_address pk;
                     do a' <- addr_set_chain a p;
                     addr_unlocking_script a' pk sg))
       (match sec1_decode_fast bs with
        | Some _ => "OK:" +++ hex_of_bytes (push_bytes sg ++ push_bytes bs)
        | None => "ERR" end) "-".

Definition run_addr_from_string (t : bytes) : string :=
  let s := text_of t in out3 (show_o show_addr_checked (addr_from_string s)) (spec_from_string s) "-".

Definition make_addr (p : byte) (h : bytes) : outcome address :=
  do a <- addr_from_pubkey_hash h; addr_set_chain a p.

Definition run_addr_to_string (p : byte) (h : bytes) : string :=
  out3 (show_o addr_to_string (make_addr p h))
       (if Nat.eqb (length h) 20 then "OK:" +++ spec_addr_string p h else "ERR") "-".

Definition run_addr_from_hash (h : bytes) : string :=
  out3 (show_o show_addr_checked (addr_from_pubkey_hash h))
       (if Nat.eqb (length h) 20 then "OK:" +++ spec_show_addr x00 h else "ERR") "-".

Definition run_addr_set_chain (t : bytes) (p : byte) : string :=
  let s := text_of t in
  out3 (show_o show_addr_checked (do a <- addr_from_string s; addr_set_chain a p))
       (match b58check_decode sha256d_ref s with
        | Some (_ :: h) => if Nat.eqb (length h) 20 then "OK:" +++ spec_show_addr p h else "ERR"
        | _ => "ERR" end) "-".

(* ChainParams::mainnet / default: p2pkh = 00; testnet, regtest, stn: 6f.  set_chain_params and the public
   set_chain_params_impl are the same function: last field 1 *)
Definition chain_byte (name : string) : option byte :=
  match name with
  | "mainnet" => Some x00 | "default" => Some x00
  | "testnet" => Some x6f | "regtest" => Some x6f | "stn" => Some x6f
  | _ => None
  end.
Definition run_chain_named (h : bytes) (p : byte) : string :=
  out3 (show_o (fun a => show_addr_checked a +++ ";1") (make_addr p h))
       (if Nat.eqb (length h) 20 then "OK:" +++ spec_show_addr p h +++ ";1" else "ERR") "-".

Definition run_addr_locking (p : byte) (h : bytes) : string :=
  out3 (show_script (do a <- make_addr p h; addr_locking_script a))
       (if Nat.eqb (length h) 20 then "OK:" +++ hex_of_bytes (p2pkh_bytes h) else "ERR") "-".

Definition run_addr_unlocking (p : byte) (h bs der : bytes) (fl : byte) : string :=
  if negb (sig_ok der fl) then out3 "ERR" "ERR" "-" else
  let sg := der ++ [fl] in
  out3 (show_script (do a <- make_addr p h;
                     do pk <- pub_from_bytes curve_fast bs;
                     addr_unlocking_script a pk sg))
       (if negb (Nat.eqb (length h) 20) then "ERR"
        else match sec1_decode_fast bs with
             | Some _ => if bytes_eqb (hash160_ref bs) h then "OK:" +++ hex_of_bytes (push_bytes sg ++ push_bytes bs) else "ERR"
             | None => "ERR" end) "-".

(* ------------------------------------------------------------------ *)
(* Call histories on ONE object.  The model functions take values, so every observation is a function of the
   current field values; the specification column is computed from the tracked field values alone (compression
   flag; encoding form; prefix byte), with the Prim references. *)
Definition sjoin (l : list string) : string := join ";" l.
Definition o2s (r : outcome string) : string := match r with Ok s => s | Err => "E" | Panic => "P" end.
Fixpoint all_in (allowed s : string) : bool :=
  match s with
  | EmptyString => true
  | String c r => (match index_of c allowed 0%N with Some _ => true | None => false end) && all_in allowed r
  end.

(* PrivateKey: c/u compress_public_key(true/false), l clone, W re-import own WIF;
   p to_public_key, w to_wif, g get_point, f from_private_key, a address string, k locking script, h to_hex *)
Fixpoint key_hist (P : point) (k : privkey) (steps : string) : outcome (list string) :=
  match steps with
  | EmptyString => Ok []
  | String ch r =>
      let C := curve_memo P in
      let pub_s (pk : pubkey_t) := hex_of_bytes (pk_point pk) +++ "," +++ flag (pk_compressed pk) in
      let addr := do pk <- to_public_key C k; pub_to_address pk in
      let obs (s : string) := do rest <- key_hist P k r; Ok (s :: rest) in
      match ch with
      | "c"%char => key_hist P (compress_public_key k true) r
      | "u"%char => key_hist P (compress_public_key k false) r
      | "l"%char => key_hist P k r
      | "W"%char => do k' <- from_wif (to_wif k); key_hist P k' r
      | "p"%char => obs (o2s (omap pub_s (to_public_key C k)))
      | "w"%char => obs (to_wif k)
      | "g"%char => obs (hex_of_bytes (pk_point (pub_from_private C k)))
      | "f"%char => obs (pub_s (pub_from_private C k))
      | "a"%char => obs (o2s (omap addr_to_string addr))
      | "k"%char => obs (o2s (do a <- addr; omap (fun s => hex_of_bytes (to_bytes s)) (addr_locking_script a)))
      | _ => obs (priv_to_hex k)
      end
  end.

Fixpoint key_hist_spec (P : point) (kb : bytes) (c : bool) (steps : string) : list string :=
  match steps with
  | EmptyString => []
  | String ch r =>
      let enc := sec1_encode c P in
      let h := hash160_ref enc in
      match ch with
      | "c"%char => key_hist_spec P kb true r
      | "u"%char => key_hist_spec P kb false r
      | "l"%char => key_hist_spec P kb c r
      | "W"%char => key_hist_spec P kb c r
      | "p"%char => (hex_of_bytes enc +++ "," +++ flag c) :: key_hist_spec P kb c r
      | "w"%char => b58check_encode sha256d_ref (x80 :: kb ++ (if c then [x01] else [])) :: key_hist_spec P kb c r
      | "g"%char => hex_of_bytes enc :: key_hist_spec P kb c r
      | "f"%char => (hex_of_bytes enc +++ "," +++ flag c) :: key_hist_spec P kb c r
      | "a"%char => spec_addr_string x00 h :: key_hist_spec P kb c r
      | "k"%char => hex_of_bytes (p2pkh_bytes h) :: key_hist_spec P kb c r
      | _ => hex_of_bytes kb :: key_hist_spec P kb c r
      end
  end.

Definition run_key_history (kb : bytes) (steps : string) : string :=
  if negb (all_in "culWpwgfakh" steps) then "BADARG" else
  match priv_from_bytes kb with
  | Ok k0 =>
      let P := pubkey_fast (sk_scalar k0) in
      out3 (show_o sjoin (key_hist P k0 steps)) ("OK:" +++ sjoin (key_hist_spec P kb true steps)) "-"
  | Err => out3 "ERR" "ERR" "-"
  | Panic => out3 "PANIC" "ERR" "-"
  end.

(* PublicKey: c to_compressed, d to_decompressed, l clone; b to_bytes+flag, x to_hex, a address string, h HASH160 *)
Fixpoint pub_hist (q : pubkey_t) (steps : string) : outcome (list string) :=
  match steps with
  | EmptyString => Ok []
  | String ch r =>
      let obs (s : string) := do rest <- pub_hist q r; Ok (s :: rest) in
      match ch with
      | "c"%char => do q' <- pub_to_compressed q; pub_hist q' r
      | "d"%char => do q' <- pub_to_decompressed curve_fast q; pub_hist q' r
      | "l"%char => pub_hist q r
      | "b"%char => obs (hex_of_bytes (pk_point q) +++ "," +++ flag (pk_compressed q))
      | "x"%char => obs (hex_of_bytes (pk_point q))
      | "a"%char => obs (o2s (omap addr_to_string (pub_to_address q)))
      | _ => obs (o2s (omap (fun a => hex_of_bytes (a_hash a)) (pub_to_address q)))
      end
  end.

Fixpoint pub_hist_spec (P : point) (c : bool) (steps : string) : list string :=
  match steps with
  | EmptyString => []
  | String ch r =>
      let enc := sec1_encode c P in
      match ch with
      | "c"%char => pub_hist_spec P true r
      | "d"%char => pub_hist_spec P false r
      | "l"%char => pub_hist_spec P c r
      | "b"%char => (hex_of_bytes enc +++ "," +++ flag c) :: pub_hist_spec P c r
      | "x"%char => hex_of_bytes enc :: pub_hist_spec P c r
      | "a"%char => spec_addr_string x00 (hash160_ref enc) :: pub_hist_spec P c r
      | _ => hex_of_bytes (hash160_ref enc) :: pub_hist_spec P c r
      end
  end.

Definition run_pub_history (bs : bytes) (steps : string) : string :=
  if negb (all_in "cdlbxah" steps) then "BADARG" else
  out3 (show_o sjoin (do q <- pub_from_bytes curve_fast bs; pub_hist q steps))
       (match sec1_decode_fast bs with
        | Some P => "OK:" +++ sjoin (pub_hist_spec P (Nat.eqb (length bs) 33) steps)
        | None => "ERR" end) "-".

(* P2PKHAddress: sXX set_chain_params(prefix), m/t/r/n named chains, l clone, f re-parse own string;
   o prefix,to_string; k locking script; h hash hex *)
Definition addr_tok_prefix (t : string) : option (option byte) :=      (* Some (Some p): re-prefix; Some None: other token *)
  match t with
  | "m" => Some (Some x00) | "t" => Some (Some x6f) | "r" => Some (Some x6f) | "n" => Some (Some x6f)
  | "l" => Some None | "f" => Some None | "o" => Some None | "k" => Some None | "h" => Some None
  | String "s" hh => match bytes_of_hex hh with Some [b] => Some (Some b) | _ => None end
  | _ => None
  end.

Fixpoint addr_hist (a : address) (toks : list string) : outcome (list string) :=
  match toks with
  | [] => Ok []
  | t :: r =>
      let obs (s : string) := do rest <- addr_hist a r; Ok (s :: rest) in
      match addr_tok_prefix t with
      | Some (Some p) => do a' <- addr_set_chain a p; addr_hist a' r
      | _ =>
          match t with
          | "f" => do a' <- addr_from_string (addr_to_string a); addr_hist a' r
          | "o" => obs ((if bytes_eqb (a_checksum a) (checksum4 (a_prefix a :: a_hash a)) then hex_of_bytes [a_prefix a] else "xx")
                        +++ "," +++ addr_to_string a)
          | "k" => obs (o2s (omap (fun s => hex_of_bytes (to_bytes s)) (addr_locking_script a)))
          | "h" => obs (hex_of_bytes (a_hash a))
          | _ => addr_hist a r
          end
      end
  end.

Fixpoint addr_hist_spec (p : byte) (h : bytes) (toks : list string) : list string :=
  match toks with
  | [] => []
  | t :: r =>
      match addr_tok_prefix t with
      | Some (Some p') => addr_hist_spec p' h r
      | _ =>
          match t with
          | "o" => (hex_of_bytes [p] +++ "," +++ spec_addr_string p h) :: addr_hist_spec p h r
          | "k" => hex_of_bytes (p2pkh_bytes h) :: addr_hist_spec p h r
          | "h" => hex_of_bytes h :: addr_hist_spec p h r
          | _ => addr_hist_spec p h r
          end
      end
  end.

Definition run_addr_history (mode : string) (start : bytes) (steps : string) : string :=
  let toks := match steps with EmptyString => [] | _ => split "." steps end in
  if negb (forallb (fun t => match addr_tok_prefix t with Some _ => true | None => false end) toks) then "BADARG" else
  match mode with
  | "s" =>
      let s := text_of start in
      out3 (show_o sjoin (do a <- addr_from_string s; addr_hist a toks))
           (match b58check_decode sha256d_ref s with
            | Some (p :: h) => if Nat.eqb (length h) 20 then "OK:" +++ sjoin (addr_hist_spec p h toks) else "ERR"
            | _ => "ERR" end) "-"
  | "h" =>
      out3 (show_o sjoin (do a <- addr_from_pubkey_hash start; addr_hist a toks))
           (if Nat.eqb (length start) 20 then "OK:" +++ sjoin (addr_hist_spec x00 start toks) else "ERR") "-"
  | _ => "BADARG"
  end.

(* ------------------------------------------------------------------ *)
Definition arg_flag (s : string) : option bool :=
  match s with "0" => Some false | "1" => Some true | _ => None end.
Definition arg_byte (s : string) : option byte :=
  match bytes_of_hex s with Some [b] => Some b | _ => None end.

Definition run (op : string) (args : list string) : string :=
  match op, args with
  | "key.from_wif", [t] => match expand t with Some b => run_from_wif b | None => "BADARG" end
  | "key.to_wif", [k; c] =>
      match expand k, arg_flag c with Some kb, Some cb => run_to_wif kb cb | _, _ => "BADARG" end
  | "key.from_hex", [t] => match expand t with Some b => run_from_hex b | None => "BADARG" end
  | "key.from_bytes", [k] => match expand k with Some b => run_from_bytes b | None => "BADARG" end
  | "key.to_pub", [k; c] =>
      match expand k, arg_flag c with Some kb, Some cb => run_to_pub kb cb | _, _ => "BADARG" end
  | "key.random", [] => run_key_random
  | "key.address", [k; c; p] =>
      match expand k, arg_flag c, arg_byte p with
      | Some kb, Some cb, Some pb => run_key_address kb cb pb | _, _, _ => "BADARG" end
  | "pub.parse", [b] => match expand b with Some bs => run_pub_parse bs | None => "BADARG" end
  | "pub.from_hex", [t] => match expand t with Some b => run_pub_from_hex b | None => "BADARG" end
  | "pub.compress", [b] => match expand b with Some bs => run_pub_recode true bs | None => "BADARG" end
  | "pub.decompress", [b] => match expand b with Some bs => run_pub_recode false bs | None => "BADARG" end
  | "pub.address", [b] => match expand b with Some bs => run_pub_address bs | None => "BADARG" end
  | "pub.unlock_own", [b; p; d; f] =>
      match expand b, arg_byte p, expand d, arg_byte f with
      | Some bs, Some pb, Some der, Some fl => run_unlock_own bs pb der fl | _, _, _, _ => "BADARG" end
  | "addr.from_string", [t] => match expand t with Some b => run_addr_from_string b | None => "BADARG" end
  | "addr.to_string", [p; h] =>
      match arg_byte p, expand h with Some pb, Some hb => run_addr_to_string pb hb | _, _ => "BADARG" end
  | "addr.from_hash", [h] => match expand h with Some hb => run_addr_from_hash hb | None => "BADARG" end
  | "addr.set_chain", [t; p] =>
      match expand t, arg_byte p with Some tb, Some pb => run_addr_set_chain tb pb | _, _ => "BADARG" end
  | "addr.chain_named", [h; name] =>
      match expand h, chain_byte name with Some hb, Some pb => run_chain_named hb pb | _, _ => "BADARG" end
  | "key.history", [k; st] => match expand k with Some kb => run_key_history kb st | None => "BADARG" end
  | "pub.history", [b; st] => match expand b with Some bs => run_pub_history bs st | None => "BADARG" end
  | "addr.history", [mode; start; st] =>
      match expand start with Some sb => run_addr_history mode sb st | None => "BADARG" end
  | "addr.locking", [p; h] =>
      match arg_byte p, expand h with Some pb, Some hb => run_addr_locking pb hb | _, _ => "BADARG" end
  | "addr.unlocking", [p; h; b; d; f] =>
      match arg_byte p, expand h, expand b, expand d, arg_byte f with
      | Some pb, Some hb, Some bs, Some der, Some fl => run_addr_unlocking pb hb bs der fl
      | _, _, _, _, _ => "BADARG" end
  | _, _ => "BADOP"
  end.
