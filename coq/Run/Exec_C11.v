(* Run/Exec_C11.v — executable entry point of the C11 correspondence check (ECIES / BIE1).
   run op args = "<implementation model output>|<specification output>|<known-finding class or ->"
     implementation model = Model/Ecies.v, instance [ecies_std ec_fast];
     specification        = Spec/Bie1.v on the same curve instance and the Prim/ primitives.
   Keys: a private key is 32 bytes (+ "0"/"1" compression flag where the API looks at it), a public key
   is SEC1 bytes (33 or 65).  Invalid key arguments make the driver's constructors fail: both sides say ERR.

     ecies.encrypt  a comp bpub msg excl     -> OK:<serialised>;<iv>;<ke>;<km>   (sender key with compress_public_key(comp);
                                                the flag must not change anything: the embedded key is always compressed)
     ecies.encrypt_wif wif bpub msg excl     -> the same with the sender key read by PrivateKey::from_wif (Model/Keys.v)
     ecies.decrypt  b apub ser haspk         -> OK:<message>          (from_bytes, then decrypt)
     ecies.parse    ser haspk                -> OK:<to_bytes>;<pub|->;<body>;<mac>;<extract_public_key: pub|ERR>;<get_cipher_keys: none>
     ecies.mem      a bpub b apub b2 a2pub msg excl
                                             -> <r1>,<r2>,<r3>: encrypt(msg, a, bpub), then ON THE RETURNED OBJECT (no serialisation)
                                                decrypt with (b, apub), (b2, apub), (b, a2pub); then the same three through
                                                PrivateKey::decrypt_message: <r4>,<r5>,<r6>
     ecies.key_history d msg                 -> OK:<pub>;<pub after compress_public_key(false)>;<pub after (true) again>;<serialised>;<message>
     ecies.sweep    a b excl seed start step count
                                             -> OK:<wire length>.<checksum of the serialised bytes>.<1 iff parse+decrypt returns the message>,...
                                                for the message lengths start, start+step, ... (one ECDH per direction for the whole case)
     ecies.flip     b apub ser haspk bit     -> <decrypt of ser>,<decrypt of ser with that bit flipped>
     ecies.self     d comp msg               -> OK:<serialised>;<message via the object>;<message via bytes>   (PrivateKey::encrypt_message / decrypt_message)
     ecies.pub      a b bcomp msg            -> the same for PublicKey(b)::encrypt_message(msg, a) and PrivateKey(b)::decrypt_message
     ecies.keys     d pub                    -> OK:<iv>;<ke>;<km>           (ECIES::derive_cipher_keys)
     ecies.ephemeral b msg                   -> OK:<message>;<1 iff two calls embed different sender keys>
                                                (random sender key: behavioural round trip through bytes; the model runs one fixed
                                                 ephemeral scalar, any valid one gives the same output by C11_decrypt_with_extracted_key) *)
From BSV Require Import Base.Hex Prim.Secp256k1 Prim.Sha256 Model.EcIface Model.HashApi Model.AesApi Model.Keys Model.Ecies Spec.Bie1.
Local Open Scope Z_scope.

Definition E := ec_fast.
Definition O := ecies_std E.
Definition out3 (impl spec known : string) : string := impl +++ "|" +++ spec +++ "|" +++ known.

Definition show_o {A} (f : A -> string) (r : outcome A) : string :=
  match r with Ok a => f a | Err => "ERR" | Panic => "PANIC" end.
Definition show_msg (m : bytes) : string := "OK:" +++ show_bytes m.
Definition show_opt (r : option bytes) : string := match r with Some m => show_msg m | None => "ERR" end.

Definition arg_bool (s : string) : option bool :=
  match s with "0" => Some false | "1" => Some true | _ => None end.

Inductive karg (A : Type) := KBad | KInvalid | KGood (a : A).
Arguments KBad {A}. Arguments KInvalid {A}. Arguments KGood {A} a.

(* PrivateKey::from_bytes *)
Definition arg_priv (s : string) : karg Z :=
  match expand s with
  | Some kb => match secret_of_bytes kb with Ok d => KGood d | _ => KInvalid end
  | None => KBad
  end.
(* PublicKey::from_bytes: the bytes and the point *)
Definition arg_pub (s : string) : karg (bytes * ec_pt E) :=
  match expand s with
  | Some pb => match ec_dec E pb with Some P => KGood (pb, P) | None => KInvalid end
  | None => KBad
  end.

Definition show_keys (k : cipher_keys) : string :=
  hex_of_bytes (ck_iv k) +++ ";" +++ hex_of_bytes (ck_ke k) +++ ";" +++ hex_of_bytes (ck_km k).

Definition impl_encrypt (a : Z) (bpub msg : bytes) (excl : bool) : string :=
  match derive_cipher_keys O a bpub with
  | Ok k => show_o (fun c => "OK:" +++ show_bytes (to_bytes c) +++ ";" +++ show_keys k) (encrypt_with O k msg a excl)
  | Err => "ERR" | Panic => "PANIC"
  end.

Definition spec_encrypt (a : Z) (B : ec_pt E) (msg : bytes) (excl : bool) : string :=
  match bie1_encrypt E a B (negb excl) msg with
  | Some s => let '(iv, ke, km) := key_schedule E (ec_smul E a B) in
              "OK:" +++ show_bytes s +++ ";" +++ hex_of_bytes iv +++ ";" +++ hex_of_bytes ke +++ ";" +++ hex_of_bytes km
  | None => "ERR"
  end.

Definition show_parse (c : ciphertext) : string :=
  "OK:" +++ show_bytes (to_bytes c) +++ ";" +++ match ct_pub c with Some p => hex_of_bytes p | None => "-" end +++ ";"
  +++ show_bytes (ct_body c) +++ ";" +++ hex_of_bytes (ct_mac c) +++ ";"
  +++ match extract_public_key O c with Ok p => hex_of_bytes p | _ => "ERR" end +++ ";none".

Definition flip_bit (bs : bytes) (i : N) : bytes :=
  let k := N.to_nat (i / 8) in
  match nth_error bs k with
  | Some b => firstn k bs ++ [n2b (N.lxor (b2n b) (2 ^ (7 - i mod 8)))] ++ skipn (S k) bs
  | None => bs
  end.

Definition dec_ser (k : cipher_keys) (ser : bytes) (haspk : bool) : outcome bytes :=
  do c <- from_bytes O ser haspk; decrypt_with O k c.

(* an ephemeral scalar for the behavioural op (any valid scalar gives the same output, by C11_decrypt_encrypt) *)
Definition eph_scalar (msg : bytes) : Z := 1 + (be_Z (sha256 msg)) mod (secp_n - 1).

Definition run (op : string) (args : list string) : string :=
  if String.eqb op "ecies.encrypt" then
      match args with
      | [a; cf; bp; m; x] =>
      match arg_priv a, arg_bool cf, arg_pub bp, expand m, arg_bool x with
      | KGood d, Some _, KGood (pb, B), Some msg, Some excl => out3 (impl_encrypt d pb msg excl) (spec_encrypt d B msg excl) "-"
      | KBad, _, _, _, _ | _, None, _, _, _ | _, _, KBad, _, _ | _, _, _, None, _ | _, _, _, _, None => "BADARG"
      | _, _, _, _, _ => "ERR|-|-"
      end
      | _ => "BADARG" end
  else if String.eqb op "ecies.encrypt_wif" then
      match args with
      | [w; bp; m; x] =>
      match expand w, arg_pub bp, expand m, arg_bool x with
      | Some wb, KGood (pb, B), Some msg, Some excl =>
          match from_wif (string_of_bytes wb) with
          | Ok k => out3 (impl_encrypt (sk_scalar k) pb msg excl) (spec_encrypt (sk_scalar k) B msg excl) "-"
          | _ => "ERR|-|-"
          end
      | None, _, _, _ | _, KBad, _, _ | _, _, None, _ | _, _, _, None => "BADARG"
      | _, _, _, _ => "ERR|-|-"
      end
      | _ => "BADARG" end
  else if String.eqb op "ecies.pub" then
      match args with
      | [a; b; bc; m] =>
      (* PublicKey(b, encoding bc)::encrypt_message(msg, a); then PrivateKey(b)::decrypt_message on the object and through bytes *)
      match arg_priv a, arg_priv b, arg_bool bc, expand m with
      | KGood da, KGood db, Some bcomp, Some msg =>
          let pb := to_public_key O db bcomp in
          let pa := to_public_key O da true in
          out3 (show_o (fun c => "OK:" +++ show_bytes (to_bytes c) +++ ";" +++
                                 match priv_decrypt_message O db c pa with Ok p => show_bytes p | _ => "ERR" end +++ ";" +++
                                 match (do c' <- from_bytes O (to_bytes c) true; priv_decrypt_message O db c' pa) with
                                 | Ok p => show_bytes p | _ => "ERR" end)
                       (pub_encrypt_message O pb msg da))
               (match bie1_encrypt E da (ec_smul E db (ec_G E)) true msg with
                | Some s => "OK:" +++ show_bytes s +++ ";" +++ show_bytes msg +++ ";" +++ show_bytes msg | None => "ERR" end) "-"
      | KInvalid, _, _, _ | _, KInvalid, _, _ => "ERR|-|-"
      | _, _, _, _ => "BADARG"
      end
      | _ => "BADARG" end
  else if String.eqb op "ecies.keys" then
      match args with
      | [d; p] =>
      (* ECIES::derive_cipher_keys *)
      match arg_priv d, arg_pub p with
      | KGood dd, KGood (pb, B) =>
          out3 (show_o (fun k => "OK:" +++ show_keys k) (derive_cipher_keys O dd pb))
               (if ec_is_inf E (ec_smul E dd B) then "ERR"
                else let '(iv, ke, km) := key_schedule E (ec_smul E dd B) in
                     "OK:" +++ hex_of_bytes iv +++ ";" +++ hex_of_bytes ke +++ ";" +++ hex_of_bytes km) "-"
      | KBad, _ | _, KBad => "BADARG"
      | _, _ => "ERR|-|-"
      end
      | _ => "BADARG" end
  else if String.eqb op "ecies.decrypt" then
      match args with
      | [b; ap; s; h] =>
      match arg_priv b, arg_pub ap, expand s, arg_bool h with
      | KGood d, KGood (pa, A), Some ser, Some haspk =>
          out3 (show_o show_msg (do c <- from_bytes O ser haspk; decrypt O c d pa))
               (show_opt (bie1_decrypt E d A haspk ser)) "-"
      | KBad, _, _, _ | _, KBad, _, _ | _, _, None, _ | _, _, _, None => "BADARG"
      | _, _, _, _ => "ERR|-|-"
      end
      | _ => "BADARG" end
  else if String.eqb op "ecies.parse" then
      match args with
      | [s; h] =>
      match expand s, arg_bool h with
      | Some ser, Some haspk =>
          out3 (show_o show_parse (from_bytes O ser haspk))
               (match bie1_split E haspk ser with
                | Some (R, body, mac) =>
                    "OK:" +++ show_bytes ser +++ ";" +++ match R with Some p => hex_of_bytes p | None => "-" end +++ ";"
                    +++ show_bytes body +++ ";" +++ hex_of_bytes mac +++ ";"
                    +++ match R with Some p => hex_of_bytes p | None => "ERR" end +++ ";none"
                | None => "ERR"
                end) "-"
      | _, _ => "BADARG"
      end
      | _ => "BADARG" end
  else if String.eqb op "ecies.flip" then
      match args with
      | [b; ap; s; h; i] =>
      match arg_priv b, arg_pub ap, expand s, arg_bool h, N_of_dec i with
      | KGood d, KGood (pa, A), Some ser, Some haspk, Some bit =>
          if (N.of_nat (length ser) * 8 <=? bit)%N then "BADARG"
          else
            match derive_cipher_keys O d pa with
            | Ok k => out3 (show_o show_msg (dec_ser k ser haspk) +++ "," +++ show_o show_msg (dec_ser k (flip_bit ser bit) haspk))
                           (show_opt (bie1_decrypt E d A haspk ser) +++ ",ERR") "-"
            | Err => "ERR,ERR|-|-" | Panic => "PANIC|-|-"
            end
      | KBad, _, _, _, _ | _, KBad, _, _, _ | _, _, None, _, _ | _, _, _, None, _ | _, _, _, _, None => "BADARG"
      | _, _, _, _, _ => "ERR|-|-"
      end
      | _ => "BADARG" end
  else if String.eqb op "ecies.mem" then
      match args with
      | [a; bp; b; ap; b2; a2p; m; x] =>
      match arg_priv a, arg_pub bp, arg_priv b, arg_pub ap, arg_priv b2, arg_pub a2p, expand m, arg_bool x with
      | KGood da, KGood (pb, _), KGood db, KGood (pa, _), KGood db2, KGood (pa2, _), Some msg, Some excl =>
          let three (c : ciphertext) :=
            show_o show_msg (decrypt O c db pa) +++ "," +++ show_o show_msg (decrypt O c db2 pa) +++ ","
            +++ show_o show_msg (decrypt O c db pa2) in
          (* then: the right keys once more, to_bytes unchanged (1), and on the object parsed back from those bytes:
             wrong recipient, right keys, get_cipher_keys *)
          out3 (match encrypt O msg da pb excl with
                | Ok c => three c +++ "," +++ three c      (* PrivateKey::decrypt_message = decrypt_impl *)
                          +++ "," +++ show_o show_msg (decrypt O c db pa) +++ ",1,"
                          +++ match from_bytes O (to_bytes c) (negb excl) with
                              | Ok c' => show_o show_msg (decrypt O c' db2 pa) +++ "," +++ show_o show_msg (decrypt O c' db pa) +++ ",none"
                              | _ => "ERR"
                              end
                | Err => "ERR" | Panic => "PANIC" end)
               (let r := show_msg msg +++ ",ERR,ERR" in r +++ "," +++ r +++ "," +++ show_msg msg +++ ",1,ERR," +++ show_msg msg +++ ",none") "-"
      | KInvalid, _, _, _, _, _, _, _ | _, KInvalid, _, _, _, _, _, _ | _, _, KInvalid, _, _, _, _, _
      | _, _, _, KInvalid, _, _, _, _ | _, _, _, _, KInvalid, _, _, _ | _, _, _, _, _, KInvalid, _, _ => "ERR|-|-"
      | _, _, _, _, _, _, _, _ => "BADARG"
      end
      | _ => "BADARG" end
  else if String.eqb op "ecies.sweep" then
      match args with
      | [a; b; x; sd; st; sp; cn] =>
      match arg_priv a, arg_priv b, arg_bool x, N_of_dec sd, N_of_dec st, N_of_dec sp, N_of_dec cn with
      | KGood da, KGood db, Some excl, Some seed, Some start, Some step, Some count =>
          if (64 <? count)%N || (100000 <? start + step * count)%N then "BADARG"
          else
            let pa := to_public_key O da true in
            let pb := to_public_key O db true in
            let lens := map (fun i => (N.of_nat i, N.to_nat (start + step * N.of_nat i))) (seq 0 (N.to_nat count)) in
            let item (ser : outcome bytes) (back : outcome bytes) (msg : bytes) : string :=
              match ser with
              | Ok s => let '(fa, fb) := fletcher s 1 0 in
                        dec_of_N (N.of_nat (length s)) +++ "." +++ dec_of_N (fb * 65536 + fa) +++ "." +++
                        match back with Ok m' => if bytes_eqb m' msg then "1" else "0" | _ => "0" end +++ ","
              | _ => "E,"
              end in
            let impl :=
              match derive_cipher_keys O da pb, derive_cipher_keys O db pa with
              | Ok k, Ok k' =>
                  "OK:" +++ String.concat "" (map (fun '(i, n) =>
                     let msg := lcg_bytes n (seed + i) in
                     let c := encrypt_with O k msg da excl in
                     item (omap to_bytes c) (do c0 <- c; do c' <- from_bytes O (to_bytes c0) (negb excl); decrypt_with O k' c') msg) lens)
              | Panic, _ | _, Panic => "PANIC"
              | _, _ => "ERR"
              end in
            let spec :=
              let A := ec_smul E da (ec_G E) in
              let S := ec_smul E da (ec_smul E db (ec_G E)) in
              let S' := ec_smul E db A in
              if ec_is_inf E S || ec_is_inf E S' then "ERR"
              else
                let ks := key_schedule E S in
                let ks' := key_schedule E S' in
                let R := if excl then [] else compressed E A in
                "OK:" +++ String.concat "" (map (fun '(i, n) =>
                   let msg := lcg_bytes n (seed + i) in
                   let s := bie1_seal ks R msg in
                   item (Ok s) (of_option (bie1_open E ks' (negb excl) s)) msg) lens) in
            out3 impl spec "-"
      | KInvalid, _, _, _, _, _, _ | _, KInvalid, _, _, _, _, _ => "ERR|-|-"
      | _, _, _, _, _, _, _ => "BADARG"
      end
      | _ => "BADARG" end
  else if String.eqb op "ecies.self" then
      match args with
      | [a; cf; m] =>
      match arg_priv a, arg_bool cf, expand m with
      | KGood d, Some comp, Some msg =>
          let own := to_public_key O d comp in
          out3 (show_o (fun c => "OK:" +++ show_bytes (to_bytes c) +++ ";" +++
                                 match priv_decrypt_message O d c own with Ok p => show_bytes p | _ => "ERR" end +++ ";" +++
                                 match (do c' <- from_bytes O (to_bytes c) true; priv_decrypt_message O d c' own) with
                                 | Ok p => show_bytes p | _ => "ERR" end)
                       (priv_encrypt_message O d comp msg))
               (match bie1_encrypt E d (ec_smul E d (ec_G E)) true msg with
                | Some s => "OK:" +++ show_bytes s +++ ";" +++ show_bytes msg +++ ";" +++ show_bytes msg | None => "ERR" end) "-"
      | KBad, _, _ | _, None, _ | _, _, None => "BADARG"
      | _, _, _ => "ERR|-|-"
      end
      | _ => "BADARG" end
  else if String.eqb op "ecies.ephemeral" then
      match args with
      | [b; m] =>
      match arg_priv b, expand m with
      | KGood d, Some msg =>
          let r := eph_scalar msg in
          let own := to_public_key O d true in
          out3 (show_o (fun p => show_msg p +++ ";1")
                  (do c <- encrypt_ephemeral O r msg own;
                   do c' <- from_bytes O (to_bytes c) true;
                   do sender <- extract_public_key O c';
                   decrypt O c' d sender))
               (show_msg msg +++ ";1") "-"
      | KBad, _ | _, None => "BADARG"
      | _, _ => "ERR|-|-"
      end
      | _ => "BADARG" end
  else if String.eqb op "ecies.key_history" then
      (* one PrivateKey value through compress_public_key(false) / (true): its public key after each step, then
         encrypt_message with the uncompressed-flagged key, decrypted with the re-compressed one *)
      match args with
      | [a; m] =>
      match arg_priv a, expand m with
      | KGood d, Some msg =>
          let p1 := to_public_key O d true in
          let p2 := to_public_key O d false in
          out3 (show_o (fun c => "OK:" +++ hex_of_bytes p1 +++ ";" +++ hex_of_bytes p2 +++ ";" +++ hex_of_bytes p1 +++ ";" +++
                                 show_bytes (to_bytes c) +++ ";" +++
                                 match priv_decrypt_message O d c p2 with Ok p => show_bytes p | _ => "ERR" end)
                       (priv_encrypt_message O d false msg))
               (let P := ec_smul E d (ec_G E) in
                match bie1_encrypt E d P true msg with
                | Some s => "OK:" +++ hex_of_bytes (ec_enc E true P) +++ ";" +++ hex_of_bytes (ec_enc E false P) +++ ";"
                            +++ hex_of_bytes (ec_enc E true P) +++ ";" +++ show_bytes s +++ ";" +++ show_bytes msg
                | None => "ERR" end) "-"
      | KBad, _ | _, None => "BADARG"
      | _, _ => "ERR|-|-"
      end
      | _ => "BADARG" end
  else "BADOP".
