(* Run/Exec_C19.v — executable entry point of the C19 correspondence check.
   run op args = "<implementation model output>|<specification output>|<known-finding class or ->"

   The decoders that Model/Template.v takes as parameters are instantiated here:
     is_sig    = strict DER (Prim/Der.v: der_decode, r and s in 1..n-1), or such a signature followed by one
                 byte that is a SigHash value (Signature::from_der_impl retries without the last byte);
     is_pubkey = SEC1 encoding of a non-identity curve point (Prim/Secp256k1.v: sec1_decode_fast). *)
From BSV Require Import Base.Hex Model.Opcodes Model.Script Model.Asm Model.Template Model.Criteria
  Spec.ScriptTok Spec.AsmSpec Spec.TemplateSpec Prim.Der Prim.Secp256k1.
Open Scope list_scope.

Definition der_ok (b : bytes) : bool := match der_decode b with Some _ => true | None => false end.
Definition is_sig_impl (buf : bytes) : bool :=
  if der_ok buf then true
  else match rev buf with
       | l :: r => if sighash_of_u8 (b2n l) then der_ok (rev r) else false
       | [] => false
       end.
Definition is_pubkey_impl (buf : bytes) : bool :=
  match sec1_decode_fast buf with Some _ => true | None => false end.

Definition out3 (impl spec known : string) : string := impl +++ "|" +++ spec +++ "|" +++ known.

(* Where the property prescribes no value (template text outside the documented grammar, scripts with
   conditionals or non-minimal pushes in self-match) it still demands totality: the expected value printed
   is the model's own non-panicking output, so that a panic / abort of the library is a specification
   violation with the failing input attached. *)
Definition total_only (impl : string) : string := if String.eqb impl "PANIC" then "ERR" else impl.

(* ------------------------------------------------------------------ *)
(* Debug rendering of ScriptTemplate *)
Definition show_vec (d : bytes) : string := "[" +++ join ", " (map (fun b => dec_of_N (b2n b)) d) +++ "]".
Definition show_cmp (k : lencmp) : string :=
  match k with
  | CEquals => "Equals" | CGreaterThan => "GreaterThan" | CLessThan => "LessThan"
  | CGreaterThanOrEquals => "GreaterThanOrEquals" | CLessThanOrEquals => "LessThanOrEquals"
  end.
Definition show_mtoken (t : mtoken) : string :=
  match t with
  | MOp c => "OpCode(" +++ op_text c +++ ")"
  | MPush d => "Push(" +++ show_vec d +++ ")"
  | MPushData c d => "PushData(" +++ op_text c +++ ", " +++ show_vec d +++ ")"
  | MAnyData => "AnyData"
  | MData n k => "Data(" +++ dec_of_N n +++ ", " +++ show_cmp k +++ ")"
  | MSignature => "Signature"
  | MPublicKey => "PublicKey"
  | MPublicKeyHash => "PublicKeyHash"
  end.
Definition show_template (ts : list mtoken) : string :=
  "ScriptTemplate([" +++ join ", " (map show_mtoken ts) +++ "])".

Definition show_kind (k : mkind) : string :=
  match k with KData => "d" | KSignature => "s" | KPublicKey => "k" | KPublicKeyHash => "h" end.
Fixpoint show_matches (ms : list (mkind * bytes)) : string :=
  match ms with
  | [] => ""
  | (k, d) :: r => show_kind k +++ show_bytes d +++ "," +++ show_matches r
  end.

Definition has_short_numeric (text : string) : bool := existsb short_numeric_token (split_space text).

(* ------------------------------------------------------------------ *)
Definition run_tparse (text : string) : string :=
  let impl := match template_from_asm text with
              | Ok ts => "OK:" +++ show_template ts | Err => "ERR" | Panic => "PANIC" end in
  let spec := match spec_template text with Some ts => "OK:" +++ show_template ts | None => total_only impl end in
  out3 impl spec (if has_short_numeric text then "short-numeric-token" else "-").

Definition show_match (r : outcome (list (mkind * bytes))) : string :=
  match r with Ok ms => "OK:match;" +++ show_matches ms | Err => "OK:nomatch" | Panic => "PANIC" end.

Definition run_match (bs : bytes) (text : string) : string :=
  match from_bytes bs with
  | Ok s =>
      let impl := match template_from_asm text with
                  | Ok ts => show_match (match_impl is_sig_impl is_pubkey_impl s ts)
                  | Err => "OK:badtemplate" | Panic => "PANIC" end in
      let spec := match spec_template text with
                  | Some ts => if template_matches_b is_sig_impl is_pubkey_impl ts s
                               then "OK:match;" +++ show_matches (extraction ts s) else "OK:nomatch"
                  | None => total_only impl end in
      out3 impl spec (if has_short_numeric text then "short-numeric-token" else "-")
  | Err => out3 "ERR" "ERR" "-"
  | Panic => out3 "PANIC" "ERR" "-"
  end.

Definition self_class (s : list bit) : string :=
  match s with
  | [] => "empty-script-template"
  | _ => if existsb short_numeric_push s then "short-numeric-token"
         else if existsb pseudo_opcode s then "pseudo-opcode-wildcard" else "-"
  end.

Definition run_self (bs : bytes) : string :=
  match from_bytes bs with
  | Ok s =>
      let impl := match template_from_script s with
                  | Ok ts => show_match (match_impl is_sig_impl is_pubkey_impl s ts)
                  | Err => "OK:badtemplate" | Panic => "PANIC" end in
      let spec := if no_conditionals s then (if minimal_pushes s then "OK:match;" else total_only impl) else total_only impl in
      out3 impl spec (self_class s)
  | Err => out3 "ERR" "ERR" "-"
  | Panic => out3 "PANIC" "ERR" "-"
  end.

(* ------------------------------------------------------------------ *)
(* argument parsing for the transaction ops *)
Definition opt_N (a : string) : option (option N) :=
  if String.eqb a "-" then Some None else match N_of_dec a with Some n => Some (Some n) | None => None end.
(* `z<hex>`: a script assembled in memory from lone opcode bits, one per byte (Script::from_script_bits) *)
Fixpoint lone_ops (bs : bytes) : option (list bit) :=
  match bs with
  | [] => Some []
  | b :: r =>
      let c := b2n b in
      if is_opcode c then
        if (c =? 76)%N then None else if (c =? 77)%N then None else if (c =? 78)%N then None
        else match lone_ops r with Some l => Some (BOp c :: l) | None => None end
      else None
  end.
Definition opt_script (a : string) : option (option (list bit)) :=
  if String.eqb a "-" then Some None
  else match a with
       | String "z" h => match bytes_of_hex h with
                         | Some bs => match lone_ops bs with Some l => Some (Some l) | None => None end
                         | None => None end
       | _ => match expand a with
              | Some bs => match from_bytes bs with Ok s => Some (Some s) | _ => None end
              | None => None
              end
       end.

Fixpoint parse_outs (l : list string) : option (list txout) :=
  match l with
  | [] => Some []
  | item :: r =>
      match split "=" item with
      | [v; sc] =>
          match N_of_dec v, opt_script sc, parse_outs r with
          | Some n, Some (Some s), Some os => Some ({| o_value := n; o_script := s |} :: os)
          | _, _, _ => None
          end
      | _ => None
      end
  end.
(* an input item has 3 fields, or 6: ... = <prev txid bytes> = <vout> = <sequence>; the matcher never reads the last three *)
Definition u32_arg (a : string) : option N :=
  match N_of_dec a with Some n => if (n <=? 4294967295)%N then Some n else None | None => None end.
Definition outpoint_ok (f : list string) : bool :=
  match f with
  | [] => true
  | [t; vo; sq] => match expand t, u32_arg vo, u32_arg sq with Some _, Some _, Some _ => true | _, _, _ => false end
  | _ => false
  end.
Definition outpoint_null (f : list string) : bool :=
  match f with
  | [t; vo; _] => match expand t, u32_arg vo with
                  | Some bs, Some v => Nat.eqb (length bs) 32 && forallb (fun b => (b2n b =? 0)%N) bs && (v =? 4294967295)%N
                  | _, _ => false end
  | _ => false
  end.
Fixpoint parse_ins (l : list string) : option (list txin) :=
  match l with
  | [] => Some []
  | item :: r =>
      match split "=" item with
      | v :: un :: lk :: rest =>
          if outpoint_ok rest then
            match opt_N v, opt_script un, opt_script lk, parse_ins r with
            | Some sat, Some (Some u), Some lock, Some is =>
                Some ({| i_satoshis := sat; i_unlocking := u; i_locking := lock |} :: is)
            | _, _, _, _ => None
            end
          else None
      | _ => None
      end
  end.
Definition any_null_outpoint (l : list string) : bool :=
  existsb (fun item => match split "=" item with _ :: _ :: _ :: rest => outpoint_null rest | _ => false end) l.
Definition items (a : string) : list string := match a with EmptyString => [] | _ => split "/" a end.

Definition show_indices (all : list nat) (first : option nat) : string :=
  "OK:" +++ join "," (map (fun k => dec_of_N (N.of_nat k)) all) +++ ";" +++
  match first with Some k => dec_of_N (N.of_nat k) | None => "-" end.

(* the two readings of the template argument: the library's and the grammar's *)
Inductive targ := TNone | TBad | TSome (ts : list mtoken).
Definition impl_template (a : string) : option targ :=
  if String.eqb a "-" then Some TNone
  else match expand a with
       | Some bs => Some (match template_from_asm (string_of_bytes bs) with Ok ts => TSome ts | _ => TBad end)
       | None => None
       end.
Definition spec_template_arg (a : string) : option targ :=
  if String.eqb a "-" then Some TNone
  else match expand a with
       | Some bs => Some (match spec_template (string_of_bytes bs) with Some ts => TSome ts | None => TBad end)
       | None => None
       end.
Definition targ_opt (t : targ) : option (list mtoken) := match t with TSome ts => Some ts | _ => None end.

Definition spec_out_selected (c : criteria) (o : txout) : bool :=
  match c_template c with Some t => template_matches_b is_sig_impl is_pubkey_impl t (o_script o) | None => true end
  && bounds_b c (Some (o_value o)).
Definition spec_in_selected (c : criteria) (i : txin) : bool :=
  match c_template c with
  | Some t => match finalised_script i with
              | Ok s => template_matches_b is_sig_impl is_pubkey_impl t s
              | _ => false end
  | None => true
  end && bounds_b c (i_satoshis i).

Definition run_tx (inputs : bool) (a t e mn mx : string) : string :=
  match impl_template t, spec_template_arg t, opt_N e, opt_N mn, opt_N mx with
  | Some ti, Some tsp, Some ex, Some mi, Some ma =>
      let known := match expand t with Some bs => if has_short_numeric (string_of_bytes bs) then "short-numeric-token" else "-" | None => "-" end in
      let ci := {| c_template := targ_opt ti; c_exact := ex; c_min := mi; c_max := ma |} in
      let cs := {| c_template := targ_opt tsp; c_exact := ex; c_min := mi; c_max := ma |} in
      if inputs then
        match parse_ins (items a) with
        | Some ins =>
            let impl := match ti with TBad => "OK:badtemplate"
                        | _ => show_indices (match_inputs is_sig_impl is_pubkey_impl ins ci) (match_input is_sig_impl is_pubkey_impl ins ci) end in
            let spec := match tsp with TBad => total_only impl
                        | _ => show_indices (indices_from (spec_in_selected cs) 0 ins) (first_from (spec_in_selected cs) 0 ins) end in
            out3 impl spec known
        | None => "BADARG"
        end
      else
        match parse_outs (items a) with
        | Some outs =>
            let impl := match ti with TBad => "OK:badtemplate"
                        | _ => show_indices (match_outputs is_sig_impl is_pubkey_impl outs ci) (match_output is_sig_impl is_pubkey_impl outs ci) end in
            let spec := match tsp with TBad => total_only impl
                        | _ => show_indices (indices_from (spec_out_selected cs) 0 outs) (first_from (spec_out_selected cs) 0 outs) end in
            out3 impl spec known
        | None => "BADARG"
        end
  | _, _, _, _, _ => "BADARG"
  end.

(* ------------------------------------------------------------------ *)
(* tx.match_history: observe -> mutate -> observe on one criteria object and one transaction *)
Record hstate := {
  h_outs : list txout; h_ins : list txin;
  h_ci : criteria; h_cs : criteria;              (* criteria as the library / the grammar read the template steps *)
  h_li : option criteria; h_ls : option criteria;  (* value returned by the last setter *)
  h_strict : bool }.                               (* false once a template step is outside the documented grammar *)

Fixpoint upd_nth {A} (k : nat) (f : A -> A) (l : list A) : option (list A) :=
  match l, k with
  | [], _ => None
  | x :: r, O => Some (f x :: r)
  | x :: r, S k' => match upd_nth k' f r with Some r' => Some (x :: r') | None => None end
  end.

Definition idx_val (v : string) : option (nat * string) :=
  match split "." v with
  | [i; r] => match N_of_dec i with
              | Some n => if (n <? 100000)%N then Some (N.to_nat n, r) else None
              | None => None end
  | _ => None
  end.

Definition set_c (k : string) (n : N) (c : criteria) : criteria :=
  if String.eqb k "v" then {| c_template := c_template c; c_exact := Some n; c_min := c_min c; c_max := c_max c |}
  else if String.eqb k "n" then {| c_template := c_template c; c_exact := c_exact c; c_min := Some n; c_max := c_max c |}
  else {| c_template := c_template c; c_exact := c_exact c; c_min := c_min c; c_max := Some n |}.
Definition set_t (t : list mtoken) (c : criteria) : criteria :=
  {| c_template := Some t; c_exact := c_exact c; c_min := c_min c; c_max := c_max c |}.

Inductive hres := HOk (h : hstate) | HBadArg | HBadTemplate | HErr.

Fixpoint reparse_outs (l : list txout) : option (list txout) :=
  match l with
  | [] => Some []
  | o :: r => match from_bytes (to_bytes (o_script o)), reparse_outs r with
              | Ok s, Some r' => Some ({| o_value := o_value o; o_script := s |} :: r')
              | _, _ => None end
  end.
Fixpoint reparse_ins (l : list txin) : option (list txin) :=
  match l with
  | [] => Some []
  | i :: r => match from_bytes (to_bytes (i_unlocking i)), reparse_ins r with
              | Ok s, Some r' => Some ({| i_satoshis := None; i_unlocking := s; i_locking := None |} :: r')
              | _, _ => None end
  end.

Definition hstep (inputs nullop : bool) (h : hstate) (st : string) : hres :=
  let with_ins (f : list txin -> option (list txin)) :=
    match f (h_ins h) with
    | Some l => HOk {| h_outs := h_outs h; h_ins := l; h_ci := h_ci h; h_cs := h_cs h; h_li := h_li h; h_ls := h_ls h; h_strict := h_strict h |}
    | None => HBadArg end in
  match split "=" st with
  | [k; v] =>
      if String.eqb k "v" || String.eqb k "n" || String.eqb k "x" then
        match N_of_dec v with
        | Some n => if (n <=? 18446744073709551615)%N then
                      let ci := set_c k n (h_ci h) in let cs := set_c k n (h_cs h) in
                      HOk {| h_outs := h_outs h; h_ins := h_ins h; h_ci := ci; h_cs := cs; h_li := Some ci; h_ls := Some cs; h_strict := h_strict h |}
                    else HBadArg
        | None => HBadArg end
      else if String.eqb k "t" then
        match expand v with
        | Some bs =>
            let text := string_of_bytes bs in
            match template_from_asm text with
            | Ok ti =>
                let ci := set_t ti (h_ci h) in
                match spec_template text with
                | Some tsp => let cs := set_t tsp (h_cs h) in
                    HOk {| h_outs := h_outs h; h_ins := h_ins h; h_ci := ci; h_cs := cs; h_li := Some ci; h_ls := Some cs; h_strict := h_strict h |}
                | None =>
                    HOk {| h_outs := h_outs h; h_ins := h_ins h; h_ci := ci; h_cs := h_cs h; h_li := Some ci; h_ls := h_ls h; h_strict := false |}
                end
            | _ => HBadTemplate end
        | None => HBadArg end
      else if String.eqb k "s" then
        if inputs then
          match idx_val v with
          | Some (i, r) => match N_of_dec r with
                           | Some n => if (n <=? 18446744073709551615)%N then
                                         with_ins (upd_nth i (fun x => {| i_satoshis := Some n; i_unlocking := i_unlocking x; i_locking := i_locking x |}))
                                       else HBadArg
                           | None => HBadArg end
          | None => HBadArg end
        else HBadArg
      else if String.eqb k "l" || String.eqb k "u" then
        if inputs then
          match idx_val v with
          | Some (i, r) => match opt_script r with
                           | Some (Some sc) =>
                               if String.eqb k "l"
                               then with_ins (upd_nth i (fun x => {| i_satoshis := i_satoshis x; i_unlocking := i_unlocking x; i_locking := Some sc |}))
                               else with_ins (upd_nth i (fun x => {| i_satoshis := i_satoshis x; i_unlocking := sc; i_locking := i_locking x |}))
                           | _ => HBadArg end
          | None => HBadArg end
        else HBadArg
      else if String.eqb k "w" then
        if inputs then HBadArg else
          match idx_val v with
          | Some (i, r) => match N_of_dec r with
                           | Some n => if (n <=? 18446744073709551615)%N then
                                         match upd_nth i (fun o => {| o_value := n; o_script := o_script o |}) (h_outs h) with
                                         | Some l => HOk {| h_outs := l; h_ins := h_ins h; h_ci := h_ci h; h_cs := h_cs h; h_li := h_li h; h_ls := h_ls h; h_strict := h_strict h |}
                                         | None => HBadArg end
                                       else HBadArg
                           | None => HBadArg end
          | None => HBadArg end
      else HBadArg
  | [k] =>
      if String.eqb k "r" then
        match h_li h with
        | Some ci => HOk {| h_outs := h_outs h; h_ins := h_ins h; h_ci := ci; h_cs := match h_ls h with Some cs => cs | None => h_cs h end;
                            h_li := h_li h; h_ls := h_ls h; h_strict := h_strict h |}
        | None => HBadArg end
      else if String.eqb k "c" || String.eqb k "k" then HOk h
      else if String.eqb k "b" then
        if nullop then HBadArg else      (* a parsed coinbase input carries a Coinbase script bit: outside this op *)
        match reparse_outs (h_outs h), reparse_ins (h_ins h) with
        | Some o, Some i => HOk {| h_outs := o; h_ins := i; h_ci := h_ci h; h_cs := h_cs h; h_li := h_li h; h_ls := h_ls h; h_strict := h_strict h |}
        | _, _ => HErr end
      else HBadArg
  | _ => HBadArg
  end.

Definition show_obs (all : list nat) (first : option nat) : string :=
  join "," (map (fun k => dec_of_N (N.of_nat k)) all) +++ ":" +++
  match first with Some k => dec_of_N (N.of_nat k) | None => "-" end.
Definition obs_impl (inputs : bool) (h : hstate) : string :=
  if inputs then show_obs (match_inputs is_sig_impl is_pubkey_impl (h_ins h) (h_ci h)) (match_input is_sig_impl is_pubkey_impl (h_ins h) (h_ci h))
  else show_obs (match_outputs is_sig_impl is_pubkey_impl (h_outs h) (h_ci h)) (match_output is_sig_impl is_pubkey_impl (h_outs h) (h_ci h)).
(* the expected observation depends on the current field values only *)
Definition obs_spec (inputs : bool) (h : hstate) : string :=
  if h_strict h then
    if inputs then show_obs (indices_from (spec_in_selected (h_cs h)) 0 (h_ins h)) (first_from (spec_in_selected (h_cs h)) 0 (h_ins h))
    else show_obs (indices_from (spec_out_selected (h_cs h)) 0 (h_outs h)) (first_from (spec_out_selected (h_cs h)) 0 (h_outs h))
  else "*".

Fixpoint hrun (inputs nullop : bool) (h : hstate) (steps : list string) (acc_i acc_s : list string) : string :=
  match steps with
  | [] => out3 ("OK:" +++ join ";" (rev acc_i)) ("OK:" +++ join ";" (rev acc_s)) "-"
  | st :: r =>
      match hstep inputs nullop h st with
      | HOk h' => hrun inputs nullop h' r (obs_impl inputs h' :: acc_i) (obs_spec inputs h' :: acc_s)
      | HBadArg => "BADARG"
      | HBadTemplate => out3 "OK:badtemplate" "OK:badtemplate" "-"
      | HErr => out3 "ERR" "ERR" "-"
      end
  end.

Definition run_history (kind items steps : string) : string :=
  let c0 := {| c_template := None; c_exact := None; c_min := None; c_max := None |} in
  let start (inputs : bool) (o : list txout) (i : list txin) :=
    let h := {| h_outs := o; h_ins := i; h_ci := c0; h_cs := c0; h_li := None; h_ls := None; h_strict := true |} in
    hrun inputs (if inputs then any_null_outpoint (Exec_C19.items items) else false) h (match steps with EmptyString => [] | _ => split "/" steps end) [obs_impl inputs h] [obs_spec inputs h] in
  if String.eqb kind "o" then match parse_outs (Exec_C19.items items) with Some o => start false o [] | None => "BADARG" end
  else if String.eqb kind "i" then match parse_ins (Exec_C19.items items) with Some i => start true [] i | None => "BADARG" end
  else "BADARG".

Definition text_arg (a : string) : option string :=
  match expand a with Some bs => Some (string_of_bytes bs) | None => None end.

Definition run (op : string) (args : list string) : string :=
  match op, args with
  | "template.parse", [a] => match text_arg a with Some t => run_tparse t | None => "BADARG" end
  | "script.match", [a; b] =>
      match expand a, text_arg b with Some bs, Some t => run_match bs t | _, _ => "BADARG" end
  | "template.self_match", [a] => match expand a with Some bs => run_self bs | None => "BADARG" end
  | "tx.match_history", [k; a; st] => run_history k a st
  | "tx.match_outputs", [a; t; e; mn; mx] => run_tx false a t e mn mx
  | "tx.match_inputs", [a; t; e; mn; mx] => run_tx true a t e mn mx
  | _, _ => "BADOP"
  end.
