(* Run/Exec_C08.v — executable entry point of the C08 correspondence check (BIP32).
   run op args = "<implementation model output>|<specification output>|<known-finding class or ->"
     implementation model = Model/Bip32.v on the BigZ curve instance [ec_fast];
     specification        = Spec/Bip32Spec.v (BIP32 from the text, Prim hashes) on the same curve instance.
   A parent key is given field by field (it is built with ExtendedPrivateKey::new / ExtendedPublicKey::new
   in the driver), so that derive / to_string are exercised independently of from_seed / from_string:
     xprv parent = key comp cc depth index fp      (key: 32 bytes; comp: 0|1; fp: bytes or "-" for None)
     xpub parent = pubkey cc depth index fp        (pubkey: SEC1 bytes)
   Text (paths, key strings) travels as hex of its bytes.
   The specification is silent ("-") on parents outside the standard's domain (uncompressed key, chain code
   not 32 bytes, fingerprint not 4 bytes) and on path strings outside the standard notation. *)
From BSV Require Import Base.Hex Prim.Secp256k1 Prim.Base58 Model.HashApi Model.EcIface Model.Bip32 Spec.Bip32Spec.
Local Open Scope Z_scope.

Definition E := ec_fast.
Definition out3 (impl spec known : string) : string := impl +++ "|" +++ spec +++ "|" +++ known.
Definition hx := hex_of_bytes.

Definition show_xprv (x : xprv) : string :=
  "OK:" +++ xprv_to_string x +++ ";" +++ dec_of_N (xs_depth x) +++ ";" +++ dec_of_N (xs_index x) +++ ";" +++
  hx (xs_fp x) +++ ";" +++ hx (xs_cc x) +++ ";" +++ hx (be32 (xs_key x)) +++ ";" +++ hx (xs_pub x).
Definition show_xpub (x : xpub) : string :=
  "OK:" +++ xpub_to_string x +++ ";" +++ dec_of_N (xp_depth x) +++ ";" +++ dec_of_N (xp_index x) +++ ";" +++
  hx (xp_fp x) +++ ";" +++ hx (xp_cc x) +++ ";" +++ hx (xp_pub x).
Definition show_o {A} (f : A -> string) (r : outcome A) : string :=
  match r with Ok a => f a | Err => "ERR" | Panic => "PANIC" end.

Definition show_sxprv (x : sxprv) : string :=
  "OK:" +++ serialize_priv x +++ ";" +++ dec_of_N (sdepth x) +++ ";" +++ dec_of_N (schild x) +++ ";" +++
  hx (sfp x) +++ ";" +++ hx (sc x) +++ ";" +++ hx (ser256 (sk x)) +++ ";" +++ hx (serP E (point E (sk x))).
Definition show_sxpub (x : sxpub E) : string :=
  "OK:" +++ serialize_pub E x +++ ";" +++ dec_of_N (sDepth E x) +++ ";" +++ dec_of_N (sChild E x) +++ ";" +++
  hx (sFp E x) +++ ";" +++ hx (sC E x) +++ ";" +++ hx (serP E (sK E x)).
Definition show_s {A} (f : A -> string) (r : option A) : string :=
  match r with Some a => f a | None => "ERR" end.

Definition text_of (bs : bytes) : list ascii := map ascii_of_byte bs.

(* --- arguments ------------------------------------------------------ *)
Definition arg_fp (s : string) : option (option bytes) :=
  match s with "-" => Some None | _ => match expand s with Some b => Some (Some b) | None => None end end.
Definition arg_bool (s : string) : option bool :=
  match s with "0" => Some false | "1" => Some true | _ => None end.

Inductive parg (A : Type) := PBad | PInvalid | PGood (a : A).
Arguments PBad {A}. Arguments PInvalid {A}. Arguments PGood {A} a.

(* PrivateKey::from_bytes(key) (Err -> the driver reports ERR), compress_public_key(comp), ExtendedPrivateKey::new *)
Definition arg_xprv (a : list string) : parg (xprv * sxprv * bool) :=
  match a with
  | [k; comp; cc; d; i; fp] =>
      match expand k, arg_bool comp, expand cc, N_of_dec d, N_of_dec i, arg_fp fp with
      | Some kb, Some c, Some ccb, Some dn, Some inn, Some fpo =>
          if (256 <=? dn)%N || (4294967296 <=? inn)%N then PBad
          else match secret_of_bytes kb with
               | Ok kz =>
                   let x := xprv_new E kz c ccb dn inn fpo in
                   let std := c && Nat.eqb (length ccb) 32 && Nat.eqb (length (xs_fp x)) 4 in
                   PGood (x, MkSxprv kz ccb dn inn (xs_fp x), std)
               | _ => PInvalid
               end
      | _, _, _, _, _, _ => PBad
      end
  | _ => PBad
  end.

(* PublicKey::from_bytes(pubkey) (Err -> ERR), ExtendedPublicKey::new *)
Definition arg_xpub (a : list string) : parg (xpub * option (sxpub E)) :=
  match a with
  | [pk; cc; d; i; fp] =>
      match expand pk, expand cc, N_of_dec d, N_of_dec i, arg_fp fp with
      | Some pkb, Some ccb, Some dn, Some inn, Some fpo =>
          if (256 <=? dn)%N || (4294967296 <=? inn)%N then PBad
          else match ec_dec E pkb with
               | Some K =>
                   let x := xpub_new pkb ccb dn inn fpo in
                   let std := Nat.eqb (length pkb) 33 && Nat.eqb (length ccb) 32 && Nat.eqb (length (xp_fp x)) 4 in
                   PGood (x, if std then Some (MkSxpub E K ccb dn inn (xp_fp x)) else None)
               | None => PInvalid
               end
      | _, _, _, _, _ => PBad
      end
  | _ => PBad
  end.

(* --- path ops -------------------------------------------------------- *)
(* strings outside the standard notation: an independent reader refuses them; the library's documented leniency
   (the explicit language of C08_path_grammar minus the standard notation: "m0", "m/+1", "m//1", "m/1Hh''", ...) is
   tolerated (compared with the model only), everything else must be refused *)
Definition nonstd_spec (p : list ascii) : string :=
  match parse_path p with Ok _ => "-" | _ => "ERR" end.

Definition spec_path_priv (x : option sxprv) (p : list ascii) : string :=
  match x with
  | None => "ERR"
  | Some x =>
      match std_path p with
      | None => nonstd_spec p
      | Some [] => "ERR~" +++ show_sxprv x
      | Some idx => show_s show_sxprv (descend_priv E x idx)
      end
  end.
Definition spec_path_pub (x : option (sxpub E)) (p : list ascii) : string :=
  match x with
  | None => "ERR"
  | Some x =>
      match std_path p with
      | None => nonstd_spec p
      | Some [] => "ERR~" +++ show_sxpub x
      | Some idx => show_s show_sxpub (descend_pub E x idx)
      end
  end.

Definition take_last {A} (l : list A) : option (list A * A) :=
  match rev l with x :: r => Some (rev r, x) | [] => None end.

Definition run (op : string) (args : list string) : string :=
  if String.eqb op "xprv.from_seed" then
      match args with
      | [s] => match expand s with
               | Some seed => out3 (show_o show_xprv (xprv_from_seed E seed)) (show_s show_sxprv (master seed)) "-"
               | None => "BADARG" end
      | _ => "BADARG" end
  else if String.eqb op "xprv.seed_path" then
      match args with
      | [s; p] => match expand s, expand p with
                  | Some seed, Some pb =>
                      out3 (show_o show_xprv (do x <- xprv_from_seed E seed; xprv_derive_path E x (text_of pb)))
                           (spec_path_priv (master seed) (text_of pb)) "-"
                  | _, _ => "BADARG" end
      | _ => "BADARG" end
  else if String.eqb op "xpub.seed_path" then
      match args with
      | [s; p] => match expand s, expand p with
                  | Some seed, Some pb =>
                      out3 (show_o show_xpub (do x <- xpub_from_seed E seed; xpub_derive_path E x (text_of pb)))
                           (spec_path_pub (option_map (neuter E) (master seed)) (text_of pb)) "-"
                  | _, _ => "BADARG" end
      | _ => "BADARG" end
  else if String.eqb op "xprv.from_random" || String.eqb op "xpub.from_random" then
      (* behavioural: depth;index;fingerprint of a fresh key; 1 iff its string reads back to the same fields;
         1 iff two calls give different keys *)
      match args with [] => out3 "OK:0;0;00000000;1;1" "OK:0;0;00000000;1;1" "-" | _ => "BADARG" end
  else if String.eqb op "xpub.from_seed" then
      match args with
      | [s] => match expand s with
               | Some seed => out3 (show_o show_xpub (xpub_from_seed E seed))
                                   (show_s show_sxpub (option_map (neuter E) (master seed))) "-"
               | None => "BADARG" end
      | _ => "BADARG" end
  else if String.eqb op "xprv.string_derive" then
      match args with
      | [s; i] => match expand s, N_of_dec i with
                  | Some sb, Some ix =>
                      if (4294967296 <=? ix)%N then "BADARG" else
                      let str := string_of_bytes sb in
                      out3 (show_o show_xprv (do x <- xprv_from_string E str; xprv_derive E x ix))
                           (show_s show_sxprv (match parse_priv str with Some x => child_priv E x ix | None => None end)) "-"
                  | _, _ => "BADARG" end
      | _ => "BADARG" end
  else if String.eqb op "xpub.string_derive" then
      match args with
      | [s; i] => match expand s, N_of_dec i with
                  | Some sb, Some ix =>
                      if (4294967296 <=? ix)%N then "BADARG" else
                      let str := string_of_bytes sb in
                      out3 (show_o show_xpub (do x <- xpub_from_string E str; xpub_derive E x ix))
                           (show_s show_sxpub (match parse_pub E str with Some x => child_pub E x ix | None => None end)) "-"
                  | _, _ => "BADARG" end
      | _ => "BADARG" end
  else if String.eqb op "xprv.history" then
      (* one object, several calls: path A, path B, path A again, (child 1 of the object) . path A, the object itself afterwards *)
      match rev args with
      | pb :: pa :: ra =>
          match arg_xprv (rev ra), expand pa, expand pb with
          | PGood (x, sx, std), Some a, Some b =>
              let st (r : outcome xprv) := match r with Ok y => xprv_to_string y | Err => "ERR" | Panic => "PANIC" end in
              let ss (r : option sxprv) := match r with Some y => serialize_priv y | None => "ERR" end in
              let sp (y : sxprv) (p : list ascii) := match std_path p with Some idx => descend_priv E y idx | None => None end in
              out3 ("OK:" +++ st (xprv_derive_path E x (text_of a)) +++ ";" +++ st (xprv_derive_path E x (text_of b)) +++ ";"
                    +++ st (xprv_derive_path E x (text_of a)) +++ ";"
                    +++ st (do y <- xprv_derive E x 1; xprv_derive_path E y (text_of a)) +++ ";" +++ xprv_to_string x)
                   (match std, std_path (text_of a), std_path (text_of b) with
                    | true, Some (_ :: _), Some (_ :: _) =>
                        "OK:" +++ ss (sp sx (text_of a)) +++ ";" +++ ss (sp sx (text_of b)) +++ ";" +++ ss (sp sx (text_of a)) +++ ";"
                        +++ ss (match child_priv E sx 1 with Some y => sp y (text_of a) | None => None end) +++ ";" +++ serialize_priv sx
                    | _, _, _ => "-"
                    end) "-"
          | PInvalid, _, _ => "ERR|-|-"
          | _, _, _ => "BADARG"
          end
      | _ => "BADARG" end
  else if String.eqb op "xpub.history" then
      match rev args with
      | pb :: pa :: ra =>
          match arg_xpub (rev ra), expand pa, expand pb with
          | PGood (x, sx), Some a, Some b =>
              let st (r : outcome xpub) := match r with Ok y => xpub_to_string y | Err => "ERR" | Panic => "PANIC" end in
              let ss (r : option (sxpub E)) := match r with Some y => serialize_pub E y | None => "ERR" end in
              let sp (y : sxpub E) (p : list ascii) := match std_path p with Some idx => descend_pub E y idx | None => None end in
              out3 ("OK:" +++ st (xpub_derive_path E x (text_of a)) +++ ";" +++ st (xpub_derive_path E x (text_of b)) +++ ";"
                    +++ st (xpub_derive_path E x (text_of a)) +++ ";"
                    +++ st (do y <- xpub_derive E x 1; xpub_derive_path E y (text_of a)) +++ ";" +++ xpub_to_string x)
                   (match sx, std_path (text_of a), std_path (text_of b) with
                    | Some y0, Some (_ :: _), Some (_ :: _) =>
                        "OK:" +++ ss (sp y0 (text_of a)) +++ ";" +++ ss (sp y0 (text_of b)) +++ ";" +++ ss (sp y0 (text_of a)) +++ ";"
                        +++ ss (match child_pub E y0 1 with Some y => sp y (text_of a) | None => None end) +++ ";" +++ serialize_pub E y0
                    | _, _, _ => "-"
                    end) "-"
          | PInvalid, _, _ => "ERR|-|-"
          | _, _, _ => "BADARG"
          end
      | _ => "BADARG" end
  else if String.eqb op "xprv.from_string" then
      match args with
      | [s] => match expand s with
               | Some sb => let str := string_of_bytes sb in
                            out3 (show_o show_xprv (xprv_from_string E str)) (show_s show_sxprv (parse_priv str)) "-"
               | None => "BADARG" end
      | _ => "BADARG" end
  else if String.eqb op "xpub.from_string" then
      match args with
      | [s] => match expand s with
               | Some sb => let str := string_of_bytes sb in
                            out3 (show_o show_xpub (xpub_from_string E str)) (show_s show_sxpub (parse_pub E str)) "-"
               | None => "BADARG" end
      | _ => "BADARG" end
  else if String.eqb op "xprv.to_string" then
      (* to_string never looks at the public key: the record is built without computing it *)
      match args with
      | [k; comp; cc; d; i; fp] =>
          match expand k, arg_bool comp, expand cc, N_of_dec d, N_of_dec i, arg_fp fp with
          | Some kb, Some c, Some ccb, Some dn, Some inn, Some fpo =>
              if (256 <=? dn)%N || (4294967296 <=? inn)%N then "BADARG"
              else match secret_of_bytes kb with
                   | Ok kz =>
                       let f := match fpo with Some f => f | None => zeros 4 end in
                       let x := MkXprv kz c [] ccb dn inn f in
                       out3 ("OK:" +++ xprv_to_string x)
                            (if Nat.eqb (length ccb) 32 && Nat.eqb (length f) 4
                             then "OK:" +++ serialize_priv (MkSxprv kz ccb dn inn f) else "-") "-"
                   | _ => "ERR|-|-"
                   end
          | _, _, _, _, _, _ => "BADARG"
          end
      | _ => "BADARG" end
  else if String.eqb op "xpub.to_string" then
      match arg_xpub args with
      | PBad => "BADARG" | PInvalid => "ERR|-|-"
      | PGood (x, sx) => out3 ("OK:" +++ xpub_to_string x)
                              (match sx with Some y => "OK:" +++ serialize_pub E y | None => "-" end) "-"
      end
  else if String.eqb op "xpub.from_xprv" then
      match arg_xprv args with
      | PBad => "BADARG" | PInvalid => "ERR|-|-"
      | PGood (x, sx, std) => out3 (show_xpub (xpub_from_xprv x)) (if std then show_sxpub (neuter E sx) else "-") "-"
      end
  else if String.eqb op "xprv.derive" || String.eqb op "xprv.neuter_derive" || String.eqb op "xpub.from_xprv_derive" || String.eqb op "xprv.derive_path" then
      match take_last args with
      | Some (pa, last) =>
          match arg_xprv pa with
          | PBad => "BADARG" | PInvalid => "ERR|-|-"
          | PGood (x, sx, std) =>
              if String.eqb op "xprv.derive_path" then
                  match expand last with
                  | Some pb => out3 (show_o show_xprv (xprv_derive_path E x (text_of pb)))
                                    (if std then spec_path_priv (Some sx) (text_of pb) else "-") "-"
                  | None => "BADARG" end
              else
                  match N_of_dec last with
                  | Some i =>
                      if (4294967296 <=? i)%N then "BADARG"
                      else if String.eqb op "xprv.derive" then
                               out3 (show_o show_xprv (xprv_derive E x i))
                                    (if std then show_s show_sxprv (child_priv E sx i) else "-") "-"
                      else if String.eqb op "xpub.from_xprv_derive" then
                               out3 (show_o show_xpub (xpub_derive E (xpub_from_xprv x) i))
                                    (if std then show_s show_sxpub (child_pub E (neuter E sx) i) else "-") "-"
                      else
                               out3 (show_o show_xpub (omap xpub_from_xprv (xprv_derive E x i)))
                                    (if std then
                                       (if hardened i then show_s show_sxpub (option_map (neuter E) (child_priv E sx i))
                                        else show_s show_sxpub (child_pub E (neuter E sx) i))
                                     else "-") "-"
                  | None => "BADARG" end
          end
      | None => "BADARG" end
  else if String.eqb op "xpub.derive" || String.eqb op "xpub.derive_path" then
      match take_last args with
      | Some (pa, last) =>
          match arg_xpub pa with
          | PBad => "BADARG" | PInvalid => "ERR|-|-"
          | PGood (x, sx) =>
              if String.eqb op "xpub.derive_path" then
                  match expand last with
                  | Some pb => out3 (show_o show_xpub (xpub_derive_path E x (text_of pb)))
                                    (match sx with Some y => spec_path_pub (Some y) (text_of pb) | None => "-" end) "-"
                  | None => "BADARG" end
              else
                  match N_of_dec last with
                  | Some i =>
                      if (4294967296 <=? i)%N then "BADARG"
                      else out3 (show_o show_xpub (xpub_derive E x i))
                                (match sx with Some y => show_s show_sxpub (child_pub E y i) | None => "-" end) "-"
                  | None => "BADARG" end
          end
      | None => "BADARG" end
  else "BADOP".
