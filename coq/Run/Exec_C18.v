(* Run/Exec_C18.v — executable entry point of the C18 correspondence check.
   run op args = "<implementation model output>|<specification output>|<known-finding class or ->"
   Argument encodings are documented in harness/src/ops_c18.rs. *)
From BSV Require Import Base.Hex Model.Opcodes Model.Script Model.VarInt Model.Tx Model.Serde.

Definition out3 (impl spec known : string) : string := impl +++ "|" +++ spec +++ "|" +++ known.
Definition bit01 (b : bool) : string := if b then "1" else "0".

Fixpoint cat_map {A} (f : A -> string) (l : list A) : string :=
  match l with [] => "" | x :: r => f x +++ cat_map f r end.

(* ---------------------------------------------------------------- rendering of values (as the driver) *)
Definition show_opt_N (o : option N) : string := match o with Some v => dec_of_N v | None => "n" end.
Definition show_txin (i : txin) : string :=
  "I" +++ hex_of_bytes (prev_tx_id i) +++ "." +++ dec_of_N (vout i) +++ "." +++ dec_of_N (sequence i) +++ "."
  +++ show_opt_N (satoshis i) +++ "[" +++ show_bits (unlocking i) +++ "]"
  +++ match locking i with Some s => "[" +++ show_bits s +++ "]" | None => "n" end.
Definition show_txout (o : txout) : string :=
  "O" +++ dec_of_N (value o) +++ "[" +++ show_bits (script_pub_key o) +++ "]".
Definition show_tx (t : tx) : string :=
  dec_of_N (version t) +++ "/" +++ dec_of_N (locktime t) +++ "/" +++ cat_map show_txin (inputs t)
  +++ "/" +++ cat_map show_txout (outputs t).

(* ---------------------------------------------------------------- arguments *)
Inductive arg (A : Type) := AVal (a : A) | ALibErr | ALibPanic | ABad.
Arguments AVal {A} a. Arguments ALibErr {A}. Arguments ALibPanic {A}. Arguments ABad {A}.

Definition arg_of_outcome {A} (o : outcome A) : arg A :=
  match o with Ok a => AVal a | Err => ALibErr | Panic => ALibPanic end.

(* one ext entry "<sat|n>.<lock descriptor|n>" applied to an input *)
Definition apply_ext1 (ent : string) (i : txin) : arg txin :=
  match split "." ent with
  | [sat; lock] =>
      match (if String.eqb sat "n" then Some (satoshis i)
             else match N_of_dec sat with
                  | Some v => if (v <=? u64max)%N then Some (Some v) else None
                  | None => None
                  end) with
      | None => ABad
      | Some sa =>
          if String.eqb lock "n" then AVal (mk_txin (prev_tx_id i) (vout i) (unlocking i) (sequence i) (locking i) sa)
          else match expand lock with
               | None => ABad
               | Some bs =>
                   match from_bytes bs with
                   | Ok s => AVal (mk_txin (prev_tx_id i) (vout i) (unlocking i) (sequence i) (Some s) sa)
                   | Err => ALibErr
                   | Panic => ALibPanic
                   end
               end
      end
  | _ => ABad
  end.
Fixpoint apply_ext (ents : list string) (ins : list txin) : arg (list txin) :=
  match ents, ins with
  | [], _ => AVal ins
  | _ :: _, [] => ABad
  | e :: es, i :: r =>
      match apply_ext1 e i with
      | AVal i' => match apply_ext es r with AVal r' => AVal (i' :: r') | ALibErr => ALibErr | ALibPanic => ALibPanic | ABad => ABad end
      | ALibErr => ALibErr | ALibPanic => ALibPanic | ABad => ABad
      end
  end.
Definition get_tx (w e : string) : arg tx :=
  match expand w with
  | None => ABad
  | Some bs =>
      match tx_from_bytes bs with
      | Ok t =>
          if String.eqb e "-" then AVal t
          else match apply_ext (split "," e) (inputs t) with
               | AVal ins => AVal (mk_tx (version t) ins (outputs t) (locktime t))
               | ALibErr => ALibErr | ALibPanic => ALibPanic | ABad => ABad
               end
      | Err => ALibErr
      | Panic => ALibPanic
      end
  end.

(* bits: "o<NAME>" "p<hex>" "d<NAME>x<hex>" "c<hex>" "i<NAME>" ... "e" ... "z" *)
Inductive bterm := BtEnd | BtElse | BtEndif.
Fixpoint parse_bits (fuel : nat) (toks : list string) : option (list bit * bterm * list string) :=
  match fuel with
  | O => None
  | S fu =>
    match toks with
    | [] => Some ([], BtEnd, [])
    | t :: r =>
      if String.eqb t "e" then Some ([], BtElse, r)
      else if String.eqb t "z" then Some ([], BtEndif, r)
      else
        let cont (b : bit) (r' : list string) :=
          match parse_bits fu r' with
          | Some (bs, tm, r'') => Some (b :: bs, tm, r'')
          | None => None
          end in
        match t with
        | String "o" n => match opcode_of_name n with Some c => cont (BOp c) r | None => None end
        | String "p" h => match bytes_of_hex h with Some d => cont (BPush d) r | None => None end
        | String "c" h => match bytes_of_hex h with Some d => cont (BCoinbase d) r | None => None end
        | String "d" nh =>
            match split "x" nh with
            | [n; h] => match opcode_of_name n, bytes_of_hex h with
                        | Some c, Some d => cont (BPushData c d) r
                        | _, _ => None
                        end
            | _ => None
            end
        | String "i" n =>
            match opcode_of_name n with
            | None => None
            | Some c =>
                match parse_bits fu r with
                | Some (p, BtEndif, r1) => cont (BIf c p None) r1
                | Some (p, BtElse, r1) =>
                    match parse_bits fu r1 with
                    | Some (q, BtEndif, r2) => cont (BIf c p (Some q)) r2
                    | _ => None
                    end
                | _ => None
                end
            end
        | _ => None
        end
    end
  end.
Definition bits_arg (a : string) : option (list bit) :=
  if String.eqb a "-" then Some []
  else
    let toks := split "," a in
    if existsb (String.eqb "") toks then None
    else match parse_bits (S (length toks)) toks with
         | Some (bs, BtEnd, _) => Some bs
         | _ => None
         end.
Definition bits_tx (s : list bit) : tx :=
  mk_tx 2 [mk_txin (repeat x11 32) 3 s 4294967294 (Some s) (Some 1%N)] [mk_txout 5 s] 7.

(* trees *)
Fixpoint is_raw (s : string) : bool :=
  match s with
  | EmptyString => true
  | String c r =>
      let n := N_of_ascii c in
      ((48 <=? n)%N && (n <=? 57)%N || (65 <=? n)%N && (n <=? 90)%N || (97 <=? n)%N && (n <=? 122)%N || (n =? 95)%N)
      && is_raw r
  end.
Fixpoint parse_tree (fuel : nat) (toks : list string) : option (content * list string) :=
  match fuel with
  | O => None
  | S fu =>
    let fix items (k : nat) (toks : list string) : option (list content * list string) :=
      match k with
      | O => Some ([], toks)
      | S k' => match parse_tree fu toks with
                | Some (c, r) => match items k' r with Some (cs, r') => Some (c :: cs, r') | None => None end
                | None => None
                end
      end in
    let fix pairs (k : nat) (toks : list string) : option (list (string * content) * list string) :=
      match k with
      | O => Some ([], toks)
      | S k' => match parse_tree fu toks with
                | Some (CStr key, r) =>
                    match parse_tree fu r with
                    | Some (v, r1) => match pairs k' r1 with Some (m, r') => Some ((key, v) :: m, r') | None => None end
                    | None => None
                    end
                | _ => None
                end
      end in
    match toks with
    | [] => None
    | t :: r =>
      match t with
      | "n" => Some (CNull, r)
      | "t" => Some (CBool true, r)
      | "f" => Some (CBool false, r)
      | String "u" d => match N_of_dec d with Some v => if (v <=? u64max)%N then Some (CU64 v, r) else None | None => None end
      | String "m" d => match N_of_dec d with
                        | Some v => if (1 <=? v)%N && (v <=? 9223372036854775808)%N then Some (CNeg v, r) else None
                        | None => None
                        end
      | String "s" h => match bytes_of_hex h with Some bs => Some (CStr (string_of_bytes bs), r) | None => None end
      | String "z" raw => Some (CStr raw, r)
      | String "S" d => match expand d with Some bs => Some (CStr (hex_of_bytes bs), r) | None => None end
      | String "a" d => match N_of_dec d with
                        | Some k => if (k <=? 100000)%N then
                                      match items (N.to_nat k) r with Some (cs, r') => Some (CSeq cs, r') | None => None end
                                    else None
                        | None => None
                        end
      | String "o" d => match N_of_dec d with
                        | Some k => if (k <=? 100000)%N then
                                      match pairs (N.to_nat k) r with Some (m, r') => Some (CMap m, r') | None => None end
                                    else None
                        | None => None
                        end
      | _ => None
      end
    end
  end.
Definition tree_arg (a : string) : option content :=
  let toks := split "." a in
  match parse_tree (S (length toks)) toks with
  | Some (c, []) => Some c
  | _ => None
  end.

(* ---------------------------------------------------------------- ops *)
Definition known_class (f : fmt) (t : tx) : string :=
  if exceeds_limit f (ser_tx t) then "nesting-exceeds-decoder-limit"
  else if tx_has_cb t then "coinbase-script-bit" else "-".

Definition tx_flags (t t2 : tx) : string :=
  let sb := bytes_eqb (tx_bytes t) (tx_bytes t2) in
  (* the id is sha256d of the wire bytes: equal bytes <-> equal ids (up to a hash collision) *)
  "OK:" +++ bit01 (tx_eqb t t2) +++ ";" +++ bit01 sb +++ ";" +++ bit01 sb +++ ";" +++ show_tx t2.

Definition run_roundtrip (f : fmt) (t : tx) : string :=
  let impl := match de_tx f (ser_tx t) with
              | Ok t2 => tx_flags t t2
              | Err => "ERR"
              | Panic => "PANIC"
              end in
  out3 impl "OK:1;1;1;*" (known_class f t).

Definition run_txin_roundtrip (i : txin) : string :=
  let impl := match de_txin_top Cbor (ser_txin i) with
              | Ok i2 => "OK:" +++ bit01 (txin_eqb i i2) +++ ";" +++ bit01 (bytes_eqb (txin_bytes i) (txin_bytes i2))
                         +++ ";" +++ show_txin i2
              | Err => "ERR"
              | Panic => "PANIC"
              end in
  out3 impl "OK:1;1;*"
       (if negb (Nat.leb (cdepth (ser_txin i)) (limit Cbor)) then "nesting-exceeds-decoder-limit"
        else if txin_has_cb i then "coinbase-script-bit" else "-").

(* tx.cached_roundtrip: the sighash cache is filled (ALL|FORKID on input 0 fills all three slots) before serialising.
   Nothing of it reaches the encodings, a clone carries it, a decoded transaction starts with an empty cache. *)
Definition cached_side (f : fmt) (t : tx) : string :=
  match de_tx f (ser_tx t) with
  | Ok t2 => let sb := bytes_eqb (tx_bytes t) (tx_bytes t2) in "000" +++ bit01 (tx_eqb t2 t) +++ bit01 sb +++ bit01 sb
  | Err => "ERR"
  | Panic => "PANIC"
  end.
Definition run_cached (t : tx) : string :=
  let before := match inputs t with [] => "000" | _ => "111" end in
  let impl := "OK:" +++ before +++ ";1;111;" +++ cached_side Json t +++ ";" +++ cached_side Cbor t +++ ";" +++ cached_side Cbor t in
  out3 impl ("OK:" +++ before +++ ";1;111;000111;000111;000111")
       (if exceeds_limit Json (ser_tx t) || exceeds_limit Cbor (ser_tx t) then "nesting-exceeds-decoder-limit"
        else if tx_has_cb t then "coinbase-script-bit" else "-").

Definition show_de_tx (r : outcome tx) : string :=
  match r with Ok t => "OK:v;" +++ show_tx t | Err => "ERR" | Panic => "PANIC" end.

Definition with_tx (w e : string) (k : tx -> string) : string :=
  match get_tx w e with
  | AVal t => k t
  | ALibErr => out3 "ERR" "-" "-"
  | ALibPanic => out3 "PANIC" "-" "-"
  | ABad => "BADARG"
  end.
Definition with_txin (w e ix : string) (k : txin -> string) : string :=
  with_tx w e (fun t =>
    match N_of_dec ix with
    | Some n => if (n <? N.of_nat (length (inputs t)))%N then
                  match nth_error (inputs t) (N.to_nat n) with Some i => k i | None => "BADARG" end
                else "BADARG"
    | None => "BADARG"
    end).

Fixpoint all_ws (s : string) : bool :=
  match s with
  | EmptyString => true
  | String c r => let n := N_of_ascii c in ((n =? 32)%N || (n =? 10)%N || (n =? 13)%N || (n =? 9)%N) && all_ws r
  end.

Definition text_bytes (s : string) : string := show_bytes (bytes_of_string s).


(* tx.steps: one object through observe / mutate / observe sequences (see harness/src/ops_c18.rs) *)
Definition new_in : txin := mk_txin (repeat x77 32) 9 [BOp 82] 8 None None.
Definition new_out (v : N) : txout := mk_txout v [BOp 83].
Fixpoint set_nth {A} (n : nat) (x : A) (l : list A) : list A :=
  match l, n with
  | [], _ => []
  | _ :: r, O => x :: r
  | y :: r, S k => y :: set_nth k x r
  end.
Fixpoint insert_nth {A} (n : nat) (x : A) (l : list A) : list A :=
  match n, l with
  | O, _ => x :: l
  | S k, y :: r => y :: insert_nth k x r
  | S _, [] => [x]
  end.
Definition idx_val (s : string) : option (nat * string) :=
  match split ":" s with
  | i :: v :: r =>
      match N_of_dec i with
      | Some n => if (n <=? 100000)%N then Some (N.to_nat n, join ":" (v :: r)) else None
      | None => None
      end
  | _ => None
  end.
Definition dec_le (bound : N) (s : string) : option N :=
  match N_of_dec s with Some n => if (n <=? bound)%N then Some n else None | None => None end.
Definition u32max : N := 4294967295%N.

Inductive step_res := SOk (t : tx) (obs : option fmt) | SErr | SBad.
Definition upd_in (t : tx) (i : nat) (g : txin -> txin) : step_res :=
  match nth_error (inputs t) i with
  | Some x => SOk (mk_tx (version t) (set_nth i (g x) (inputs t)) (outputs t) (locktime t)) None
  | None => SBad
  end.
Definition step1 (t : tx) (st : string) : step_res :=
  match st with
  | "j" => SOk t (Some Json)
  | "c" => SOk t (Some Cbor)
  | "h" => SOk t None
  | "k" => SOk t None
  | "r" => match de_tx Json (ser_tx t) with Ok t2 => SOk t2 None | _ => SErr end
  | "R" => match de_tx Cbor (ser_tx t) with Ok t2 => SOk t2 None | _ => SErr end
  | "ai" => SOk (mk_tx (version t) (inputs t ++ [new_in]) (outputs t) (locktime t)) None
  | "pi" => SOk (mk_tx (version t) (new_in :: inputs t) (outputs t) (locktime t)) None
  | String "v" r | String "V" r =>
      match dec_le u32max r with Some n => SOk (mk_tx n (inputs t) (outputs t) (locktime t)) None | None => SBad end
  | String "l" r | String "L" r =>
      match dec_le u32max r with Some n => SOk (mk_tx (version t) (inputs t) (outputs t) n) None | None => SBad end
  | String "i" (String k r) =>
      match idx_val r with
      | None => SBad
      | Some (i, v) =>
          match k with
          | "q"%char => match dec_le u32max v with
                        | Some n => upd_in t i (fun x => mk_txin (prev_tx_id x) (vout x) (unlocking x) n (locking x) (satoshis x))
                        | None => SBad end
          | "o"%char => match dec_le u32max v with
                        | Some n => upd_in t i (fun x => mk_txin (prev_tx_id x) n (unlocking x) (sequence x) (locking x) (satoshis x))
                        | None => SBad end
          | "a"%char => match dec_le u64max v with
                        | Some n => upd_in t i (fun x => mk_txin (prev_tx_id x) (vout x) (unlocking x) (sequence x) (locking x) (Some n))
                        | None => SBad end
          | "p"%char => match expand v with
                        | Some bs => upd_in t i (fun x => mk_txin bs (vout x) (unlocking x) (sequence x) (locking x) (satoshis x))
                        | None => SBad end
          | "l"%char | "u"%char =>
              match expand v with
              | None => SBad
              | Some bs =>
                  match nth_error (inputs t) i with
                  | None => SBad
                  | Some _ =>
                      match from_bytes bs with
                      | Ok sc =>
                          if Ascii.eqb k "l"%char
                          then upd_in t i (fun x => mk_txin (prev_tx_id x) (vout x) (unlocking x) (sequence x) (Some sc) (satoshis x))
                          else upd_in t i (fun x => mk_txin (prev_tx_id x) (vout x) sc (sequence x) (locking x) (satoshis x))
                      | _ => SErr
                      end
                  end
              end
          | _ => SBad
          end
      end
  | String "n" (String "i" r) =>
      match N_of_dec r with
      | Some n => if (n <=? N.of_nat (length (inputs t)))%N
                  then SOk (mk_tx (version t) (insert_nth (N.to_nat n) new_in (inputs t)) (outputs t) (locktime t)) None else SBad
      | None => SBad
      end
  | String "a" (String "o" r) =>
      match dec_le u64max r with Some n => SOk (mk_tx (version t) (inputs t) (outputs t ++ [new_out n]) (locktime t)) None | None => SBad end
  | String "p" (String "o" r) =>
      match dec_le u64max r with Some n => SOk (mk_tx (version t) (inputs t) (new_out n :: outputs t) (locktime t)) None | None => SBad end
  | String "n" (String "o" r) =>
      match idx_val r with
      | Some (i, v) => match dec_le u64max v with
                       | Some n => if Nat.leb i (length (outputs t))
                                   then SOk (mk_tx (version t) (inputs t) (insert_nth i (new_out n) (outputs t)) (locktime t)) None else SBad
                       | None => SBad end
      | None => SBad
      end
  | String "s" (String "o" r) =>
      match idx_val r with
      | Some (i, v) => match dec_le u64max v with
                       | Some n => if Nat.ltb i (length (outputs t))
                                   then SOk (mk_tx (version t) (inputs t) (set_nth i (new_out n) (outputs t)) (locktime t)) None else SBad
                       | None => SBad end
      | None => SBad
      end
  | _ => SBad
  end.

(* returns impl, spec, known *)
Fixpoint run_steps (t : tx) (sts : list string) (impl spec known : string) : string :=
  match sts with
  | [] => out3 impl spec known
  | st :: r =>
      match step1 t st with
      | SBad => "BADARG"
      | SErr => out3 "ERR" "-" "-"
      | SOk t' None => run_steps t' r impl spec known
      | SOk t' (Some f) =>
          let text := match f with Json => text_bytes (json_of (ser_tx t')) | Cbor => show_bytes (cbor_of (ser_tx t')) end in
          let back := match de_tx f (ser_tx t') with
                      | Ok t2 => let sb := bit01 (bytes_eqb (tx_bytes t') (tx_bytes t2)) in show_tx t2 +++ ";" +++ sb +++ sb +++ ";000"
                      | _ => "ERR;--;---"
                      end in
          let k := if String.eqb known "nesting-exceeds-decoder-limit" then known
                   else if exceeds_limit f (ser_tx t') then "nesting-exceeds-decoder-limit"
                   else if tx_has_cb t' then "coinbase-script-bit" else known in
          run_steps t' r (impl +++ ";" +++ text +++ ";" +++ back) (spec +++ ";*;" +++ show_tx t' +++ ";11;000") k
      end
  end.

Definition run (op : string) (args : list string) : string :=
  match op, args with
  | "tx.json_roundtrip", [w; e] => with_tx w e (run_roundtrip Json)
  | "tx.cbor_roundtrip", [w; e] => with_tx w e (run_roundtrip Cbor)
  | "bits.json_roundtrip", [a] => match bits_arg a with Some s => run_roundtrip Json (bits_tx s) | None => "BADARG" end
  | "bits.cbor_roundtrip", [a] => match bits_arg a with Some s => run_roundtrip Cbor (bits_tx s) | None => "BADARG" end
  | "txin.cbor_roundtrip", [w; e; ix] => with_txin w e ix run_txin_roundtrip
  | "bits.txin_cbor_roundtrip", [a] =>
      match bits_arg a with
      | Some s => match inputs (bits_tx s) with i :: _ => run_txin_roundtrip i | [] => "BADARG" end
      | None => "BADARG"
      end
  | "tx.cached_roundtrip", [w; e] => with_tx w e run_cached
  | "tx.steps", [w; e; st] =>
      with_tx w e (fun t => if existsb (String.eqb "") (split "," st) then "BADARG" else run_steps t (split "," st) "OK:v" "OK:v" "-")
  | "bits.cached_roundtrip", [a] => match bits_arg a with Some s => run_cached (bits_tx s) | None => "BADARG" end
  (* the same value rebuilt through new / set_version / set_nlocktime / add_inputs / add_input / add_outputs /
     add_output / set_input / set_output: same model *)
  | "tx.built_json_roundtrip", [w; e] => with_tx w e (run_roundtrip Json)
  | "tx.built_cbor_roundtrip", [w; e] => with_tx w e (run_roundtrip Cbor)
  | "txout.json", [w; e; ix] =>
      with_tx w e (fun t =>
        match N_of_dec ix with
        | Some n => if (n <? N.of_nat (length (outputs t)))%N then
                      match nth_error (outputs t) (N.to_nat n) with
                      | Some o => out3 ("OK:v;" +++ text_bytes (json_pretty 0 (ser_txout o)) +++ ";" +++ text_bytes (json_value_of (ser_txout o))) "OK:v;*;*" "-"
                      | None => out3 "NONE" "-" "-"
                      end
                    else out3 "NONE" "-" "-"
        | None => "BADARG"
        end)
  | "tx.to_json", [w; e] =>
      with_tx w e (fun t => out3 ("OK:v;" +++ text_bytes (json_of (ser_tx t)) +++ ";" +++ text_bytes (json_value_of (ser_tx t))) "OK:v;*;*" "-")
  | "tx.to_cbor", [w; e] => with_tx w e (fun t => out3 ("OK:v;" +++ show_bytes (cbor_of (ser_tx t))) "OK:v;*" "-")
  | "txin.json", [w; e; ix] =>
      with_txin w e ix (fun i => out3 ("OK:v;" +++ text_bytes (json_pretty 0 (ser_txin i)) +++ ";" +++ text_bytes (json_value_of (ser_txin i))) "OK:v;*;*" "-")
  | "txin.to_cbor", [w; e; ix] => with_txin w e ix (fun i => out3 ("OK:v;" +++ show_bytes (cbor_of (ser_txin i))) "OK:v;*" "-")
  | "tx.de_json", [a] => match tree_arg a with Some c => out3 (show_de_tx (de_tx Json c)) "ERR~OK:v;*" "-" | None => "BADARG" end
  | "tx.de_cbor", [a] => match tree_arg a with Some c => out3 (show_de_tx (de_tx Cbor c)) "ERR~OK:v;*" "-" | None => "BADARG" end
  | "txin.de_cbor", [a] =>
      match tree_arg a with
      | Some c => out3 (match de_txin_top Cbor c with Ok i => "OK:v;" +++ show_txin i | Err => "ERR" | Panic => "PANIC" end) "ERR~OK:v;*" "-"
      | None => "BADARG"
      end
  | "tx.json_prefix", [w; e; k] =>
      with_tx w e (fun t =>
        match N_of_dec k with
        | Some n => if (n <? N.of_nat (slength (json_of (ser_tx t))))%N then out3 "ERR" "ERR~OK:v;*" "-"
                    else out3 (show_de_tx (de_tx Json (ser_tx t))) "ERR~OK:v;*" "-"
        | None => "BADARG"
        end)
  | "tx.cbor_prefix", [w; e; k] =>
      with_tx w e (fun t =>
        match N_of_dec k with
        | Some n => if (n <? N.of_nat (length (cbor_of (ser_tx t))))%N then out3 "ERR" "ERR~OK:v;*" "-"
                    else out3 (show_de_tx (de_tx Cbor (ser_tx t))) "ERR~OK:v;*" "-"
        | None => "BADARG"
        end)
  | "tx.json_trailing", [w; e; x] =>
      with_tx w e (fun t =>
        match expand x with
        | Some bs => if all_ws (string_of_bytes bs) then out3 (show_de_tx (de_tx Json (ser_tx t))) "ERR~OK:v;*" "-"
                     else out3 "ERR" "ERR~OK:v;*" "-"
        | None => "BADARG"
        end)
  | "tx.cbor_trailing", [w; e; x] =>
      with_tx w e (fun t =>
        match expand x with
        | Some _ => out3 (show_de_tx (de_tx Cbor (ser_tx t))) "ERR~OK:v;*" "-"
        | None => "BADARG"
        end)
  | "tx.from_json", [a] => match expand a with Some _ => out3 "OK:total" "OK:total" "-" | None => "BADARG" end
  | "tx.from_cbor", [a] => match expand a with Some _ => out3 "OK:total" "OK:total" "-" | None => "BADARG" end
  | _, _ => "BADOP"
  end.
