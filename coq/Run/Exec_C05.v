(* Run/Exec_C05.v — executable entry point of the C05 correspondence check (BigZ instance of the model).
   run op args = "<implementation model output>|<specification output>|-"
   ops (see harness/src/ops_c05.rs for the driver side):
     ecdsa.sign_det     key comp msg hash rk            -> OK:r;s;hdr;v;lows
     ecdsa.sign_message key comp msg                    -> OK:r;s;hdr;v;lows
     ecdsa.sign_k       key comp k msg hash [kcomp]     -> OK:r;s;hdr;v;lows   (kcomp: compression marker of the nonce key)
     ecdsa.privkey_from_k key comp k kcomp msg hash pubcomp -> OK:<d> | OK:E   (sign_with_k, then private_key_from_signature_k)
     ecdsa.cross signer key comp msg hash rk aux verifier key2 comp2 msg2 hash2 -> OK:v   (every way a signature is produced x
                        every verification entry point; accepted exactly for the same key, message and hash choice)
     ecdsa.verify_der   msg pub der hash               -> OK:v                (signature object without recovery info)
     ecdsa.sign_digest  key comp digest                 -> OK:r;s;hdr;v;lows
     ecdsa.sign_random  key comp msg hash rk entropy    -> OK:v;lows;range;rec   (entropy: used by the model only)
     ecdsa.sign_verify  key comp msg hash rk key2 comp2 msg2 hash2 -> OK:v
     ecdsa.verify_digest msg pub r s hash | ecdsa.verify_message msg pub r s | ecdsa.verify_hashbuf digest pub r s -> OK:v
     ecdh.derive key pub -> OK:<32 bytes>           ecdh.pair key1 comp1 key2 comp2 -> OK:<a>;<b>
   Specification column: the RFC 6979 reference signature (Spec/EcdsaSpec.v), "verifies" (v = 1), low-S (lows = 1);
   for sign_verify: 1 when key, message and hash are the same, otherwise not 1; for ecdh.pair: both sides equal
   x((d1*d2 mod n) G). *)
From BSV Require Import Base.Hex Prim.Num Prim.Secp256k1 Prim.Rfc6979 Model.HashApi Model.Ecdsa Model.Sig Spec.EcdsaSpec.
Local Open Scope Z_scope.

Definition FP := fast_prims.

Definition out3 (impl spec known : string) : string := impl +++ "|" +++ spec +++ "|" +++ known.
Definition render (o : outcome string) : string :=
  match o with Ok s => "OK:" +++ s | Err => "ERR" | Panic => "PANIC" end.
Definition hex32 (v : Z) : string := hex_of_bytes (be32 v).

Definition vres (o : outcome bool) : outcome string :=
  match o with Ok true => Ok "1" | Ok false => Ok "0" | Err => Ok "E" | Panic => Panic end.
Definition bit (b : bool) : string := if b then "1" else "0".

Definition hash_of (s : string) : option signing_hash :=
  match s with "sha256" => Some SHSha256 | "sha256d" => Some SHSha256d | _ => None end.
Definition is_double (h : signing_hash) : bool := match h with SHSha256d => true | SHSha256 => false end.
Definition flag_of (s : string) : option bool :=
  match s with "0" => Some false | "1" => Some true | _ => None end.

Definition key_of (kb : bytes) (c : bool) : outcome privkey :=
  omap (fun k => compress_public_key k c) (privkey_from_bytes kb).

Definition header_of (sg : signature) : string :=
  match to_compact_bytes sg None with h :: _ => dec_of_N (b2n h) | [] => "?" end.
Definition sig_fields (sg : signature) : string :=
  hex32 (sig_r sg) +++ ";" +++ hex32 (sig_s sg) +++ ";" +++ header_of sg.
Definition lows (sg : signature) : string := bit (sig_s sg <=? secp_n / 2).

(* a signature with given scalars, as the driver builds it: from_compact_bytes(27 || r || s) *)
Definition sig_of (r s : bytes) : outcome signature := from_compact_impl (x1b :: r ++ s).

Definition sign_out (sk : outcome privkey) (sign : privkey -> outcome signature)
           (verify : privkey -> signature -> outcome bool) : string :=
  render (do k <- sk; do sg <- sign k; do v <- vres (verify k sg);
          Ok (sig_fields sg +++ ";" +++ v +++ ";" +++ lows sg)).

(* the reference (r, s); the compact header must carry the SIGNER's compression marker (27/28 uncompressed,
   31/32 compressed: the recovery bit is left to the recovery ops of C06); verifies; low-S.
   Keys outside [1, n-1] cannot sign: ERR. *)
Definition spec_sig (valid_key : bool) (c : bool) (o : option (Z * Z)) : string :=
  if valid_key then
    match o with
    | Some (r, s) =>
        let rs := "OK:" +++ hex32 r +++ ";" +++ hex32 s +++ ";" in
        rs +++ (if c then "31" else "27") +++ ";1;1~" +++ rs +++ (if c then "32" else "28") +++ ";1;1"
    | None => "ERR"
    end
  else "ERR".

(* raw verification / recovery of arbitrary inputs: any verdict, but never a panic *)
Definition verdict_spec : string := "OK:1~OK:0~OK:E~ERR".

Definition valid_key (kb : bytes) : bool := Nat.eqb (length kb) 32 && in_scalar (be_Z kb).

Definition run_sign_det (kb : bytes) (c : bool) (msg : bytes) (h : signing_hash) (rk : bool) : string :=
  out3 (sign_out (key_of kb c)
          (fun k => sign_with_deterministic_k FP k msg h rk)
          (fun k sg => verify_digest FP msg (to_public_key FP k) sg h))
       (spec_sig (valid_key kb) c (spec_sign_det prim_sign_fast (be_Z kb) (is_double h) msg rk)) "-".

Definition run_sign_message (kb : bytes) (c : bool) (msg : bytes) : string :=
  out3 (sign_out (key_of kb c)
          (fun k => sign_message FP k msg)
          (fun k sg => Ok (verify_message FP sg msg (to_public_key FP k))))
       (spec_sig (valid_key kb) c (spec_sign_det prim_sign_fast (be_Z kb) false msg false)) "-".

(* kc: compression marker of the NONCE key; it must not influence anything (the marker of the result is the signer's) *)
Definition run_sign_k (kb : bytes) (c : bool) (nonce msg : bytes) (h : signing_hash) (kc : bool) : string :=
  out3 (render (do k <- key_of kb c; do e <- key_of nonce kc;
                do sg <- sign_with_k FP k e msg h;
                do v <- vres (verify_digest FP msg (to_public_key FP k) sg h);
                Ok (sig_fields sg +++ ";" +++ v +++ ";" +++ lows sg)))
       (spec_sig (valid_key kb && valid_key nonce) c (spec_sign_k prim_sign_fast (be_Z kb) (be_Z nonce) (is_double h) msg)) "-".

(* sign_with_k, then ECDSA::private_key_from_signature_k with the signer's public key in compression form pc *)
Definition run_privkey_from_k (kb : bytes) (c : bool) (nonce : bytes) (kc : bool) (msg : bytes) (h : signing_hash)
           (pc : bool) : string :=
  out3 (render (do k <- key_of kb c; do e <- key_of nonce kc;
                do sg <- sign_with_k FP k e msg h;
                match private_key_from_signature_k FP sinv_fast sg (to_public_key FP (compress_public_key k pc)) e msg h with
                | Ok p => Ok (hex32 (sk_d p))
                | Err => Ok "E"
                | Panic => Panic
                end))
       (if valid_key kb && valid_key nonce then "OK:" +++ hex32 (be_Z kb) +++ "~OK:E" else "ERR") "-".

(* a signature object without recovery info (Signature::from_der) through the verifier *)
Definition run_verify_der (m pkb der : bytes) (h : signing_hash) : string :=
  out3 (render (do pk <- pubkey_from_bytes FP pkb; do sg <- from_der_impl der; vres (verify_digest FP m pk sg h)))
       verdict_spec "-".

Definition run_sign_digest (kb : bytes) (c : bool) (digest : bytes) : string :=
  out3 (sign_out (key_of kb c)
          (fun k => sign_digest_with_deterministic_k FP k digest)
          (fun k sg => verify_hashbuf FP digest (to_public_key FP k) sg))
       (if Nat.eqb (length digest) 32 then spec_sig (valid_key kb) c (spec_sign_digest prim_sign_fast (be_Z kb) digest)
        else "ERR") "-".

Definition run_sign_random (kb : bytes) (c : bool) (msg : bytes) (h : signing_hash) (rk : bool) (entropy : bytes) : string :=
  out3 (render (do k <- key_of kb c;
                do sg <- sign_with_random_k FP k msg h rk entropy;
                let pk := to_public_key FP k in
                do v <- vres (verify_digest FP msg pk sg h);
                do rec <- match get_public_key FP sg msg h with
                          | Ok p => Ok (bit (bytes_eqb (pk_point p) (pk_point pk)))
                          | Err => Ok "E"
                          | Panic => Panic
                          end;
                Ok (v +++ ";" +++ lows sg +++ ";" +++ bit (sig_in_range secp_n (sig_r sg) (sig_s sg)) +++ ";" +++ rec)))
       (if valid_key kb then "OK:1;1;1;1" else "ERR") "-".

Definition run_sign_verify (kb : bytes) (c : bool) (msg : bytes) (h : signing_hash) (rk : bool)
           (kb2 : bytes) (c2 : bool) (msg2 : bytes) (h2 : signing_hash) : string :=
  out3 (render (do k <- key_of kb c; do k2 <- key_of kb2 c2;
                do sg <- sign_with_deterministic_k FP k msg h rk;
                vres (verify_digest FP msg2 (to_public_key FP k2) sg h2)))
       (if valid_key kb && valid_key kb2 then
          if bytes_eqb kb kb2 && bytes_eqb msg msg2 && Bool.eqb (is_double h) (is_double h2) then "OK:1" else "OK:E~OK:0"
        else "ERR") "-".

Definition run_verify (which : string) (m pkb r s : bytes) (h : signing_hash) : string :=
  out3 (render (do pk <- pubkey_from_bytes FP pkb; do sg <- sig_of r s;
                match which with
                | "digest" => vres (verify_digest FP m pk sg h)
                | "message" => vres (match verify_digest FP m pk sg SHSha256 with Ok b => Ok b | Err => Err | Panic => Panic end)
                | _ => vres (verify_hashbuf FP m pk sg)
                end)) verdict_spec "-".

(* ---- every way a signature is produced x every verification entry point ----
   signer: det | msg (PrivateKey::sign_message) | k (aux = nonce; rk = marker of the nonce key, irrelevant) |
           dig (sign_digest_with_deterministic_k on Hash::sha_256 / sha_256d of the message) | rnd (aux = the model's entropy) *)
Definition digest_bytes (h : signing_hash) (msg : bytes) : bytes :=
  match h with SHSha256 => sha_256 msg | SHSha256d => sha_256d msg end.
Definition is_signer (s : string) : bool :=
  existsb (String.eqb s) ["det"; "msg"; "k"; "dig"; "rnd"].
Definition produce (signer : string) (kb : bytes) (c : bool) (msg : bytes) (h : signing_hash) (rk : bool) (aux : bytes)
  : outcome (privkey * signature * signing_hash) :=
  do k <- key_of kb c;
  match signer with
  | "det" => do sg <- sign_with_deterministic_k FP k msg h rk; Ok (k, sg, h)
  | "msg" => do sg <- sign_message FP k msg; Ok (k, sg, SHSha256)
  | "k" => do e <- privkey_from_bytes aux; do sg <- sign_with_k FP k e msg h; Ok (k, sg, h)
  | "dig" => do sg <- sign_digest_with_deterministic_k FP k (digest_bytes h msg); Ok (k, sg, h)
  | _ => do sg <- sign_with_random_k FP k msg h rk aux; Ok (k, sg, h)
  end.
Definition produce_valid (signer : string) (kb aux : bytes) : bool :=
  valid_key kb && (if String.eqb signer "k" then valid_key aux else true).
Definition signed_hash (signer : string) (h : signing_hash) : signing_hash :=
  if String.eqb signer "msg" then SHSha256 else h.

(* verifier: vd ECDSA::verify_digest | vh ECDSA::verify_hashbuf on the digest of msg2 under hash2 |
             sm Signature::verify_message | pm PublicKey::verify_message | pv PublicKey::is_valid_message (SHA-256 by definition).
   Specification: accepted exactly when key, message and hash choice are those of the signature. *)
Definition is_verifier (s : string) : bool := existsb (String.eqb s) ["vd"; "vh"; "sm"; "pm"; "pv"].
Definition run_cross (signer : string) (kb : bytes) (c : bool) (msg : bytes) (h : signing_hash) (rk : bool) (aux : bytes)
           (verifier : string) (kb2 : bytes) (c2 : bool) (msg2 : bytes) (h2 : signing_hash) : string :=
  let hv := if String.eqb verifier "vd" || String.eqb verifier "vh" then h2 else SHSha256 in
  out3 (render (do p <- produce signer kb c msg h rk aux;
                let '(_, sg, _) := p in
                do k2 <- key_of kb2 c2;
                let pk2 := to_public_key FP k2 in
                match verifier with
                | "vd" => vres (verify_digest FP msg2 pk2 sg h2)
                | "vh" => vres (verify_hashbuf FP (digest_bytes h2 msg2) pk2 sg)
                | "pm" => vres (verify_digest FP msg2 pk2 sg SHSha256)
                | _ => Ok (bit (verify_message FP sg msg2 pk2))
                end))
       (if produce_valid signer kb aux && valid_key kb2 then
          if bytes_eqb kb kb2 && bytes_eqb msg msg2 && Bool.eqb (is_double (signed_hash signer h)) (is_double hv)
          then "OK:1" else "OK:E~OK:0"
        else "ERR") "-".

(* specification: the 32-byte big-endian x coordinate of d * Q for a valid key and a valid point encoding, else an error *)
Definition run_ecdh (kb pkb : bytes) : string :=
  out3 (render (do k <- privkey_from_bytes kb; do pk <- pubkey_from_bytes FP pkb;
                do sh <- derive_shared_key FP k pk; Ok (show_bytes sh)))
       (if valid_key kb then
          match sec1_decode_fast pkb with
          | Some Q => "OK:" +++ hex32 (xcoord (smul_fast (be_Z kb) Q))
          | None => "ERR"
          end
        else "ERR") "-".

Definition run_ecdh_pair (kb1 : bytes) (c1 : bool) (kb2 : bytes) (c2 : bool) : string :=
  out3 (render (do k1 <- key_of kb1 c1; do k2 <- key_of kb2 c2;
                do a <- derive_shared_key FP k1 (to_public_key FP k2);
                do b <- derive_shared_key FP k2 (to_public_key FP k1);
                Ok (show_bytes a +++ ";" +++ show_bytes b)))
       (if valid_key kb1 && valid_key kb2 then
          let x := hex32 (xcoord (pubkey_fast ((be_Z kb1 * be_Z kb2) mod secp_n))) in
          "OK:" +++ x +++ ";" +++ x
        else "ERR") "-".

Definition run (op : string) (args : list string) : string :=
  match op, args with
  | "ecdsa.sign_det", [k; c; m; h; rk] =>
      match expand k, flag_of c, expand m, hash_of h, flag_of rk with
      | Some kb, Some cb, Some mb, Some hh, Some rkb => run_sign_det kb cb mb hh rkb
      | _, _, _, _, _ => "BADARG"
      end
  | "ecdsa.sign_message", [k; c; m] =>
      match expand k, flag_of c, expand m with
      | Some kb, Some cb, Some mb => run_sign_message kb cb mb
      | _, _, _ => "BADARG"
      end
  | "ecdsa.sign_k", [k; c; n; m; h] =>
      match expand k, flag_of c, expand n, expand m, hash_of h with
      | Some kb, Some cb, Some nb, Some mb, Some hh => run_sign_k kb cb nb mb hh true
      | _, _, _, _, _ => "BADARG"
      end
  | "ecdsa.sign_k", [k; c; n; m; h; kc] =>
      match expand k, flag_of c, expand n, expand m, hash_of h, flag_of kc with
      | Some kb, Some cb, Some nb, Some mb, Some hh, Some kcb => run_sign_k kb cb nb mb hh kcb
      | _, _, _, _, _, _ => "BADARG"
      end
  | "ecdsa.privkey_from_k", [k; c; n; kc; m; h; pc] =>
      match expand k, flag_of c, expand n, flag_of kc, expand m, hash_of h, flag_of pc with
      | Some kb, Some cb, Some nb, Some kcb, Some mb, Some hh, Some pcb => run_privkey_from_k kb cb nb kcb mb hh pcb
      | _, _, _, _, _, _, _ => "BADARG"
      end
  | "ecdsa.cross", [sn; k; c; m; h; rk; aux; vf; k2; c2; m2; h2] =>
      match expand k, flag_of c, expand m, hash_of h, flag_of rk, expand aux with
      | Some kb, Some cb, Some mb, Some hh, Some rkb, Some ab =>
          match expand k2, flag_of c2, expand m2, hash_of h2 with
          | Some kb2, Some cb2, Some mb2, Some hh2 =>
              if is_signer sn && is_verifier vf then run_cross sn kb cb mb hh rkb ab vf kb2 cb2 mb2 hh2 else "BADARG"
          | _, _, _, _ => "BADARG"
          end
      | _, _, _, _, _, _ => "BADARG"
      end
  | "ecdsa.verify_der", [m; p; d; h] =>
      match expand m, expand p, expand d, hash_of h with
      | Some mb, Some pb, Some db, Some hh => run_verify_der mb pb db hh
      | _, _, _, _ => "BADARG"
      end
  | "ecdsa.sign_digest", [k; c; d] =>
      match expand k, flag_of c, expand d with
      | Some kb, Some cb, Some db => run_sign_digest kb cb db
      | _, _, _ => "BADARG"
      end
  | "ecdsa.sign_random", [k; c; m; h; rk; e] =>
      match expand k, flag_of c, expand m, hash_of h, flag_of rk, expand e with
      | Some kb, Some cb, Some mb, Some hh, Some rkb, Some eb => run_sign_random kb cb mb hh rkb eb
      | _, _, _, _, _, _ => "BADARG"
      end
  | "ecdsa.sign_verify", [k; c; m; h; rk; k2; c2; m2; h2] =>
      match expand k, flag_of c, expand m, hash_of h, flag_of rk with
      | Some kb, Some cb, Some mb, Some hh, Some rkb =>
          match expand k2, flag_of c2, expand m2, hash_of h2 with
          | Some kb2, Some cb2, Some mb2, Some hh2 => run_sign_verify kb cb mb hh rkb kb2 cb2 mb2 hh2
          | _, _, _, _ => "BADARG"
          end
      | _, _, _, _, _ => "BADARG"
      end
  | "ecdsa.verify_digest", [m; p; r; s; h] =>
      match expand m, expand p, expand r, expand s, hash_of h with
      | Some mb, Some pb, Some rb, Some sb, Some hh => run_verify "digest" mb pb rb sb hh
      | _, _, _, _, _ => "BADARG"
      end
  | "ecdsa.verify_message", [m; p; r; s] =>
      match expand m, expand p, expand r, expand s with
      | Some mb, Some pb, Some rb, Some sb => run_verify "message" mb pb rb sb SHSha256
      | _, _, _, _ => "BADARG"
      end
  | "ecdsa.verify_hashbuf", [m; p; r; s] =>
      match expand m, expand p, expand r, expand s with
      | Some mb, Some pb, Some rb, Some sb => run_verify "hashbuf" mb pb rb sb SHSha256
      | _, _, _, _ => "BADARG"
      end
  | "ecdh.derive", [k; p] =>
      match expand k, expand p with
      | Some kb, Some pb => run_ecdh kb pb
      | _, _ => "BADARG"
      end
  | "ecdh.pair", [k1; c1; k2; c2] =>
      match expand k1, flag_of c1, expand k2, flag_of c2 with
      | Some kb1, Some cb1, Some kb2, Some cb2 => run_ecdh_pair kb1 cb1 kb2 cb2
      | _, _, _, _ => "BADARG"
      end
  | _, _ => "BADOP"
  end.
