(* Run/Exec_C10.v — executable entry point of the C10 correspondence check: the ops (tx.sighash with the
   legacy flags, script.rm_codesep) are served by Run/Exec_C03.v, which holds both specifications. *)
From BSV Require Import Base.Hex Run.Exec_C03.
Definition run (op : string) (args : list string) : string := Exec_C03.run op args.
