(* Run/Exec_C13.v — executable entry point of the C13 correspondence check.
   run op args = "<implementation model output>|<specification output>|-"
   ops:  hash.<fn> msg            hmac.<fn> msg key          kdf.pbkdf2 pw salt algo rounds len
         kdf.pbkdf2_random pw algo rounds len
         digest.chunked adapter mode chunk...     (mode: n | r<k> = reverse() taken after k chunks)
         digest.reset adapter mode k chunk...     (finalize_fixed_reset after k chunks, then the rest)
         digest.get algo reverse preimage         (get_hash_digest, optional reverse(), finalize)
         hmac.chunked digest key chunk...         (hmac::Hmac<D> fed in pieces; D = any of the seven digests)
         kdf.mnemonic mnemonic flag passphrase    (ExtendedPrivateKey::from_mnemonic: private key; chain code)
         kdf.seed seed                            (ExtendedPrivateKey::from_seed: private key; chain code)
         kdf.pbkdf2_impl pw salt algo rounds len  (KDF::pbkdf2_impl called directly)
         kdf.mnemonic_route mnemonic flag pass    (driver compares from_mnemonic with from_seed (KDF::pbkdf2 (mnemonic as given) salt SHA512 2048 64))
         kdf.mnemonic_kat m/flag/pass/priv/chain  (one argument; quick-tier known answer, see run_mnemonic_kat)
         digest.oneshot adapter msg               (D::digest(msg); output size; block size)
         digest.seq adapter start step...         (any interleaving of the adapter's entry points, see run_seq) *)
From BSV Require Import Base.Hex Prim.MD Prim.Hmac Prim.Pbkdf2 Spec.HashSpec Model.HashApi.

Definition out3 (impl spec known : string) : string := impl +++ "|" +++ spec +++ "|" +++ known.
Definition ok (b : bytes) : string := "OK:" +++ show_bytes b.

Definition hash_of_name (s : string) : option hash_id :=
  match s with
  | "sha1" => Some HSha1 | "sha256" => Some HSha256 | "sha256d" => Some HSha256d
  | "sha512" => Some HSha512 | "ripemd160" => Some HRipemd160 | "hash160" => Some HHash160
  | _ => None
  end.

Definition impl_hash (h : hash_id) : bytes -> bytes :=
  match h with
  | HSha1 => sha_1 | HSha256 => sha_256 | HSha256d => sha_256d
  | HSha512 => sha_512 | HRipemd160 => ripemd_160 | HHash160 => hash_160
  end.

(* API argument order: (input, key) *)
Definition impl_hmac (h : hash_id) : bytes -> bytes -> bytes :=
  match h with
  | HSha1 => sha_1_hmac | HSha256 => sha_256_hmac | HSha256d => sha_256d_hmac
  | HSha512 => sha_512_hmac | HRipemd160 => ripemd_160_hmac | HHash160 => hash_160_hmac
  end.

(* second field: Hash::to_hex() of the same value (lower-case hex text) *)
Definition run_hash (h : hash_id) (m : bytes) : string :=
  out3 (ok (impl_hash h m) +++ ";" +++ hex_of_bytes (impl_hash h m))
       (ok (hash_spec h m) +++ ";" +++ hex_of_bytes (hash_spec h m)) "-".

Definition run_hmac (h : hash_id) (input key : bytes) : string :=
  out3 (ok (impl_hmac h input key)) (ok (hmac_spec h key input)) "-".

Definition algo_of_name (s : string) : option (pbkdf2_hashes * hash_id) :=
  match s with
  | "sha1" => Some (PSHA1, HSha1) | "sha256" => Some (PSHA256, HSha256) | "sha512" => Some (PSHA512, HSha512)
  | _ => None
  end.

(* the driver is built with overflow checks in the dev profile *)
Definition run_pbkdf2 (a : pbkdf2_hashes * hash_id) (pw salt : bytes) (rounds len : N) : string :=
  if (1048576 <? len)%N then out3 "TOOBIG" "-" "-" else   (* never build a huge unary nat *)
  let impl := match pbkdf2_impl true pw salt (fst a) rounds (N.to_nat len) with
              | Ok k => ok (kdf_hash k) +++ ";" +++ show_bytes (kdf_salt k)
              | Err => "ERR" | Panic => "PANIC" end in
  let spec := ok (pbkdf2_spec (snd a) pw salt rounds (N.to_nat len)) +++ ";" +++ show_bytes salt in
  out3 impl spec "-".

(* random salt: the driver reports  OK:<salt length>;<salt is B64 text>;<hash = pbkdf2 with that salt> *)
Definition run_pbkdf2_random : string := out3 "OK:22;1;1" "OK:22;1;1" "-".

(* from_mnemonic / from_seed: PBKDF2-HMAC-SHA512 (2048 rounds, 64 bytes) and HMAC-SHA512 keyed "Bitcoin seed".
   The specification side uses the salt the code uses (see Model/HashApi.v, mnemonic_salt). *)
Definition show_keys (r : outcome (bytes * bytes)) : string :=
  match r with
  | Ok (k, c) => "OK:" +++ hex_of_bytes k +++ ";" +++ hex_of_bytes c
  | Err => "ERR" | Panic => "PANIC"
  end.
Definition spec_keys (seed : bytes) : string :=
  let i := hmac_spec HSha512 (bytes_of_string "Bitcoin seed") seed in
  let v := be_val (firstn 32 i) in
  if (v =? 0)%N || (secp256k1_n <=? v)%N then "ERR"
  else "OK:" +++ hex_of_bytes (firstn 32 i) +++ ";" +++ hex_of_bytes (skipn 32 i).
Definition run_seed (seed : bytes) : string := out3 (show_keys (from_seed_keys seed)) (spec_keys seed) "-".
Definition run_mnemonic (m : bytes) (pass : option bytes) : string :=
  out3 (show_keys (from_mnemonic_keys true m pass))
       (spec_keys (pbkdf2_spec HSha512 m (mnemonic_salt pass) 2048 64)) "-".

(* kdf.mnemonic_route: in the model from_mnemonic_keys IS from_seed_keys after pbkdf2_impl on the bytes as given
   (Model/HashApi.v, mnemonic_seed / from_mnemonic_keys; lemma mnemonic_seed_spec), for every argument, so the two
   equalities the driver evaluates on the library hold by definition: the output is constant.  The 2048-round
   evaluation in Gallina itself is op kdf.mnemonic (thorough tier). *)
Definition run_mnemonic_route : string := out3 "OK:1;1" "OK:1;1" "-".

(* kdf.mnemonic_kat: 2048 rounds of HMAC-SHA512 cost about two minutes under vm_compute, so in the quick tier the
   implementation column is "*" (not evaluated) and the specification column is the value the generator computed with
   an independent implementation (python hashlib: PBKDF2-HMAC-SHA512 over the mnemonic bytes as given, salt as
   mnemonic_salt, then HMAC-SHA512 keyed "Bitcoin seed"), passed in the argument.  The same inputs go through
   kdf.mnemonic (Gallina) in the thorough tier. *)
Definition run_mnemonic_kat (arg : string) : string :=
  match split "/" arg with
  | [m; flag; pass; k; c] =>
      match expand m, expand pass, bytes_of_hex k, bytes_of_hex c with
      | Some _, Some _, Some kb, Some cb =>
          if (String.eqb flag "0" || String.eqb flag "1") && Nat.eqb (length kb) 32 && Nat.eqb (length cb) 32
          then out3 "*" ("OK:" +++ hex_of_bytes kb +++ ";" +++ hex_of_bytes cb) "-"
          else "BADARG"
      | _, _, _, _ => "BADARG"
      end
  | _ => "BADARG"
  end.

(* ------------------------------------------------------------------ *)
Definition adapter_of_name (s : string) : option (adapter_kind * hash_id) :=
  match s with
  | "sha256d" => Some (ASha256d, HSha256d) | "sha256r" => Some (ASha256r, HSha256) | "hash160" => Some (AHash160, HHash160)
  | _ => None
  end.

(* mode: "n" -> None, "r<k>" -> Some k *)
Definition mode_of (s : string) : option (option nat) :=
  match s with
  | "n" => Some None
  | String "r" k => match N_of_dec k with Some n => Some (Some (N.to_nat (N.min n 1000))) | None => None end
  | _ => None
  end.

Fixpoint expand_list (l : list string) : option (list bytes) :=
  match l with
  | [] => Some []
  | d :: r => match expand d, expand_list r with Some a, Some b => Some (a :: b) | _, _ => None end
  end.

(* feed chunks, taking reverse() after k of them (k beyond the end: after all) *)
Fixpoint feed (a : adapter) (rv : option nat) (chunks : list bytes) : adapter :=
  match rv, chunks with
  | Some O, _ => fold_left ad_update chunks (ad_reverse a)
  | Some (S k), c :: r => feed (ad_update a c) (Some k) r
  | Some (S _), [] => ad_reverse a
  | None, _ => fold_left ad_update chunks a
  end.

Definition maybe_rev (rv : option nat) (b : bytes) : bytes := match rv with Some _ => rev b | None => b end.

Definition run_chunked (k : adapter_kind * hash_id) (rv : option nat) (chunks : list bytes) : string :=
  out3 (ok (ad_finalize (fst k) (feed ad_new rv chunks)))
       (ok (maybe_rev rv (hash_spec (snd k) (List.concat chunks)))) "-".

(* reverse (if any) is taken first; finalize_fixed_reset after n chunks; then the remaining chunks; finalize *)
Definition run_reset (k : adapter_kind * hash_id) (rv : option nat) (n : nat) (chunks : list bytes) : string :=
  let a0 := match rv with Some _ => ad_reverse ad_new | None => ad_new end in
  let '(out1, a1) := d_finalize_reset (adapter_impl (fst k)) (fold_left ad_update (firstn n chunks) a0) in
  let out2 := ad_finalize (fst k) (fold_left ad_update (skipn n chunks) a1) in
  out3 (ok out1 +++ ";" +++ show_bytes out2)
       (ok (maybe_rev rv (hash_spec (snd k) (List.concat (firstn n chunks)))) +++ ";" +++
        show_bytes (maybe_rev rv (hash_spec (snd k) (List.concat (skipn n chunks))))) "-".

Definition run_get (algo : string) (reverse : string) (m : bytes) : string :=
  match (match algo with "sha256" => Some (SHSha256, HSha256) | "sha256d" => Some (SHSha256d, HSha256d) | _ => None end),
        (match reverse with "0" => Some None | "1" => Some (Some O) | _ => None end) with
  | Some (sh, h), Some rv =>
      let a := get_hash_digest sh m in
      let a := match rv with Some _ => ad_reverse a | None => a end in
      out3 (ok (ad_finalize ASha256r a)) (ok (maybe_rev rv (hash_spec h m))) "-"
  | _, _ => "BADARG"
  end.

(* digest.seq: start = d (Default) | t / f (Hash160::new(true/false)) | g0=<preimage> / g1=<preimage>
   (get_hash_digest(Sha256 / Sha256d, preimage), adapter sha256r only);
   steps: u=<data> Update::update   h=<data> Digest::chain
          r reverse()   x Reset::reset   c clone().finalize_fixed() (prints)
          f finalize_fixed_reset (prints)   i finalize_into_reset (prints)   g Digest::finalize_reset (prints)
   and a final finalize_fixed (prints).  Output: OK:<out>;<out>;...                                          *)
Inductive seq_step := SUpd (d : bytes) | SRev | SReset | SClone | SFinReset.

Definition step_of (s : string) : option seq_step :=
  match split "=" s with
  | [c; d] => if String.eqb c "u" || String.eqb c "h"
              then match expand d with Some b => Some (SUpd b) | None => None end else None
  | ["r"] => Some SRev | ["x"] => Some SReset | ["c"] => Some SClone
  | ["f"] => Some SFinReset | ["i"] => Some SFinReset | ["g"] => Some SFinReset
  | _ => None
  end.
Fixpoint steps_of (l : list string) : option (list seq_step) :=
  match l with
  | [] => Some []
  | s :: r => match step_of s, steps_of r with Some a, Some b => Some (a :: b) | _, _ => None end
  end.

(* implementation model: the adapter state machine of Model/HashApi.v *)
Fixpoint impl_seq (k : adapter_kind) (a : adapter) (steps : list seq_step) : list bytes :=
  match steps with
  | [] => [ad_finalize k a]
  | SUpd d :: r => impl_seq k (ad_update a d) r
  | SRev :: r => impl_seq k (ad_reverse a) r
  | SReset :: r => impl_seq k (ad_reset a) r
  | SClone :: r => ad_finalize k a :: impl_seq k a r
  | SFinReset :: r => let '(o, a') := d_finalize_reset (adapter_impl k) a in o :: impl_seq k a' r
  end.

(* specification: the published function of everything absorbed since the last reset, reversed iff
   reverse() was ever taken *)
Fixpoint spec_seq (h : hash_id) (buf : bytes) (rv : bool) (steps : list seq_step) : list bytes :=
  let out := if rv then rev (hash_spec h buf) else hash_spec h buf in
  match steps with
  | [] => [out]
  | SUpd d :: r => spec_seq h (buf ++ d) rv r
  | SRev :: r => spec_seq h buf true r
  | SReset :: r => spec_seq h [] rv r
  | SClone :: r => out :: spec_seq h buf rv r
  | SFinReset :: r => out :: spec_seq h [] rv r
  end.

Fixpoint show_outs (l : list bytes) : string :=
  match l with [] => "" | [x] => show_bytes x | x :: r => show_bytes x +++ ";" +++ show_outs r end.

(* start state: (model adapter, spec buffer, spec flag) *)
Definition start_of (k : adapter_kind) (s : string) : option (adapter * bytes * bool) :=
  match split "=" s, k with
  | ["d"], _ => Some (ad_new, [], false)
  | ["t"], AHash160 => Some (ad_new_rev true, [], true)
  | ["f"], AHash160 => Some (ad_new_rev false, [], false)
  | ["g0"; d], ASha256r => match expand d with Some m => Some (get_hash_digest SHSha256 m, m, false) | None => None end
  | ["g1"; d], ASha256r => match expand d with Some m => Some (get_hash_digest SHSha256d m, hash_spec HSha256 m, false) | None => None end
  | _, _ => None
  end.

Definition run_seq (k : adapter_kind * hash_id) (st : adapter * bytes * bool) (steps : list seq_step) : string :=
  let '(a, buf, rv) := st in
  out3 ("OK:" +++ show_outs (impl_seq (fst k) a steps)) ("OK:" +++ show_outs (spec_seq (snd k) buf rv steps)) "-".

Definition run_oneshot (k : adapter_kind * hash_id) (m : bytes) : string :=
  let sizes := ";" +++ dec_of_N (N.of_nat (hash_len (snd k))) +++ ";" +++ dec_of_N (N.of_nat (d_block (adapter_impl (fst k)))) in
  out3 (ok (d_digest (adapter_impl (fst k)) m) +++ sizes) (ok (hash_spec (snd k) m) +++ sizes) "-".

(* hmac::Hmac<D> driven directly, message in pieces *)
Definition digest_of_name (s : string) : option (digest_impl * hash_id) :=
  match s with
  | "sha1" => Some (engine_impl ESha1, HSha1) | "sha256" => Some (engine_impl ESha256, HSha256)
  | "sha512" => Some (engine_impl ESha512, HSha512) | "ripemd160" => Some (engine_impl ERipemd160, HRipemd160)
  | "sha256d" => Some (adapter_impl ASha256d, HSha256d) | "sha256r" => Some (adapter_impl ASha256r, HSha256)
  | "hash160" => Some (adapter_impl AHash160, HHash160)
  | _ => None
  end.

Definition run_hmac_chunked (d : digest_impl * hash_id) (key : bytes) (chunks : list bytes) : string :=
  out3 (ok (crate_hmac_finalize (fold_left crate_hmac_update chunks (crate_hmac_new (fst d) key))))
       (ok (hmac_spec (snd d) key (List.concat chunks))) "-".

Definition after_dot (s : string) : string :=
  match split "." s with [_; f] => f | _ => "" end.
Definition before_dot (s : string) : string :=
  match split "." s with p :: _ => p | [] => "" end.

Definition run (op : string) (args : list string) : string :=
  match before_dot op, args with
  | "hash", [m] =>
      match hash_of_name (after_dot op), expand m with
      | Some h, Some mb => run_hash h mb
      | None, _ => "BADOP" | _, _ => "BADARG"
      end
  | "hmac", a :: b :: rest =>
      if String.eqb (after_dot op) "chunked" then
        match digest_of_name a, expand b, expand_list rest with
        | Some d, Some key, Some chunks => run_hmac_chunked d key chunks
        | _, _, _ => "BADARG"
        end
      else
        match hash_of_name (after_dot op), expand a, expand b, rest with
        | Some h, Some input, Some key, [] => run_hmac h input key
        | None, _, _, _ => "BADOP" | _, _, _, _ => "BADARG"
        end
  | "kdf", _ =>
      match after_dot op, args with
      | "pbkdf2", [pw; salt; algo; rounds; len]
      | "pbkdf2_impl", [pw; salt; algo; rounds; len] =>
          match expand pw, expand salt, algo_of_name algo, N_of_dec rounds, N_of_dec len with
          | Some p, Some s, Some a, Some r, Some l => run_pbkdf2 a p s r l
          | _, _, _, _, _ => "BADARG"
          end
      | "mnemonic_route", [m; flag; pass] =>
          match expand m, flag, expand pass with
          | Some _, "0", Some _ | Some _, "1", Some _ => run_mnemonic_route
          | _, _, _ => "BADARG"
          end
      | "mnemonic_kat", [a] => run_mnemonic_kat a
      | "seed", [seed] => match expand seed with Some sd => run_seed sd | None => "BADARG" end
      | "mnemonic", [m; flag; pass] =>
          match expand m, flag, expand pass with
          | Some mb, "0", Some _ => run_mnemonic mb None
          | Some mb, "1", Some pb => run_mnemonic mb (Some pb)
          | _, _, _ => "BADARG"
          end
      | "pbkdf2_random", [pw; algo; rounds; len] =>
          match expand pw, algo_of_name algo, N_of_dec rounds, N_of_dec len with
          | Some _, Some _, Some _, Some _ => run_pbkdf2_random
          | _, _, _, _ => "BADARG"
          end
      | _, _ => "BADOP"
      end
  | "digest", _ =>
      match after_dot op, args with
      | "chunked", ad :: mode :: chunks =>
          match adapter_of_name ad, mode_of mode, expand_list chunks with
          | Some k, Some rv, Some cs => run_chunked k rv cs
          | _, _, _ => "BADARG"
          end
      | "reset", ad :: mode :: n :: chunks =>
          match adapter_of_name ad, mode_of mode, N_of_dec n, expand_list chunks with
          | Some k, Some rv, Some n', Some cs => run_reset k rv (N.to_nat (N.min n' 1000)) cs
          | _, _, _, _ => "BADARG"
          end
      | "oneshot", [ad; m] =>
          match adapter_of_name ad, expand m with
          | Some k, Some mb => run_oneshot k mb
          | _, _ => "BADARG"
          end
      | "seq", ad :: start :: steps =>
          match adapter_of_name ad with
          | Some k => match start_of (fst k) start, steps_of steps with
                      | Some st, Some ss => run_seq k st ss
                      | _, _ => "BADARG"
                      end
          | None => "BADARG"
          end
      | "get", [algo; reverse; m] =>
          match expand m with Some mb => run_get algo reverse mb | None => "BADARG" end
      | _, _ => "BADOP"
      end
  | _, _ => "BADOP"
  end.
