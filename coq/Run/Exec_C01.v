(* Run/Exec_C01.v — executable entry point of the C01 correspondence check.
   run op args = "<implementation model output>|<specification output>|<known-finding class or ->"
   <impl> is computed from Model/Tx.v + Model/VarInt.v + Model/Script.v (transcription of the Rust code);
   <spec> only from Spec/TxWire.v (independent wire decoder/encoder), Spec/ScriptTok.v (C02's independent
   script tokenizer: which byte strings are scripts) and Prim/Sha256.v. *)
From BSV Require Import Base.Hex Model.Opcodes Model.Script Model.VarInt Model.Tx Model.TxExt Spec.ScriptTok Spec.TxWire Prim.Sha256.

Definition out3 (impl spec known : string) : string := impl +++ "|" +++ spec +++ "|" +++ known.
Definition sha256d (m : bytes) : bytes := sha256 (sha256 m).
Definition bit01 (b : bool) : string := if b then "1" else "0".

(* long per-item listings are compared as (length, checksum of the ASCII text); the driver does the same *)
Definition show_long (s : string) : string :=
  if Nat.leb (slength s) 2048 then s
  else let '(a, b) := fletcher (bytes_of_string s) 1 0 in
       "#" +++ dec_of_N (N.of_nat (slength s)) +++ ":" +++ dec_of_N (b * 65536 + a)%N.

Fixpoint cat_map {A} (f : A -> string) (l : list A) : string :=
  match l with [] => "" | x :: r => f x +++ cat_map f r end.

(* ------------------------------------------------------------------ *)
(* implementation side *)
(* The driver also evaluates consistency flags on the real objects (each must be 1):
   input:  Some(false) = None for get_prev_tx_id / get_outpoint_bytes; every *_hex getter and to_hex = hex of the
           bytes getter; get_prev_tx_id(Some(true)) = reversed id; no satoshis / locking script on a parsed or
           plainly built input; get_finalised_script = unlocking script; clone = self
   output: get_script_pub_key_hex = hex of the script bytes; to_hex = hex(to_bytes); clone = self
   tx:     to_hex = hex(to_bytes); from_hex (lower and upper case) = from_bytes; get_id_bytes = bytes of get_id_hex;
           clone = self; get_input(nin) = get_output(nout) = None; satoshis_in() = None *)
Definition in_flags : string := "111111".
Definition out_flags : string := "111".
(* sequence big-endian (get_sequence_as_bytes), get_unlocking_script_size, outpoint with None and with Some(true) *)
Definition in_extra_impl (i : txin) : string :=
  hex_of_bytes (u32_be_bytes (sequence i)) +++ "," +++ dec_of_N (txin_unlocking_script_size i) +++ ","
  +++ hex_of_bytes (txin_outpoint i None) +++ "," +++ hex_of_bytes (txin_outpoint i (Some true)) +++ "," +++ in_flags.
(* get_satoshis_as_bytes (big-endian), get_script_pub_key_size *)
Definition out_extra_impl (o : txout) : string :=
  hex_of_bytes (u64_be_bytes (value o)) +++ "," +++ dec_of_N (N.of_nat (length (to_bytes (script_pub_key o)))) +++ "," +++ out_flags.
Definition show_in_impl (i : txin) : string :=
  hex_of_bytes (prev_tx_id i) +++ "," +++ dec_of_N (vout i) +++ "," +++ show_bytes (to_bytes (unlocking i)) +++ ","
  +++ dec_of_N (sequence i) +++ "," +++ bit01 (is_coinbase_outpoint (prev_tx_id i) (vout i)) +++ ","
  +++ in_extra_impl i +++ "/".
Definition show_out_impl (o : txout) : string :=
  dec_of_N (value o) +++ "," +++ show_bytes (to_bytes (script_pub_key o)) +++ "," +++ out_extra_impl o +++ "/".
Definition show_sat (r : outcome N) : string :=
  match r with Ok n => dec_of_N n | Err => "ERR" | Panic => "PANIC" end.

(* `ib` = tx_bytes t and `ih` = its double hash are supplied by the caller (computed once) *)
Definition show_tx_impl (t : tx) (ib ih : bytes) : string :=
  show_bytes ib +++ ";" +++ hex_of_bytes (rev ih) +++ ";" +++ dec_of_N (tx_size t) +++ ";"
  +++ dec_of_N (version t) +++ ";" +++ dec_of_N (locktime t) +++ ";"
  +++ dec_of_N (N.of_nat (length (inputs t))) +++ ";" +++ dec_of_N (N.of_nat (length (outputs t))) +++ ";"
  +++ show_long (cat_map show_in_impl (inputs t)) +++ ";" +++ show_long (cat_map show_out_impl (outputs t)) +++ ";"
  +++ show_long (cat_map (fun o => hex_of_bytes o +++ "/") (tx_outpoints t)) +++ ";"
  +++ show_sat (satoshis_out true t) +++ ";" +++ bit01 (tx_is_coinbase t) +++ ";"
  +++ hex_of_bytes (u32_be_bytes (locktime t)) +++ ";"
  +++ "11111" +++ bit01 (match satoshis_in true t with Ok None => true | _ => false end).

Definition show_txin_impl (i : txin) : string :=
  show_bytes (txin_bytes i) +++ ";" +++ hex_of_bytes (prev_tx_id i) +++ ";" +++ dec_of_N (vout i) +++ ";"
  +++ show_bytes (to_bytes (unlocking i)) +++ ";" +++ dec_of_N (sequence i) +++ ";"
  +++ bit01 (is_coinbase_outpoint (prev_tx_id i) (vout i)) +++ ";"
  +++ hex_of_bytes (txin_outpoint_bytes i true) +++ ";" +++ hex_of_bytes (txin_outpoint_bytes i false) +++ ";"
  +++ hex_of_bytes (u32_be_bytes (sequence i)) +++ ";" +++ dec_of_N (txin_unlocking_script_size i) +++ ";" +++ in_flags.

(* ------------------------------------------------------------------ *)
(* specification side: which raw scripts are scripts (C02's independent tokenizer + balance automaton) *)
Inductive sclass := SGood | STrunc | SBad.
Definition classify (s : bytes) : sclass :=
  match tokenize_spec s with
  | TokOk ts => if balanced ts then SGood else SBad
  | TokTruncDirect => STrunc
  | TokBad => SBad
  end.
Definition join_class (a b : sclass) : sclass :=
  match a, b with SBad, _ | _, SBad => SBad | STrunc, _ | _, STrunc => STrunc | _, _ => SGood end.
Definition in_class (i : in_fields) : sclass := if null_outpoint i then SGood else classify (f_script i).
Definition fields_class (f : tx_fields) : sclass :=
  fold_right (fun i c => join_class (in_class i) c)
             (fold_right (fun o c => join_class (classify (f_pk o)) c) SGood (f_outs f)) (f_ins f).

Definition show_in_spec (i : in_fields) : string :=
  hex_of_bytes (f_prev i) +++ "," +++ dec_of_N (f_vout i) +++ "," +++ show_bytes (f_script i) +++ ","
  +++ dec_of_N (f_seq i) +++ "," +++ bit01 (null_outpoint i) +++ ","
  +++ hex_of_bytes (be_bytes 4 (f_seq i)) +++ "," +++ dec_of_N (N.of_nat (length (f_script i))) +++ ","
  +++ hex_of_bytes (f_prev i ++ le_bytes 4 (f_vout i)) +++ "," +++ hex_of_bytes (spec_outpoint i) +++ "," +++ in_flags +++ "/".
Definition show_out_spec (o : out_fields) : string :=
  dec_of_N (f_value o) +++ "," +++ show_bytes (f_pk o) +++ ","
  +++ hex_of_bytes (be_bytes 8 (f_value o)) +++ "," +++ dec_of_N (N.of_nat (length (f_pk o))) +++ "," +++ out_flags +++ "/".

(* `h` is the double hash of `enc`, supplied by the caller so that it is computed once when the model's
   re-serialisation and the specified one are the same byte string *)
Definition show_tx_spec (enc : bytes) (h : bytes) (f : tx_fields) : string :=
  show_bytes enc +++ ";" +++ hex_of_bytes (rev h) +++ ";" +++ dec_of_N (N.of_nat (length enc)) +++ ";"
  +++ dec_of_N (f_version f) +++ ";" +++ dec_of_N (f_locktime f) +++ ";"
  +++ dec_of_N (N.of_nat (length (f_ins f))) +++ ";" +++ dec_of_N (N.of_nat (length (f_outs f))) +++ ";"
  +++ show_long (cat_map show_in_spec (f_ins f)) +++ ";" +++ show_long (cat_map show_out_spec (f_outs f)) +++ ";"
  +++ show_long (cat_map (fun o => hex_of_bytes o +++ "/") (spec_outpoints f)) +++ ";"
  +++ dec_of_N (spec_total_out f) +++ ";" +++ bit01 (spec_is_coinbase f) +++ ";"
  +++ hex_of_bytes (be_bytes 4 (f_locktime f)) +++ ";" +++ "111111".

Definition u64lim : N := 18446744073709551616%N.

Definition run_tx_parse (bs : bytes) : string :=
  let r := tx_from_bytes bs in
  let ib := match r with Ok t => tx_bytes t | _ => [] end in
  let ih := match r with Ok _ => sha256d ib | _ => [] end in
  let impl :=
    match r with
    | Ok t => "OK:" +++ show_tx_impl t ib ih
    | Err => "ERR" | Panic => "PANIC"
    end in
  match decode_tx_spec bs with
  | None => out3 impl "ERR" "-"     (* nothing an accepting library could report would be what the decoder reads *)
  | Some d =>
      let f := d_fields d in
      match fields_class f with
      | SBad => out3 impl "ERR" "-"
      | STrunc => out3 impl "ERR" "truncated-direct-push"
      | SGood =>
          (* canonical input: must be accepted and come back unchanged.  Any other decodable input: the property
             only says what an accepting library must produce (the canonical re-encoding), rejecting is allowed *)
          let can := canonical bs in
          let enc := if can then bs else encode_tx_spec f in
          let h := if bytes_eqb enc ib then ih else sha256d enc in
          out3 impl ((if can then "" else "ERR~") +++ "OK:" +++ show_tx_spec enc h f)
               (if (spec_total_out f <? u64lim)%N then "-" else "satoshis-out-overflow")
      end
  end.

(* ------------------------------------------------------------------ *)
Definition run_txin_parse (bs : bytes) : string :=
  let impl := match txin_read bs with
              | Ok (i, _) => "OK:" +++ show_txin_impl i
              | Err => "ERR" | Panic => "PANIC" end in
  match decode_in bs with
  | None => out3 impl "ERR" "-"
  | Some (fi, m, rest) =>
      match in_class fi with
      | SBad => out3 impl "ERR" "-"
      | STrunc => out3 impl "ERR" "truncated-direct-push"
      | SGood =>
          let can := m && match rest with [] => true | _ => false end in
          let enc := if can then bs else encode_in fi in
          out3 impl ((if can then "" else "ERR~") +++ "OK:" +++ show_bytes enc +++ ";" +++ hex_of_bytes (f_prev fi) +++ ";" +++ dec_of_N (f_vout fi) +++ ";"
                     +++ show_bytes (f_script fi) +++ ";" +++ dec_of_N (f_seq fi) +++ ";" +++ bit01 (null_outpoint fi) +++ ";"
                     +++ hex_of_bytes (spec_outpoint fi) +++ ";" +++ hex_of_bytes (f_prev fi ++ le_bytes 4 (f_vout fi)) +++ ";"
                     +++ hex_of_bytes (be_bytes 4 (f_seq fi)) +++ ";" +++ dec_of_N (N.of_nat (length (f_script fi))) +++ ";" +++ in_flags) "-"
      end
  end.

Definition run_txout_parse (bs : bytes) : string :=
  let impl := match txout_read bs with
              | Ok (o, _) => "OK:" +++ show_bytes (txout_bytes o) +++ ";" +++ dec_of_N (value o) +++ ";"
                             +++ show_bytes (to_bytes (script_pub_key o)) +++ ";" +++ hex_of_bytes (u64_be_bytes (value o)) +++ ";"
                             +++ dec_of_N (N.of_nat (length (to_bytes (script_pub_key o)))) +++ ";" +++ out_flags
              | Err => "ERR" | Panic => "PANIC" end in
  match decode_out bs with
  | None => out3 impl "ERR" "-"
  | Some (fo, m, rest) =>
      match classify (f_pk fo) with
      | SBad => out3 impl "ERR" "-"
      | STrunc => out3 impl "ERR" "truncated-direct-push"
      | SGood =>
          let can := m && match rest with [] => true | _ => false end in
          let enc := if can then bs else encode_out fo in
          out3 impl ((if can then "" else "ERR~") +++ "OK:" +++ show_bytes enc +++ ";" +++ dec_of_N (f_value fo) +++ ";" +++ show_bytes (f_pk fo) +++ ";"
                     +++ hex_of_bytes (be_bytes 8 (f_value fo)) +++ ";" +++ dec_of_N (N.of_nat (length (f_pk fo))) +++ ";" +++ out_flags) "-"
      end
  end.

Definition run_txin_outpoint (bs : bytes) : string :=
  let impl := match txin_from_outpoint bs with
              | Ok i => "OK:" +++ show_txin_impl i
              | Err => "ERR" | Panic => "PANIC" end in
  if Nat.eqb (length bs) 36 then
    let fi := mk_in (rev (firstn 32 bs)) (le_val (skipn 32 bs)) [] 4294967295 in
    out3 impl ("OK:" +++ show_bytes (encode_in fi) +++ ";" +++ hex_of_bytes (f_prev fi) +++ ";" +++ dec_of_N (f_vout fi) +++ ";;4294967295;"
               +++ bit01 (null_outpoint fi) +++ ";" +++ hex_of_bytes bs +++ ";" +++ hex_of_bytes (f_prev fi ++ skipn 32 bs)
               +++ ";ffffffff;0;" +++ in_flags) "-"
  else out3 impl "ERR" "-".      (* an outpoint is exactly 36 bytes *)

(* ------------------------------------------------------------------ *)
(* tx.build ver lt nin nout (id vout script seq|-)* (value script)* *)
Fixpoint parse_ins (n : nat) (args : list string) : option (list (in_fields * option N) * list string) :=
  match n with
  | O => Some ([], args)
  | S n' =>
      match args with
      | a :: b :: c :: d :: r =>
          match expand a, N_of_dec b, expand c, (if String.eqb d "-" then Some None else option_map Some (N_of_dec d)), parse_ins n' r with
          | Some id, Some vo, Some s, Some sq, Some (l, r') =>
              Some ((mk_in id vo s (match sq with Some v => v | None => 4294967295%N end), sq) :: l, r')
          | _, _, _, _, _ => None
          end
      | _ => None
      end
  end.
Fixpoint parse_outs (n : nat) (args : list string) : option (list out_fields * list string) :=
  match n with
  | O => Some ([], args)
  | S n' =>
      match args with
      | a :: b :: r =>
          match N_of_dec a, expand b, parse_outs n' r with
          | Some v, Some s, Some (l, r') => Some (mk_out v s :: l, r')
          | _, _, _ => None
          end
      | _ => None
      end
  end.

Fixpoint build_ins (t : tx) (l : list (in_fields * option N)) : outcome tx :=
  match l with
  | [] => Ok t
  | (i, sq) :: r =>
      do scr <- (if is_coinbase_outpoint (f_prev i) (f_vout i) then Ok [BCoinbase (f_script i)] else from_bytes (f_script i));
      build_ins (add_input t (txin_new (f_prev i) (f_vout i) scr sq)) r
  end.
Fixpoint build_outs (t : tx) (l : list out_fields) : outcome tx :=
  match l with
  | [] => Ok t
  | o :: r => do scr <- from_bytes (f_pk o); build_outs (add_output t (txout_new (f_value o) scr)) r
  end.

Definition run_tx_build (args : list string) : string :=
  match args with
  | a :: b :: c :: d :: rest =>
      match N_of_dec a, N_of_dec b, N_of_dec c, N_of_dec d with
      | Some ver, Some lt, Some nin, Some nout =>
          if (1000 <? nin)%N || (1000 <? nout)%N then "BADARG" else
          match parse_ins (N.to_nat nin) rest with
          | Some (ins, rest') =>
              match parse_outs (N.to_nat nout) rest' with
              | Some (outs, []) =>
                  let f := mk_fields ver (map fst ins) outs lt in
                  let impl := match (do t1 <- build_ins (tx_new ver lt) ins; build_outs t1 outs) with
                              | Ok t => "OK:" +++ show_bytes (tx_bytes t) +++ ";" +++ dec_of_N (tx_size t)
                              | Err => "ERR" | Panic => "PANIC" end in
                  match fields_class f with
                  | SBad => out3 impl "ERR" "-"
                  | STrunc => out3 impl "ERR" "truncated-direct-push"
                  | SGood => let enc := encode_tx_spec f in
                             out3 impl ("OK:" +++ show_bytes enc +++ ";" +++ dec_of_N (N.of_nat (length enc))) "-"
                  end
              | _ => "BADARG"
              end
          | None => "BADARG"
          end
      | _, _, _, _ => "BADARG"
      end
  | _ => "BADARG"
  end.

(* ------------------------------------------------------------------ *)
(* tx.build_ext ver lt nin nout (id vout script seq|- lock|- sat|- mode)* (value script)*
   lock: bytes of a locking script attached with set_locking_script, or - ; sat: value for set_satoshis, or - ;
   mode b: annotate before add_input;  mode a: add_input, then get_input / annotate / set_input at that index.
   Output: bytes, txid, size, per input (to_bytes, get_unlocking_script_size). *)
Record ext_in := mk_ext { e_fields : in_fields; e_seq : option N; e_lock : option bytes; e_sat : option N; e_after : bool }.

Fixpoint parse_ins_ext (n : nat) (args : list string) : option (list ext_in * list string) :=
  match n with
  | O => Some ([], args)
  | S n' =>
      match args with
      | a :: b :: c :: d :: e :: f :: g :: r =>
          match expand a, N_of_dec b, expand c, (if String.eqb d "-" then Some None else option_map Some (N_of_dec d)),
                (if String.eqb e "-" then Some None else option_map Some (expand e)),
                (if String.eqb f "-" then Some None else option_map Some (N_of_dec f)),
                (if String.eqb g "b" then Some false else if String.eqb g "a" then Some true else None), parse_ins_ext n' r with
          | Some id, Some vo, Some s, Some sq, Some lk, Some sa, Some md, Some (l, r') =>
              Some (mk_ext (mk_in id vo s (match sq with Some v => v | None => 4294967295%N end)) sq lk sa md :: l, r')
          | _, _, _, _, _, _, _, _ => None
          end
      | _ => None
      end
  end.

Fixpoint build_ins_ext (t : tx) (l : list ext_in) : outcome tx :=
  match l with
  | [] => Ok t
  | e :: r =>
      let i := e_fields e in
      do scr <- (if is_coinbase_outpoint (f_prev i) (f_vout i) then Ok [BCoinbase (f_script i)] else from_bytes (f_script i));
      do lk <- (match e_lock e with Some lb => do l0 <- from_bytes lb; Ok (Some l0) | None => Ok None end);
      let plain := txin_new (f_prev i) (f_vout i) scr (e_seq e) in
      do t1 <- (if e_after e then
                  let t0 := add_input t plain in
                  let k := length (inputs t) in
                  match tx_get_input t0 k with
                  | Some got => tx_set_input t0 k (txin_annotate got lk (e_sat e))
                  | None => Panic
                  end
                else Ok (add_input t (txin_annotate plain lk (e_sat e))));
      build_ins_ext t1 r
  end.

(* per input: to_bytes, get_unlocking_script_size, get_satoshis, get_locking_script_bytes *)
Definition show_in_ext_impl (i : txin) : string :=
  show_bytes (txin_bytes i) +++ "," +++ dec_of_N (txin_unlocking_script_size i) +++ ","
  +++ match satoshis i with Some v => dec_of_N v | None => "-" end +++ ","
  +++ match locking i with Some l => "s" +++ show_bytes (to_bytes l) | None => "-" end +++ "/".
Definition show_in_ext_spec (e : ext_in) : string :=
  show_bytes (encode_in (e_fields e)) +++ "," +++ dec_of_N (N.of_nat (length (f_script (e_fields e)))) +++ ","
  +++ match e_sat e with Some v => dec_of_N v | None => "-" end +++ ","
  +++ match e_lock e with Some l => "s" +++ show_bytes l | None => "-" end +++ "/".
(* get_finalised_script (unlocking ++ locking re-parsed): tied, not specified by this property *)
Definition show_fin_impl (i : txin) : string :=
  match txin_finalised_script i with Ok s => show_bytes (to_bytes s) | Err => "E" | Panic => "P" end +++ "/".

Definition run_tx_build_ext (args : list string) : string :=
  match args with
  | a :: b :: c :: d :: rest =>
      match N_of_dec a, N_of_dec b, N_of_dec c, N_of_dec d with
      | Some ver, Some lt, Some nin, Some nout =>
          if (1000 <? nin)%N || (1000 <? nout)%N then "BADARG" else
          match parse_ins_ext (N.to_nat nin) rest with
          | Some (ins, rest') =>
              match parse_outs (N.to_nat nout) rest' with
              | Some (outs, []) =>
                  let f := mk_fields ver (map e_fields ins) outs lt in
                  let r := (do t1 <- build_ins_ext (tx_new ver lt) ins; build_outs t1 outs) in
                  let ib := match r with Ok t => tx_bytes t | _ => [] end in
                  let ih := match r with Ok _ => sha256d ib | _ => [] end in
                  let impl := match r with
                              | Ok t => "OK:" +++ show_bytes ib +++ ";" +++ hex_of_bytes (rev ih) +++ ";" +++ dec_of_N (tx_size t) +++ ";"
                                        +++ show_long (cat_map show_in_ext_impl (inputs t)) +++ ";"
                                        +++ show_long (cat_map show_fin_impl (inputs t))
                              | Err => "ERR" | Panic => "PANIC" end in
                  (* the attached locking scripts must be scripts too; they are not part of the encoding *)
                  let lc := fold_right (fun e c => match e_lock e with Some lb => join_class (classify lb) c | None => c end) SGood ins in
                  match join_class (fields_class f) lc with
                  | SBad => out3 impl "ERR" "-"
                  | STrunc => out3 impl "ERR" "truncated-direct-push"
                  | SGood => let enc := encode_tx_spec f in
                             let h := if bytes_eqb enc ib then ih else sha256d enc in
                             out3 impl ("OK:" +++ show_bytes enc +++ ";" +++ hex_of_bytes (rev h) +++ ";" +++ dec_of_N (N.of_nat (length enc)) +++ ";"
                                        +++ show_long (cat_map show_in_ext_spec ins) +++ ";*") "-"
                  end
              | _ => "BADARG"
              end
          | None => "BADARG"
          end
      | _, _, _, _ => "BADARG"
      end
  | _ => "BADARG"
  end.

(* ------------------------------------------------------------------ *)
(* tx.build_alt variant ver lt nin nout (id vout script seq|-)* (value script)*
   the other public routes to the same transaction; every variant must give the bytes of tx.build:
     bulk     Transaction::new; add_inputs(vec); add_outputs(vec)
     default  Transaction::default(); set_version; set_nlocktime (using the returned clones);
              TxIn::default() + set_prev_tx_id / set_vout / set_unlocking_script / set_sequence
     prepend  items added last-to-first with prepend_input / prepend_output
     insert   all items but the second added, then insert_input(1, ..) / insert_output(1, ..)
     set      placeholders added (TxIn::default(), TxOut::new(0, empty)), then set_input(k, ..) / set_output(k, ..)
     clone    built as in tx.build, serialised from a clone *)
Fixpoint mk_txins (l : list (in_fields * option N)) : outcome (list (bytes * N * list bit * option N)) :=
  match l with
  | [] => Ok []
  | (i, sq) :: r =>
      do scr <- (if is_coinbase_outpoint (f_prev i) (f_vout i) then Ok [BCoinbase (f_script i)] else from_bytes (f_script i));
      do rest <- mk_txins r; Ok ((f_prev i, f_vout i, scr, sq) :: rest)
  end.
Fixpoint mk_txouts (l : list out_fields) : outcome (list txout) :=
  match l with
  | [] => Ok []
  | o :: r => do scr <- from_bytes (f_pk o); do rest <- mk_txouts r; Ok (txout_new (f_value o) scr :: rest)
  end.
Definition new_in (a : bytes * N * list bit * option N) : txin := let '(id, vo, scr, sq) := a in txin_new id vo scr sq.
Definition default_in (a : bytes * N * list bit * option N) : txin :=
  let '(id, vo, scr, sq) := a in
  let i := txin_set_unlocking_script (txin_set_vout (txin_set_prev_tx_id txin_default id) vo) scr in
  match sq with Some v => txin_set_sequence i v | None => i end.
Fixpoint fold_outcome {A B} (f : B -> A -> outcome B) (l : list A) (b : B) : outcome B :=
  match l with [] => Ok b | x :: r => do b' <- f b x; fold_outcome f r b' end.
Fixpoint set_all_in (t : tx) (k : nat) (l : list txin) : outcome tx :=
  match l with [] => Ok t | x :: r => do t' <- tx_set_input t k x; set_all_in t' (S k) r end.
Fixpoint set_all_out (t : tx) (k : nat) (l : list txout) : outcome tx :=
  match l with [] => Ok t | x :: r => do t' <- tx_set_output t k x; set_all_out t' (S k) r end.

Definition build_alt (variant : string) (ver lt : N) (ais : list (bytes * N * list bit * option N)) (tos : list txout) : outcome tx :=
  let tis := map new_in ais in
  if String.eqb variant "bulk" then Ok (add_outputs (add_inputs (tx_new ver lt) tis) tos)
  else if String.eqb variant "default" then
    Ok (fold_left add_output tos (fold_left add_input (map default_in ais) (tx_set_nlocktime (tx_set_version tx_default ver) lt)))
  else if String.eqb variant "prepend" then
    Ok (fold_left prepend_output (rev tos) (fold_left prepend_input (rev tis) (tx_new ver lt)))
  else if String.eqb variant "insert" then
    do t1 <- (match tis with
              | a :: b :: r => insert_input (fold_left add_input (a :: r) (tx_new ver lt)) 1 b
              | _ => Ok (fold_left add_input tis (tx_new ver lt)) end);
    match tos with
    | a :: b :: r => insert_output (fold_left add_output (a :: r) t1) 1 b
    | _ => Ok (fold_left add_output tos t1)
    end
  else if String.eqb variant "set" then
    let t0 := fold_left add_output (map (fun _ => txout_new 0 []) tos) (fold_left add_input (map (fun _ => txin_default) tis) (tx_new ver lt)) in
    do t1 <- set_all_in t0 0 tis; set_all_out t1 0 tos
  else if String.eqb variant "clone" then Ok (fold_left add_output tos (fold_left add_input tis (tx_new ver lt)))
  else Err.

Definition run_tx_build_alt (args : list string) : string :=
  match args with
  | v :: a :: b :: c :: d :: rest =>
      match N_of_dec a, N_of_dec b, N_of_dec c, N_of_dec d with
      | Some ver, Some lt, Some nin, Some nout =>
          if (1000 <? nin)%N || (1000 <? nout)%N then "BADARG" else
          match parse_ins (N.to_nat nin) rest with
          | Some (ins, rest') =>
              match parse_outs (N.to_nat nout) rest' with
              | Some (outs, []) =>
                  let f := mk_fields ver (map fst ins) outs lt in
                  let impl := match (do ais <- mk_txins ins; do tos <- mk_txouts outs; build_alt v ver lt ais tos) with
                              | Ok t => "OK:" +++ show_bytes (tx_bytes t) +++ ";" +++ dec_of_N (tx_size t)
                              | Err => "ERR" | Panic => "PANIC" end in
                  match fields_class f with
                  | SBad => out3 impl "ERR" "-"
                  | STrunc => out3 impl "ERR" "truncated-direct-push"
                  | SGood => let enc := encode_tx_spec f in
                             out3 impl ("OK:" +++ show_bytes enc +++ ";" +++ dec_of_N (N.of_nat (length enc))) "-"
                  end
              | _ => "BADARG"
              end
          | None => "BADARG"
          end
      | _, _, _, _ => "BADARG"
      end
  | _ => "BADARG"
  end.

(* ------------------------------------------------------------------ *)
Definition run_varint_write (n : N) : string :=
  out3 ("OK:" +++ hex_of_bytes (write_varint n)) ("OK:" +++ hex_of_bytes (compact n)) "-".
Definition run_varint_bytes (n : N) : string :=
  out3 ("OK:" +++ hex_of_bytes (get_varint_bytes n) +++ ";" +++ dec_of_N (get_varint_size n))
       ("OK:" +++ hex_of_bytes (compact n) +++ ";*") "-".
Definition run_varint_read (bs : bytes) : string :=
  let impl := match read_varint bs with
              | Ok (n, r) => "OK:" +++ dec_of_N n +++ ";" +++ dec_of_N (N.of_nat (length bs - length r)) +++ ";"
                             +++ dec_of_N n +++ ";" +++ dec_of_N n
              | Err => "ERR" | Panic => "PANIC" end in
  match read_compact bs with
  | Some (n, _, r) => out3 impl ("OK:" +++ dec_of_N n +++ ";" +++ dec_of_N (N.of_nat (length bs - length r)) +++ ";"
                                 +++ dec_of_N n +++ ";" +++ dec_of_N n) "-"
  | None => out3 impl "ERR" "-"
  end.

Definition with_bytes (a : string) (f : bytes -> string) : string :=
  match expand a with Some bs => f bs | None => "BADARG" end.
Definition with_u64 (a : string) (f : N -> string) : string :=
  match N_of_dec a with Some n => if (n <? u64lim)%N then f n else "BADARG" | None => "BADARG" end.

Definition run (op : string) (args : list string) : string :=
  match op, args with
  | "tx.parse", [a] => with_bytes a run_tx_parse
  | "tx.build", _ => run_tx_build args
  | "tx.build_ext", _ => run_tx_build_ext args
  | "tx.build_alt", _ => run_tx_build_alt args
  | "txin.parse", [a] => with_bytes a run_txin_parse
  | "txout.parse", [a] => with_bytes a run_txout_parse
  | "txin.outpoint", [a] => with_bytes a run_txin_outpoint
  | "varint.write", [a] => with_u64 a run_varint_write
  | "varint.bytes", [a] => with_u64 a run_varint_bytes
  | "varint.read", [a] => with_bytes a run_varint_read
  | _, _ => "BADOP"
  end.
