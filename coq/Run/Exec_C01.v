(* Run/Exec_C01.v — executable entry point of the C01 correspondence check.
   run op args = "<implementation model output>|<specification output>|<known-finding class or ->"
   <impl> is computed from Model/Tx.v + Model/VarInt.v + Model/Script.v (transcription of the Rust code);
   <spec> only from Spec/TxWire.v (independent wire decoder/encoder), Spec/ScriptTok.v (C02's independent
   script tokenizer: which byte strings are scripts) and Prim/Sha256.v. *)
From BSV Require Import Base.Hex Model.Opcodes Model.Script Model.VarInt Model.Tx Model.TxExt Spec.ScriptTok Spec.TxWire Prim.Sha256.

Definition out3 (impl spec known : string) : string := impl +++ "|" +++ spec +++ "|" +++ known.
Definition sha256d (m : bytes) : bytes := sha256 (sha256 m).
Definition bit01 (b : bool) : string := if b then "1" else "0".

(* long per-item listings are compared as (length, checksum of the ASCII text); the driver does the same *)
Definition show_long (s : string) : string :=
  if Nat.leb (slength s) 2048 then s
  else let '(a, b) := fletcher (bytes_of_string s) 1 0 in
       "#" +++ dec_of_N (N.of_nat (slength s)) +++ ":" +++ dec_of_N (b * 65536 + a)%N.

Fixpoint cat_map {A} (f : A -> string) (l : list A) : string :=
  match l with [] => "" | x :: r => f x +++ cat_map f r end.

(* ------------------------------------------------------------------ *)
(* implementation side *)
(* The driver also evaluates consistency flags on the real objects (each must be 1):
   input:  Some(false) = None for get_prev_tx_id / get_outpoint_bytes; every *_hex getter and to_hex = hex of the
           bytes getter; get_prev_tx_id(Some(true)) = reversed id; no satoshis / locking script on a parsed or
           plainly built input; get_finalised_script = unlocking script; clone = self
   output: get_script_pub_key_hex = hex of the script bytes; to_hex = hex(to_bytes); clone = self
   tx:     to_hex = hex(to_bytes); from_hex (lower and upper case) = from_bytes; get_id_bytes = bytes of get_id_hex;
           clone = self; get_input(nin) = get_output(nout) = None; satoshis_in() = None *)
Definition in_flags : string := "111111".
Definition out_flags : string := "111".
(* sequence big-endian (get_sequence_as_bytes), get_unlocking_script_size, outpoint with None and with Some(true) *)
Definition in_extra_impl (i : txin) : string :=
  hex_of_bytes (u32_be_bytes (sequence i)) +++ "," +++ dec_of_N (txin_unlocking_script_size i) +++ ","
  +++ hex_of_bytes (txin_outpoint i None) +++ "," +++ hex_of_bytes (txin_outpoint i (Some true)) +++ "," +++ in_flags.
(* get_satoshis_as_bytes (big-endian), get_script_pub_key_size *)
Definition out_extra_impl (o : txout) : string :=
  hex_of_bytes (u64_be_bytes (value o)) +++ "," +++ dec_of_N (N.of_nat (length (to_bytes (script_pub_key o)))) +++ "," +++ out_flags.
Definition show_in_impl (i : txin) : string :=
  hex_of_bytes (prev_tx_id i) +++ "," +++ dec_of_N (vout i) +++ "," +++ show_bytes (to_bytes (unlocking i)) +++ ","
  +++ dec_of_N (sequence i) +++ "," +++ bit01 (is_coinbase_outpoint (prev_tx_id i) (vout i)) +++ ","
  +++ in_extra_impl i +++ "/".
Definition show_out_impl (o : txout) : string :=
  dec_of_N (value o) +++ "," +++ show_bytes (to_bytes (script_pub_key o)) +++ "," +++ out_extra_impl o +++ "/".
Definition show_sat (r : outcome N) : string :=
  match r with Ok n => dec_of_N n | Err => "ERR" | Panic => "PANIC" end.

(* `ib` = tx_bytes t and `ih` = its double hash are supplied by the caller (computed once) *)
Definition show_tx_impl (t : tx) (ib ih : bytes) : string :=
  show_bytes ib +++ ";" +++ hex_of_bytes (rev ih) +++ ";" +++ dec_of_N (tx_size t) +++ ";"
  +++ dec_of_N (version t) +++ ";" +++ dec_of_N (locktime t) +++ ";"
  +++ dec_of_N (N.of_nat (length (inputs t))) +++ ";" +++ dec_of_N (N.of_nat (length (outputs t))) +++ ";"
  +++ show_long (cat_map show_in_impl (inputs t)) +++ ";" +++ show_long (cat_map show_out_impl (outputs t)) +++ ";"
  +++ show_long (cat_map (fun o => hex_of_bytes o +++ "/") (tx_outpoints t)) +++ ";"
  +++ show_sat (satoshis_out true t) +++ ";" +++ bit01 (tx_is_coinbase t) +++ ";"
  +++ hex_of_bytes (u32_be_bytes (locktime t)) +++ ";"
  +++ "11111" +++ bit01 (match satoshis_in true t with Ok None => true | _ => false end).

Definition show_txin_impl (i : txin) : string :=
  show_bytes (txin_bytes i) +++ ";" +++ hex_of_bytes (prev_tx_id i) +++ ";" +++ dec_of_N (vout i) +++ ";"
  +++ show_bytes (to_bytes (unlocking i)) +++ ";" +++ dec_of_N (sequence i) +++ ";"
  +++ bit01 (is_coinbase_outpoint (prev_tx_id i) (vout i)) +++ ";"
  +++ hex_of_bytes (txin_outpoint_bytes i true) +++ ";" +++ hex_of_bytes (txin_outpoint_bytes i false) +++ ";"
  +++ hex_of_bytes (u32_be_bytes (sequence i)) +++ ";" +++ dec_of_N (txin_unlocking_script_size i) +++ ";" +++ in_flags.

(* ------------------------------------------------------------------ *)
(* specification side: which raw scripts are scripts (C02's independent tokenizer + balance automaton) *)
Inductive sclass := SGood | STrunc | SBad.
Definition classify (s : bytes) : sclass :=
  match tokenize_spec s with
  | TokOk ts => if balanced ts then SGood else SBad
  | TokTruncDirect => STrunc
  | TokBad => SBad
  end.
Definition join_class (a b : sclass) : sclass :=
  match a, b with SBad, _ | _, SBad => SBad | STrunc, _ | _, STrunc => STrunc | _, _ => SGood end.
Definition in_class (i : in_fields) : sclass := if null_outpoint i then SGood else classify (f_script i).
Definition fields_class (f : tx_fields) : sclass :=
  fold_right (fun i c => join_class (in_class i) c)
             (fold_right (fun o c => join_class (classify (f_pk o)) c) SGood (f_outs f)) (f_ins f).

Definition show_in_spec (i : in_fields) : string :=
  hex_of_bytes (f_prev i) +++ "," +++ dec_of_N (f_vout i) +++ "," +++ show_bytes (f_script i) +++ ","
  +++ dec_of_N (f_seq i) +++ "," +++ bit01 (null_outpoint i) +++ ","
  +++ hex_of_bytes (be_bytes 4 (f_seq i)) +++ "," +++ dec_of_N (N.of_nat (length (f_script i))) +++ ","
  +++ hex_of_bytes (f_prev i ++ le_bytes 4 (f_vout i)) +++ "," +++ hex_of_bytes (spec_outpoint i) +++ "," +++ in_flags +++ "/".
Definition show_out_spec (o : out_fields) : string :=
  dec_of_N (f_value o) +++ "," +++ show_bytes (f_pk o) +++ ","
  +++ hex_of_bytes (be_bytes 8 (f_value o)) +++ "," +++ dec_of_N (N.of_nat (length (f_pk o))) +++ "," +++ out_flags +++ "/".

(* `h` is the double hash of `enc`, supplied by the caller so that it is computed once when the model's
   re-serialisation and the specified one are the same byte string *)
Definition show_tx_spec (enc : bytes) (h : bytes) (f : tx_fields) : string :=
  show_bytes enc +++ ";" +++ hex_of_bytes (rev h) +++ ";" +++ dec_of_N (N.of_nat (length enc)) +++ ";"
  +++ dec_of_N (f_version f) +++ ";" +++ dec_of_N (f_locktime f) +++ ";"
  +++ dec_of_N (N.of_nat (length (f_ins f))) +++ ";" +++ dec_of_N (N.of_nat (length (f_outs f))) +++ ";"
  +++ show_long (cat_map show_in_spec (f_ins f)) +++ ";" +++ show_long (cat_map show_out_spec (f_outs f)) +++ ";"
  +++ show_long (cat_map (fun o => hex_of_bytes o +++ "/") (spec_outpoints f)) +++ ";"
  +++ dec_of_N (spec_total_out f) +++ ";" +++ bit01 (spec_is_coinbase f) +++ ";"
  +++ hex_of_bytes (be_bytes 4 (f_locktime f)) +++ ";" +++ "111111".

Definition u64lim : N := 18446744073709551616%N.

Definition run_tx_parse (bs : bytes) : string :=
  let r := tx_from_bytes bs in
  let ib := match r with Ok t => tx_bytes t | _ => [] end in
  let ih := match r with Ok _ => sha256d ib | _ => [] end in
  let impl :=
    match r with
    | Ok t => "OK:" +++ show_tx_impl t ib ih
    | Err => "ERR" | Panic => "PANIC"
    end in
  match decode_tx_spec bs with
  | None => out3 impl "ERR" "-"     (* nothing an accepting library could report would be what the decoder reads *)
  | Some d =>
      let f := d_fields d in
      match fields_class f with
      | SBad => out3 impl "ERR" "-"
      | STrunc => out3 impl "ERR" "truncated-direct-push"
      | SGood =>
          (* canonical input: must be accepted and come back unchanged.  Any other decodable input: the property
             only says what an accepting library must produce (the canonical re-encoding), rejecting is allowed *)
          let can := canonical bs in
          let enc := if can then bs else encode_tx_spec f in
          let h := if bytes_eqb enc ib then ih else sha256d enc in
          out3 impl ((if can then "" else "ERR~") +++ "OK:" +++ show_tx_spec enc h f)
               (if (spec_total_out f <? u64lim)%N then "-" else "satoshis-out-overflow")
      end
  end.

(* ------------------------------------------------------------------ *)
Definition run_txin_parse (bs : bytes) : string :=
  let impl := match txin_read bs with
              | Ok (i, _) => "OK:" +++ show_txin_impl i
              | Err => "ERR" | Panic => "PANIC" end in
  match decode_in bs with
  | None => out3 impl "ERR" "-"
  | Some (fi, m, rest) =>
      match in_class fi with
      | SBad => out3 impl "ERR" "-"
      | STrunc => out3 impl "ERR" "truncated-direct-push"
      | SGood =>
          let can := m && match rest with [] => true | _ => false end in
          let enc := if can then bs else encode_in fi in
          out3 impl ((if can then "" else "ERR~") +++ "OK:" +++ show_bytes enc +++ ";" +++ hex_of_bytes (f_prev fi) +++ ";" +++ dec_of_N (f_vout fi) +++ ";"
                     +++ show_bytes (f_script fi) +++ ";" +++ dec_of_N (f_seq fi) +++ ";" +++ bit01 (null_outpoint fi) +++ ";"
                     +++ hex_of_bytes (spec_outpoint fi) +++ ";" +++ hex_of_bytes (f_prev fi ++ le_bytes 4 (f_vout fi)) +++ ";"
                     +++ hex_of_bytes (be_bytes 4 (f_seq fi)) +++ ";" +++ dec_of_N (N.of_nat (length (f_script fi))) +++ ";" +++ in_flags) "-"
      end
  end.

Definition run_txout_parse (bs : bytes) : string :=
  let impl := match txout_read bs with
              | Ok (o, _) => "OK:" +++ show_bytes (txout_bytes o) +++ ";" +++ dec_of_N (value o) +++ ";"
                             +++ show_bytes (to_bytes (script_pub_key o)) +++ ";" +++ hex_of_bytes (u64_be_bytes (value o)) +++ ";"
                             +++ dec_of_N (N.of_nat (length (to_bytes (script_pub_key o)))) +++ ";" +++ out_flags
              | Err => "ERR" | Panic => "PANIC" end in
  match decode_out bs with
  | None => out3 impl "ERR" "-"
  | Some (fo, m, rest) =>
      match classify (f_pk fo) with
      | SBad => out3 impl "ERR" "-"
      | STrunc => out3 impl "ERR" "truncated-direct-push"
      | SGood =>
          let can := m && match rest with [] => true | _ => false end in
          let enc := if can then bs else encode_out fo in
          out3 impl ((if can then "" else "ERR~") +++ "OK:" +++ show_bytes enc +++ ";" +++ dec_of_N (f_value fo) +++ ";" +++ show_bytes (f_pk fo) +++ ";"
                     +++ hex_of_bytes (be_bytes 8 (f_value fo)) +++ ";" +++ dec_of_N (N.of_nat (length (f_pk fo))) +++ ";" +++ out_flags) "-"
      end
  end.

Definition run_txin_outpoint (bs : bytes) : string :=
  let impl := match txin_from_outpoint bs with
              | Ok i => "OK:" +++ show_txin_impl i
              | Err => "ERR" | Panic => "PANIC" end in
  if Nat.eqb (length bs) 36 then
    let fi := mk_in (rev (firstn 32 bs)) (le_val (skipn 32 bs)) [] 4294967295 in
    out3 impl ("OK:" +++ show_bytes (encode_in fi) +++ ";" +++ hex_of_bytes (f_prev fi) +++ ";" +++ dec_of_N (f_vout fi) +++ ";;4294967295;"
               +++ bit01 (null_outpoint fi) +++ ";" +++ hex_of_bytes bs +++ ";" +++ hex_of_bytes (f_prev fi ++ skipn 32 bs)
               +++ ";ffffffff;0;" +++ in_flags) "-"
  else out3 impl "ERR" "-".      (* an outpoint is exactly 36 bytes *)

(* ------------------------------------------------------------------ *)
(* tx.build ver lt nin nout (id vout script seq|-)* (value script)* *)
Fixpoint parse_ins (n : nat) (args : list string) : option (list (in_fields * option N) * list string) :=
  match n with
  | O => Some ([], args)
  | S n' =>
      match args with
      | a :: b :: c :: d :: r =>
          match expand a, N_of_dec b, expand c, (if String.eqb d "-" then Some None else option_map Some (N_of_dec d)), parse_ins n' r with
          | Some id, Some vo, Some s, Some sq, Some (l, r') =>
              Some ((mk_in id vo s (match sq with Some v => v | None => 4294967295%N end), sq) :: l, r')
          | _, _, _, _, _ => None
          end
      | _ => None
      end
  end.
Fixpoint parse_outs (n : nat) (args : list string) : option (list out_fields * list string) :=
  match n with
  | O => Some ([], args)
  | S n' =>
      match args with
      | a :: b :: r =>
          match N_of_dec a, expand b, parse_outs n' r with
          | Some v, Some s, Some (l, r') => Some (mk_out v s :: l, r')
          | _, _, _ => None
          end
      | _ => None
      end
  end.

Fixpoint build_ins (t : tx) (l : list (in_fields * option N)) : outcome tx :=
  match l with
  | [] => Ok t
  | (i, sq) :: r =>
      do scr <- (if is_coinbase_outpoint (f_prev i) (f_vout i) then Ok [BCoinbase (f_script i)] else from_bytes (f_script i));
      build_ins (add_input t (txin_new (f_prev i) (f_vout i) scr sq)) r
  end.
Fixpoint build_outs (t : tx) (l : list out_fields) : outcome tx :=
  match l with
  | [] => Ok t
  | o :: r => do scr <- from_bytes (f_pk o); build_outs (add_output t (txout_new (f_value o) scr)) r
  end.

Definition run_tx_build (args : list string) : string :=
  match args with
  | a :: b :: c :: d :: rest =>
      match N_of_dec a, N_of_dec b, N_of_dec c, N_of_dec d with
      | Some ver, Some lt, Some nin, Some nout =>
          if (1000 <? nin)%N || (1000 <? nout)%N then "BADARG" else
          match parse_ins (N.to_nat nin) rest with
          | Some (ins, rest') =>
              match parse_outs (N.to_nat nout) rest' with
              | Some (outs, []) =>
                  let f := mk_fields ver (map fst ins) outs lt in
                  let impl := match (do t1 <- build_ins (tx_new ver lt) ins; build_outs t1 outs) with
                              | Ok t => "OK:" +++ show_bytes (tx_bytes t) +++ ";" +++ dec_of_N (tx_size t)
                              | Err => "ERR" | Panic => "PANIC" end in
                  match fields_class f with
                  | SBad => out3 impl "ERR" "-"
                  | STrunc => out3 impl "ERR" "truncated-direct-push"
                  | SGood => let enc := encode_tx_spec f in
                             out3 impl ("OK:" +++ show_bytes enc +++ ";" +++ dec_of_N (N.of_nat (length enc))) "-"
                  end
              | _ => "BADARG"
              end
          | None => "BADARG"
          end
      | _, _, _, _ => "BADARG"
      end
  | _ => "BADARG"
  end.

(* ------------------------------------------------------------------ *)
(* tx.build_ext ver lt nin nout (id vout script seq|- lock|- sat|- mode)* (value script)*
   lock: bytes of a locking script attached with set_locking_script, or - ; sat: value for set_satoshis, or - ;
   mode b: annotate before add_input;  mode a: add_input, then get_input / annotate / set_input at that index.
   Output: bytes, txid, size, per input (to_bytes, get_unlocking_script_size). *)
Record ext_in := mk_ext { e_fields : in_fields; e_seq : option N; e_lock : option bytes; e_sat : option N; e_after : bool }.

Fixpoint parse_ins_ext (n : nat) (args : list string) : option (list ext_in * list string) :=
  match n with
  | O => Some ([], args)
  | S n' =>
      match args with
      | a :: b :: c :: d :: e :: f :: g :: r =>
          match expand a, N_of_dec b, expand c, (if String.eqb d "-" then Some None else option_map Some (N_of_dec d)),
                (if String.eqb e "-" then Some None else option_map Some (expand e)),
                (if String.eqb f "-" then Some None else option_map Some (N_of_dec f)),
                (if String.eqb g "b" then Some false else if String.eqb g "a" then Some true else None), parse_ins_ext n' r with
          | Some id, Some vo, Some s, Some sq, Some lk, Some sa, Some md, Some (l, r') =>
              Some (mk_ext (mk_in id vo s (match sq with Some v => v | None => 4294967295%N end)) sq lk sa md :: l, r')
          | _, _, _, _, _, _, _, _ => None
          end
      | _ => None
      end
  end.

Fixpoint build_ins_ext (t : tx) (l : list ext_in) : outcome tx :=
  match l with
  | [] => Ok t
  | e :: r =>
      let i := e_fields e in
      do scr <- (if is_coinbase_outpoint (f_prev i) (f_vout i) then Ok [BCoinbase (f_script i)] else from_bytes (f_script i));
      do lk <- (match e_lock e with Some lb => do l0 <- from_bytes lb; Ok (Some l0) | None => Ok None end);
      let plain := txin_new (f_prev i) (f_vout i) scr (e_seq e) in
      do t1 <- (if e_after e then
                  let t0 := add_input t plain in
                  let k := length (inputs t) in
                  match tx_get_input t0 k with
                  | Some got => tx_set_input t0 k (txin_annotate got lk (e_sat e))
                  | None => Panic
                  end
                else Ok (add_input t (txin_annotate plain lk (e_sat e))));
      build_ins_ext t1 r
  end.

(* per input: to_bytes, get_unlocking_script_size, get_satoshis, get_locking_script_bytes *)
Definition show_in_ext_impl (i : txin) : string :=
  show_bytes (txin_bytes i) +++ "," +++ dec_of_N (txin_unlocking_script_size i) +++ ","
  +++ match satoshis i with Some v => dec_of_N v | None => "-" end +++ ","
  +++ match locking i with Some l => "s" +++ show_bytes (to_bytes l) | None => "-" end +++ "/".
Definition show_in_ext_spec (e : ext_in) : string :=
  show_bytes (encode_in (e_fields e)) +++ "," +++ dec_of_N (N.of_nat (length (f_script (e_fields e)))) +++ ","
  +++ match e_sat e with Some v => dec_of_N v | None => "-" end +++ ","
  +++ match e_lock e with Some l => "s" +++ show_bytes l | None => "-" end +++ "/".
(* get_finalised_script (unlocking ++ locking re-parsed): tied, not specified by this property *)
Definition show_fin_impl (i : txin) : string :=
  match txin_finalised_script i with Ok s => show_bytes (to_bytes s) | Err => "E" | Panic => "P" end +++ "/".

Definition run_tx_build_ext (args : list string) : string :=
  match args with
  | a :: b :: c :: d :: rest =>
      match N_of_dec a, N_of_dec b, N_of_dec c, N_of_dec d with
      | Some ver, Some lt, Some nin, Some nout =>
          if (1000 <? nin)%N || (1000 <? nout)%N then "BADARG" else
          match parse_ins_ext (N.to_nat nin) rest with
          | Some (ins, rest') =>
              match parse_outs (N.to_nat nout) rest' with
              | Some (outs, []) =>
                  let f := mk_fields ver (map e_fields ins) outs lt in
                  let r := (do t1 <- build_ins_ext (tx_new ver lt) ins; build_outs t1 outs) in
                  let ib := match r with Ok t => tx_bytes t | _ => [] end in
                  let ih := match r with Ok _ => sha256d ib | _ => [] end in
                  let impl := match r with
                              | Ok t => "OK:" +++ show_bytes ib +++ ";" +++ hex_of_bytes (rev ih) +++ ";" +++ dec_of_N (tx_size t) +++ ";"
                                        +++ show_long (cat_map show_in_ext_impl (inputs t)) +++ ";"
                                        +++ show_long (cat_map show_fin_impl (inputs t))
                              | Err => "ERR" | Panic => "PANIC" end in
                  (* the attached locking scripts must be scripts too; they are not part of the encoding *)
                  let lc := fold_right (fun e c => match e_lock e with Some lb => join_class (classify lb) c | None => c end) SGood ins in
                  match join_class (fields_class f) lc with
                  | SBad => out3 impl "ERR" "-"
                  | STrunc => out3 impl "ERR" "truncated-direct-push"
                  | SGood => let enc := encode_tx_spec f in
                             let h := if bytes_eqb enc ib then ih else sha256d enc in
                             out3 impl ("OK:" +++ show_bytes enc +++ ";" +++ hex_of_bytes (rev h) +++ ";" +++ dec_of_N (N.of_nat (length enc)) +++ ";"
                                        +++ show_long (cat_map show_in_ext_spec ins) +++ ";*") "-"
                  end
              | _ => "BADARG"
              end
          | None => "BADARG"
          end
      | _, _, _, _ => "BADARG"
      end
  | _ => "BADARG"
  end.

(* ------------------------------------------------------------------ *)
(* tx.build_alt variant ver lt nin nout (id vout script seq|-)* (value script)*
   the other public routes to the same transaction; every variant must give the bytes of tx.build:
     bulk     Transaction::new; add_inputs(vec); add_outputs(vec)
     default  Transaction::default(); set_version; set_nlocktime (using the returned clones);
              TxIn::default() + set_prev_tx_id / set_vout / set_unlocking_script / set_sequence
     prepend  items added last-to-first with prepend_input / prepend_output
     insert   all items but the second added, then insert_input(1, ..) / insert_output(1, ..)
     set      placeholders added (TxIn::default(), TxOut::new(0, empty)), then set_input(k, ..) / set_output(k, ..)
     clone    built as in tx.build, serialised from a clone *)
Fixpoint mk_txins (l : list (in_fields * option N)) : outcome (list (bytes * N * list bit * option N)) :=
  match l with
  | [] => Ok []
  | (i, sq) :: r =>
      do scr <- (if is_coinbase_outpoint (f_prev i) (f_vout i) then Ok [BCoinbase (f_script i)] else from_bytes (f_script i));
      do rest <- mk_txins r; Ok ((f_prev i, f_vout i, scr, sq) :: rest)
  end.
Fixpoint mk_txouts (l : list out_fields) : outcome (list txout) :=
  match l with
  | [] => Ok []
  | o :: r => do scr <- from_bytes (f_pk o); do rest <- mk_txouts r; Ok (txout_new (f_value o) scr :: rest)
  end.
Definition new_in (a : bytes * N * list bit * option N) : txin := let '(id, vo, scr, sq) := a in txin_new id vo scr sq.
Definition default_in (a : bytes * N * list bit * option N) : txin :=
  let '(id, vo, scr, sq) := a in
  let i := txin_set_unlocking_script (txin_set_vout (txin_set_prev_tx_id txin_default id) vo) scr in
  match sq with Some v => txin_set_sequence i v | None => i end.
Fixpoint fold_outcome {A B} (f : B -> A -> outcome B) (l : list A) (b : B) : outcome B :=
  match l with [] => Ok b | x :: r => do b' <- f b x; fold_outcome f r b' end.
Fixpoint set_all_in (t : tx) (k : nat) (l : list txin) : outcome tx :=
  match l with [] => Ok t | x :: r => do t' <- tx_set_input t k x; set_all_in t' (S k) r end.
Fixpoint set_all_out (t : tx) (k : nat) (l : list txout) : outcome tx :=
  match l with [] => Ok t | x :: r => do t' <- tx_set_output t k x; set_all_out t' (S k) r end.

Definition build_alt (variant : string) (ver lt : N) (ais : list (bytes * N * list bit * option N)) (tos : list txout) : outcome tx :=
  let tis := map new_in ais in
  if String.eqb variant "bulk" then Ok (add_outputs (add_inputs (tx_new ver lt) tis) tos)
  else if String.eqb variant "default" then
    Ok (fold_left add_output tos (fold_left add_input (map default_in ais) (tx_set_nlocktime (tx_set_version tx_default ver) lt)))
  else if String.eqb variant "prepend" then
    Ok (fold_left prepend_output (rev tos) (fold_left prepend_input (rev tis) (tx_new ver lt)))
  else if String.eqb variant "insert" then
    do t1 <- (match tis with
              | a :: b :: r => insert_input (fold_left add_input (a :: r) (tx_new ver lt)) 1 b
              | _ => Ok (fold_left add_input tis (tx_new ver lt)) end);
    match tos with
    | a :: b :: r => insert_output (fold_left add_output (a :: r) t1) 1 b
    | _ => Ok (fold_left add_output tos t1)
    end
  else if String.eqb variant "set" then
    let t0 := fold_left add_output (map (fun _ => txout_new 0 []) tos) (fold_left add_input (map (fun _ => txin_default) tis) (tx_new ver lt)) in
    do t1 <- set_all_in t0 0 tis; set_all_out t1 0 tos
  else if String.eqb variant "clone" then Ok (fold_left add_output tos (fold_left add_input tis (tx_new ver lt)))
  else Err.

Definition run_tx_build_alt (args : list string) : string :=
  match args with
  | v :: a :: b :: c :: d :: rest =>
      match N_of_dec a, N_of_dec b, N_of_dec c, N_of_dec d with
      | Some ver, Some lt, Some nin, Some nout =>
          if (1000 <? nin)%N || (1000 <? nout)%N then "BADARG" else
          match parse_ins (N.to_nat nin) rest with
          | Some (ins, rest') =>
              match parse_outs (N.to_nat nout) rest' with
              | Some (outs, []) =>
                  let f := mk_fields ver (map fst ins) outs lt in
                  let impl := match (do ais <- mk_txins ins; do tos <- mk_txouts outs; build_alt v ver lt ais tos) with
                              | Ok t => "OK:" +++ show_bytes (tx_bytes t) +++ ";" +++ dec_of_N (tx_size t)
                              | Err => "ERR" | Panic => "PANIC" end in
                  match fields_class f with
                  | SBad => out3 impl "ERR" "-"
                  | STrunc => out3 impl "ERR" "truncated-direct-push"
                  | SGood => let enc := encode_tx_spec f in
                             out3 impl ("OK:" +++ show_bytes enc +++ ";" +++ dec_of_N (N.of_nat (length enc))) "-"
                  end
              | _ => "BADARG"
              end
          | None => "BADARG"
          end
      | _, _, _, _ => "BADARG"
      end
  | _ => "BADARG"
  end.

(* ------------------------------------------------------------------ *)
Definition run_varint_write (n : N) : string :=
  out3 ("OK:" +++ hex_of_bytes (write_varint n)) ("OK:" +++ hex_of_bytes (compact n)) "-".
Definition run_varint_bytes (n : N) : string :=
  out3 ("OK:" +++ hex_of_bytes (get_varint_bytes n) +++ ";" +++ dec_of_N (get_varint_size n))
       ("OK:" +++ hex_of_bytes (compact n) +++ ";*") "-".
Definition run_varint_read (bs : bytes) : string :=
  let impl := match read_varint bs with
              | Ok (n, r) => "OK:" +++ dec_of_N n +++ ";" +++ dec_of_N (N.of_nat (length bs - length r)) +++ ";"
                             +++ dec_of_N n +++ ";" +++ dec_of_N n
              | Err => "ERR" | Panic => "PANIC" end in
  match read_compact bs with
  | Some (n, _, r) => out3 impl ("OK:" +++ dec_of_N n +++ ";" +++ dec_of_N (N.of_nat (length bs - length r)) +++ ";"
                                 +++ dec_of_N n +++ ";" +++ dec_of_N n) "-"
  | None => out3 impl "ERR" "-"
  end.

(* ------------------------------------------------------------------ *)
(* tx.mutate <tx bytes> <step>*   — call history on ONE Transaction object.
   The object is observed (get_id_hex, get_size, to_bytes, version, lock time, counts, is_coinbase, outpoints,
   satoshis_out; flags: get_id_bytes agrees with get_id_hex, every accessor equals that of a freshly parsed copy of
   the current bytes) right after parsing, a second time, on a clone, after every step, and finally on a clone.
   Steps (fields separated by `,`):
     sv,n / sl,n      set_version / set_nlocktime, keep using the object      svc,n / slc,n   ... keep using the returned clone
     ai|pi,id,vout,script,seq|-        add_input / prepend_input (TxIn::new)
     ii|si,k,id,vout,script,seq|-      insert_input(k, ..) / set_input(k, ..)
     ao|po,value,script                add_output / prepend_output;   io|so,k,value,script   insert_output / set_output
     gi,k,field,value                  get_input(k); setter; set_input(k, ..)  with field in
                                       id (set_prev_tx_id) vo (set_vout) sq (set_sequence) us (set_unlocking_script)
                                       sa (set_satoshis) ls (set_locking_script)
     cl                                continue on a clone;    ob   observe once more
   impl: the mutators of Model/Tx.v + Model/TxExt.v on the parsed value; spec: the same edits on the decoder's raw field
   tuple, every observation computed from the encoding of that tuple (what a fresh parse of the new bytes reports). *)
Inductive step :=
| SSetVer (v : N) | SSetLt (v : N)
| SIn (how : nat) (k : nat) (f : in_fields) (sq : option N)      (* how: 0 add, 1 prepend, 2 insert, 3 set *)
| SOut (how : nat) (k : nat) (f : out_fields)
| SGetNum (k : nat) (field : nat) (v : N)                        (* 0 vout, 1 sequence, 2 satoshis *)
| SGetBytes (k : nat) (field : nat) (v : bytes)                  (* 0 prev id, 1 unlocking script, 2 locking script *)
| SNop.

Definition dec_u32 (a : string) : option N :=
  match N_of_dec a with Some n => if (n <? 4294967296)%N then Some n else None | None => None end.
Definition dec_u64 (a : string) : option N :=
  match N_of_dec a with Some n => if (n <? u64lim)%N then Some n else None | None => None end.
Definition dec_idx (a : string) : option nat :=
  match N_of_dec a with Some n => if (n <? 100000)%N then Some (N.to_nat n) else None | None => None end.
Definition dec_seq (a : string) : option (option N) :=
  if String.eqb a "-" then Some None else option_map Some (dec_u32 a).
Definition mk_in_step (how k : nat) (a b c d : string) : option step :=
  match expand a, dec_u32 b, expand c, dec_seq d with
  | Some id, Some vo, Some sc, Some sq => Some (SIn how k (mk_in id vo sc (match sq with Some v => v | None => 4294967295%N end)) sq)
  | _, _, _, _ => None
  end.
Definition mk_out_step (how k : nat) (a b : string) : option step :=
  match dec_u64 a, expand b with Some v, Some sc => Some (SOut how k (mk_out v sc)) | _, _ => None end.

Definition parse_step (st : string) : option step :=
  match split "," st with
  | ["sv"; n] | ["svc"; n] => option_map SSetVer (dec_u32 n)
  | ["sl"; n] | ["slc"; n] => option_map SSetLt (dec_u32 n)
  | ["ai"; a; b; c; d] => mk_in_step 0 0 a b c d
  | ["pi"; a; b; c; d] => mk_in_step 1 0 a b c d
  | ["ii"; k; a; b; c; d] => match dec_idx k with Some k' => mk_in_step 2 k' a b c d | None => None end
  | ["si"; k; a; b; c; d] => match dec_idx k with Some k' => mk_in_step 3 k' a b c d | None => None end
  | ["ao"; a; b] => mk_out_step 0 0 a b
  | ["po"; a; b] => mk_out_step 1 0 a b
  | ["io"; k; a; b] => match dec_idx k with Some k' => mk_out_step 2 k' a b | None => None end
  | ["so"; k; a; b] => match dec_idx k with Some k' => mk_out_step 3 k' a b | None => None end
  | ["gi"; k; fld; v] =>
      match dec_idx k with
      | None => None
      | Some k' =>
          if String.eqb fld "vo" then option_map (SGetNum k' 0) (dec_u32 v)
          else if String.eqb fld "sq" then option_map (SGetNum k' 1) (dec_u32 v)
          else if String.eqb fld "sa" then option_map (SGetNum k' 2) (dec_u64 v)
          else if String.eqb fld "id" then option_map (SGetBytes k' 0) (expand v)
          else if String.eqb fld "us" then option_map (SGetBytes k' 1) (expand v)
          else if String.eqb fld "ls" then option_map (SGetBytes k' 2) (expand v)
          else None
      end
  | ["cl"] | ["ob"] => Some SNop
  | _ => None
  end.
Fixpoint parse_steps (l : list string) : option (list step) :=
  match l with
  | [] => Some []
  | x :: r => match parse_step x, parse_steps r with Some s, Some rs => Some (s :: rs) | _, _ => None end
  end.

(* implementation side.  None = the step does not fit the object (index out of range): BADARG on both sides *)
Definition apply_m (t : tx) (s : step) : option (outcome tx) :=
  match s with
  | SSetVer v => Some (Ok (tx_set_version t v))
  | SSetLt v => Some (Ok (tx_set_nlocktime t v))
  | SIn how k f sq =>
      let n := length (inputs t) in
      if (match how with 2 => Nat.leb k n | 3 => Nat.ltb k n | _ => true end) then
        Some (do scr <- (if is_coinbase_outpoint (f_prev f) (f_vout f) then Ok [BCoinbase (f_script f)] else from_bytes (f_script f));
              let i := txin_new (f_prev f) (f_vout f) scr sq in
              match how with
              | 0 => Ok (add_input t i) | 1 => Ok (prepend_input t i) | 2 => insert_input t k i | _ => tx_set_input t k i
              end)
      else None
  | SOut how k f =>
      let n := length (outputs t) in
      if (match how with 2 => Nat.leb k n | 3 => Nat.ltb k n | _ => true end) then
        Some (do scr <- from_bytes (f_pk f);
              let o := txout_new (f_value f) scr in
              match how with
              | 0 => Ok (add_output t o) | 1 => Ok (prepend_output t o) | 2 => insert_output t k o | _ => tx_set_output t k o
              end)
      else None
  | SGetNum k fld v =>
      match tx_get_input t k with
      | None => None
      | Some i => Some (tx_set_input t k (match fld with 0 => txin_set_vout i v | 1 => txin_set_sequence i v | _ => txin_set_satoshis i v end))
      end
  | SGetBytes k fld v =>
      match tx_get_input t k with
      | None => None
      | Some i =>
          Some (match fld with
                | 0 => tx_set_input t k (txin_set_prev_tx_id i v)
                | 1 => do scr <- from_bytes v; tx_set_input t k (txin_set_unlocking_script i scr)
                | _ => do scr <- from_bytes v; tx_set_input t k (txin_set_locking_script i scr)
                end)
      end
  | SNop => Some (Ok t)
  end.

(* specification side: the same edit on the raw field tuple *)
Definition ins_at {A} (l : list A) (k : nat) (x : A) : list A := firstn k l ++ x :: skipn k l.
Definition put_at {A} (l : list A) (k : nat) (x : A) : list A := firstn k l ++ x :: skipn (S k) l.
Definition apply_s (f : tx_fields) (s : step) : option tx_fields :=
  match s with
  | SSetVer v => Some (mk_fields v (f_ins f) (f_outs f) (f_locktime f))
  | SSetLt v => Some (mk_fields (f_version f) (f_ins f) (f_outs f) v)
  | SIn how k i _ =>
      let n := length (f_ins f) in
      match how with
      | 0 => Some (mk_fields (f_version f) (f_ins f ++ [i]) (f_outs f) (f_locktime f))
      | 1 => Some (mk_fields (f_version f) (i :: f_ins f) (f_outs f) (f_locktime f))
      | 2 => if Nat.leb k n then Some (mk_fields (f_version f) (ins_at (f_ins f) k i) (f_outs f) (f_locktime f)) else None
      | _ => if Nat.ltb k n then Some (mk_fields (f_version f) (put_at (f_ins f) k i) (f_outs f) (f_locktime f)) else None
      end
  | SOut how k o =>
      let n := length (f_outs f) in
      match how with
      | 0 => Some (mk_fields (f_version f) (f_ins f) (f_outs f ++ [o]) (f_locktime f))
      | 1 => Some (mk_fields (f_version f) (f_ins f) (o :: f_outs f) (f_locktime f))
      | 2 => if Nat.leb k n then Some (mk_fields (f_version f) (f_ins f) (ins_at (f_outs f) k o) (f_locktime f)) else None
      | _ => if Nat.ltb k n then Some (mk_fields (f_version f) (f_ins f) (put_at (f_outs f) k o) (f_locktime f)) else None
      end
  | SGetNum k fld v =>
      match nth_error (f_ins f) k with
      | None => None
      | Some i =>
          let i' := match fld with 0 => mk_in (f_prev i) v (f_script i) (f_seq i) | 1 => mk_in (f_prev i) (f_vout i) (f_script i) v | _ => i end in
          Some (mk_fields (f_version f) (put_at (f_ins f) k i') (f_outs f) (f_locktime f))
      end
  | SGetBytes k fld v =>
      match nth_error (f_ins f) k with
      | None => None
      | Some i =>
          let i' := match fld with 0 => mk_in v (f_vout i) (f_script i) (f_seq i) | 1 => mk_in (f_prev i) (f_vout i) v (f_seq i) | _ => i end in
          Some (mk_fields (f_version f) (put_at (f_ins f) k i') (f_outs f) (f_locktime f))
      end
  | SNop => Some f
  end.
(* the scripts the driver has to build from the step's arguments *)
Definition step_class (s : step) : sclass :=
  match s with
  | SIn _ _ i _ => in_class i
  | SOut _ _ o => classify (f_pk o)
  | SGetBytes _ 1 v | SGetBytes _ 2 v => classify v
  | _ => SGood
  end.

Definition in_fields_eqb (a b : in_fields) : bool :=
  bytes_eqb (f_prev a) (f_prev b) && (f_vout a =? f_vout b)%N && bytes_eqb (f_script a) (f_script b) && (f_seq a =? f_seq b)%N.
Definition out_fields_eqb (a b : out_fields) : bool := (f_value a =? f_value b)%N && bytes_eqb (f_pk a) (f_pk b).
Fixpoint list_eqb {A} (e : A -> A -> bool) (a b : list A) : bool :=
  match a, b with [], [] => true | x :: a', y :: b' => e x y && list_eqb e a' b' | _, _ => false end.
Definition raw_in (i : txin) : in_fields := mk_in (prev_tx_id i) (vout i) (to_bytes (unlocking i)) (sequence i).
Definition raw_out (o : txout) : out_fields := mk_out (value o) (to_bytes (script_pub_key o)).
Definition same_raw (a b : tx) : bool :=
  (version a =? version b)%N && (locktime a =? locktime b)%N
  && list_eqb in_fields_eqb (map raw_in (inputs a)) (map raw_in (inputs b))
  && list_eqb out_fields_eqb (map raw_out (outputs a)) (map raw_out (outputs b)).

(* one observation of the implementation model; returns the text and (bytes, hash) for sharing with the spec side *)
Definition observe_m (t : tx) : string * bytes * bytes :=
  let b := tx_bytes t in
  let h := sha256d b in
  let fresh := match tx_from_bytes b with
               | Ok t' => if bytes_eqb (tx_bytes t') b && same_raw t' t then "1" else "0"
               | _ => "x" end in
  (hex_of_bytes (rev h) +++ "," +++ dec_of_N (tx_size t) +++ "," +++ show_bytes b +++ "," +++ dec_of_N (version t) +++ ","
   +++ dec_of_N (locktime t) +++ "," +++ dec_of_N (N.of_nat (length (inputs t))) +++ "," +++ dec_of_N (N.of_nat (length (outputs t))) +++ ","
   +++ bit01 (tx_is_coinbase t) +++ "," +++ show_long (cat_map (fun o => hex_of_bytes o +++ "/") (tx_outpoints t)) +++ ","
   +++ show_sat (satoshis_out true t) +++ ",1" +++ fresh, b, h).
Definition observe_s (f : tx_fields) (mb mh : bytes) : string :=
  let enc := encode_tx_spec f in
  let h := if bytes_eqb enc mb then mh else sha256d enc in
  hex_of_bytes (rev h) +++ "," +++ dec_of_N (N.of_nat (length enc)) +++ "," +++ show_bytes enc +++ "," +++ dec_of_N (f_version f) +++ ","
  +++ dec_of_N (f_locktime f) +++ "," +++ dec_of_N (N.of_nat (length (f_ins f))) +++ "," +++ dec_of_N (N.of_nat (length (f_outs f))) +++ ","
  +++ bit01 (spec_is_coinbase f) +++ "," +++ show_long (cat_map (fun o => hex_of_bytes o +++ "/") (spec_outpoints f)) +++ ","
  +++ dec_of_N (spec_total_out f) +++ ",11".

(* a field tuple about which the property speaks: 32-byte ids, scripts that are scripts, total below 2^64 *)
Definition tuple_ok (f : tx_fields) : bool :=
  forallb (fun i => Nat.eqb (length (f_prev i)) 32) (f_ins f)
  && match fields_class f with SGood => true | _ => false end
  && (spec_total_out f <? u64lim)%N.

Fixpoint run_m (t : tx) (l : list step) (acc : list (string * bytes * bytes)) : option (outcome (list (string * bytes * bytes))) :=
  match l with
  | [] => Some (Ok (rev acc))
  | s :: r =>
      match apply_m t s with
      | None => None
      | Some (Ok t') => run_m t' r (observe_m t' :: acc)
      | Some Err => Some Err
      | Some Panic => Some Panic
      end
  end.
Fixpoint run_s (f : tx_fields) (l : list step) (ms : list (string * bytes * bytes)) (acc : list string) (ok : bool) : option (list string * bool) :=
  match l, ms with
  | [], _ => Some (rev acc, ok)
  | s :: r, (_, mb, mh) :: ms' =>
      match apply_s f s with
      | None => None
      | Some f' => run_s f' r ms' (observe_s f' mb mh :: acc) (ok && tuple_ok f')
      end
  | s :: r, [] =>
      match apply_s f s with
      | None => None
      | Some f' => run_s f' r [] (observe_s f' [] [] :: acc) (ok && tuple_ok f')
      end
  end.

Definition run_tx_mutate (args : list string) : string :=
  match args with
  | a :: rest =>
      match expand a, parse_steps rest with
      | Some bs, Some steps =>
          let r0 := tx_from_bytes bs in
          let m := match r0 with
                   | Ok t => let o0 := observe_m t in
                             match run_m t steps [] with
                             | None => None
                             | Some (Ok obs) => Some (Ok (o0, obs))
                             | Some Err => Some Err
                             | Some Panic => Some Panic
                             end
                   | Err => Some Err | Panic => Some Panic end in
          match m with
          | None => "BADARG"
          | Some mo =>
              let render (o0 : string) (obs : list string) : string :=
                let lastobs := last obs o0 in
                "OK:" +++ o0 +++ ";" +++ o0 +++ ";" +++ o0 +++ cat_map (fun o => ";" +++ o) obs +++ ";" +++ lastobs in
              let impl := match mo with
                          | Ok (o0, obs) => render (fst (fst o0)) (map (fun x => fst (fst x)) obs)
                          | Err => "ERR" | Panic => "PANIC" end in
              let mobs := match mo with Ok (o0, obs) => o0 :: obs | _ => [] end in
              match decode_tx_spec bs with
              | None => out3 impl "ERR" "-"
              | Some d =>
                  let f0 := d_fields d in
                  let cls := fold_right (fun s c => join_class (step_class s) c) (fields_class f0) steps in
                  match cls with
                  | SBad => out3 impl "ERR" "-"
                  | STrunc => out3 impl "ERR" "truncated-direct-push"
                  | SGood =>
                      match mobs with
                      | [] => out3 impl "-" "-"
                      | (_, b0, h0) :: mrest =>
                          match run_s f0 steps mrest [] (tuple_ok f0) with
                          | None => "BADARG"
                          | Some (sobs, ok) =>
                              (* a non-canonical initial encoding may be rejected; otherwise every observation is the fresh-parse one *)
                              if ok then out3 impl ((if canonical bs then "" else "ERR~") +++ render (observe_s f0 b0 h0) sobs) "-"
                              else out3 impl "-" "-"
                          end
                      end
                  end
              end
          end
      | _, _ => "BADARG"
      end
  | [] => "BADARG"
  end.

Definition with_bytes (a : string) (f : bytes -> string) : string :=
  match expand a with Some bs => f bs | None => "BADARG" end.
Definition with_u64 (a : string) (f : N -> string) : string :=
  match N_of_dec a with Some n => if (n <? u64lim)%N then f n else "BADARG" | None => "BADARG" end.

Definition run (op : string) (args : list string) : string :=
  match op, args with
  | "tx.parse", [a] => with_bytes a run_tx_parse
  | "tx.build", _ => run_tx_build args
  | "tx.build_ext", _ => run_tx_build_ext args
  | "tx.build_alt", _ => run_tx_build_alt args
  | "tx.mutate", _ => run_tx_mutate args
  | "txin.parse", [a] => with_bytes a run_txin_parse
  | "txout.parse", [a] => with_bytes a run_txout_parse
  | "txin.outpoint", [a] => with_bytes a run_txin_outpoint
  | "varint.write", [a] => with_u64 a run_varint_write
  | "varint.bytes", [a] => with_u64 a run_varint_bytes
  | "varint.read", [a] => with_bytes a run_varint_read
  | _, _ => "BADOP"
  end.
