(* Run/Exec_C14.v — executable entry point of the C14 and C16 correspondence checks.
   run op args = "<implementation model output>|<specification output>|<known-finding class or ->" *)
From BSV Require Import Base.Hex Model.Opcodes Model.Script Model.Asm Model.Interp Spec.ScriptTok Spec.InterpBSV.

(* Interpreter::from_script never carries a transaction *)
Definition notx : Type := Empty_set.
Definition nopre (t : notx) (_ : nat) (_ : bytes) : outcome bytes := match t with end.
Definition nover (t : notx) (_ _ _ : bytes) : outcome bool := match t with end.
Definition interp0 := interp notx.
Definition next0 : interp0 -> step_result notx := next_impl notx nopre nover.
Definition run0 : interp0 -> run_result notx := Interp.run notx nopre nover.
Definition start (bits : list bit) : interp0 := from_script_bits notx bits None.

(* ------------------------------------------------------------------ *)
(* bit tree text (see harness/src/ops_c14.rs) *)
Definition opc (s : string) : option N :=
  match N_of_dec s with Some c => if is_opcode c then Some c else None | None => None end.

Fixpoint parse_n (fuel n : nat) (toks : list string) {struct fuel} : option (list bit * list string) :=
  match fuel with
  | O => None
  | S f =>
    match n with
    | O => Some ([], toks)
    | S n' =>
      match toks with
      | [] => None
      | t :: r =>
        let one : option (bit * list string) :=
          match t with
          | String "o" rest => match opc rest with Some c => Some (BOp c, r) | None => None end
          | String "p" rest => match bytes_of_hex rest with Some d => Some (BPush d, r) | None => None end
          | String "c" rest => match bytes_of_hex rest with Some d => Some (BCoinbase d, r) | None => None end
          | String "d" rest =>
              match split "." rest with
              | [c; h] => match opc c, bytes_of_hex h with Some c', Some d => Some (BPushData c' d, r) | _, _ => None end
              | _ => None
              end
          | String "i" rest =>
              match split "." rest with
              | [c; np; nf] =>
                  match opc c, N_of_dec np with
                  | Some c', Some np' =>
                      match parse_n f (N.to_nat np') r with
                      | Some (pass, r1) =>
                          if String.eqb nf "x" then Some (BIf c' pass None, r1)
                          else match N_of_dec nf with
                               | Some nf' => match parse_n f (N.to_nat nf') r1 with
                                             | Some (fl, r2) => Some (BIf c' pass (Some fl), r2)
                                             | None => None
                                             end
                               | None => None
                               end
                      | None => None
                      end
                  | _, _ => None
                  end
              | _ => None
              end
          | _ => None
          end in
        match one with
        | Some (b, r1) => match parse_n f n' r1 with Some (bs, r2) => Some (b :: bs, r2) | None => None end
        | None => None
        end
      end
    end
  end.

Fixpoint parse_top (fuel : nat) (toks : list string) : option (list bit) :=
  match toks with
  | [] => Some []
  | _ => match fuel with
         | O => None
         | S f => match parse_n (S (S fuel + fuel)) 1 toks with
                  | Some (b, r) => match parse_top f r with Some bs => Some (b ++ bs) | None => None end
                  | None => None
                  end
         end
  end.
Definition parse_tree (s : string) : option (list bit) :=
  if String.eqb s "_" then Some []
  else let toks := split "," s in parse_top (length toks) toks.

(* ------------------------------------------------------------------ *)
(* rendering, as the driver does it *)
Fixpoint show_items (v : list bytes) : string :=
  match v with [] => "" | x :: r => show_bytes x +++ "," +++ show_items r end.
Fixpoint show_exec (v : list N) : string :=
  match v with [] => "" | x :: r => dec_of_N x +++ "," +++ show_exec r end.
Definition show_state (st : state) : string :=
  show_items (stack st) +++ ";" +++ show_items (alt_stack st) +++ ";" +++ show_exec (executed st) +++ ";"
  +++ dec_of_N (N.of_nat (codesep st)) +++ ";" +++ (if finished st then "1" else "0").

Definition out3 (impl spec known : string) : string := impl +++ "|" +++ spec +++ "|" +++ known.

(* ---- interp.run ---- *)
Definition impl_run (bits : list bit) : string :=
  match run0 (start bits) with
  | RunOk i => let st := istate i in
               "OK:R;" +++ show_items (stack st) +++ ";" +++ show_items (alt_stack st) +++ ";"
               +++ show_exec (executed st) +++ ";" +++ dec_of_N (N.of_nat (codesep st))
  | RunErr _ => "ERR"
  | RunPanic => "PANIC"
  | RunOutOfFuel => "FUEL"
  end.

(* specification: Bitcoin SV semantics of the token sequence read from the script BYTES by the
   independent tokenizer; stacks are kept top-first there, so they are reversed for display *)
Definition known_of (ts : list tok) : string :=
  if cls_return ts then "op-return"
  else if cls_shift ts then "shift-opcodes"
  else if cls_num2bin ts then "num2bin"
  else if cls_verif ts then "verif-conditional"
  else if cls_second_else ts then "unbalanced-conditional-unexecuted"
  else "-".

(* (spec of interp.run, spec of interp.trace, known class) *)
Definition analyse (bs : bytes) (canonical : bool) : string * string * string :=
  let anyrun := "ERR~OK:R;*;*;*;*" in
  let anytrace := "ERR~OK:F;*;*;*~OK:E;*;*;*" in
  if negb canonical then (anyrun, anytrace, "-")
  else
    match tokenize_spec bs with
    | TokTruncDirect => ("ERR", "ERR", "truncated-direct-push")
    | TokBad => ("ERR", "ERR", "-")
    | TokOk ts =>
        if covered ts then
          match exec_script ts ([], []) with
          | Some (s, a) =>
              let r := show_items (rev s) +++ ";" +++ show_items (rev a) in
              ("OK:R;" +++ r +++ ";*;*", "OK:F;" +++ r +++ ";*", known_of ts)
          | None => ("ERR", "OK:E;*;*;*", known_of ts)
          end
        else (anyrun, anytrace, "-")
    end.

(* ---- interp.trace ---- *)
Fixpoint trace_fuel (fuel : nat) (i : interp0) (last : string * string) (steps : string) : string :=
  match fuel with
  | O => "FUEL"
  | S f =>
      match next0 i with
      | StepNone _ => "OK:F;" +++ fst last +++ ";" +++ snd last +++ ";" +++ steps
      | StepErr _ => "OK:E;" +++ fst last +++ ";" +++ snd last +++ ";" +++ steps
      | StepPanic => "PANIC"
      | StepOk i' =>
          let st := istate i' in
          let l := (show_items (stack st), show_items (alt_stack st)) in
          trace_fuel f i' l (steps +++ fst l +++ "^" +++ snd l +++ "/")
      end
  end.
Definition impl_trace (bits : list bit) : string :=
  let i := start bits in trace_fuel (S (remaining notx i)) i ("", "") "".
(* ---- interp.step_vs_run / interp.txrun ---- *)
Section SVR.
  Variable tc : Type.
  Variable pre : tc -> nat -> bytes -> outcome bytes.
  Variable ver : tc -> bytes -> bytes -> bytes -> outcome bool.
  Notation nextT := (next_impl tc pre ver).
  Notation runT := (Interp.run tc pre ver).

  Inductive stepped := SV (so : string) (n : N) (i : interp tc) (last : string * string) | SVPanic | SVFuel.
  Fixpoint step_all (fuel : nat) (i : interp tc) (n : N) (last : string * string) : stepped :=
    match fuel with
    | O => SVFuel
    | S f =>
        match nextT i with
        | StepNone i' => SV "F" n i' last
        | StepErr i' => SV "E" n i' last
        | StepPanic => SVPanic
        | StepOk i' =>
            let st := istate i' in
            step_all f i' (n + 1)%N (show_items (stack st), show_items (alt_stack st))
        end
    end.

  Definition svr (i0 : interp tc) : string :=
    match step_all (S (remaining tc i0)) i0 0%N ("", "") with
    | SVPanic => "PANIC"
    | SVFuel => "FUEL"
    | SV so n i last =>
        let st := istate i in
        let now := (show_items (stack st), show_items (alt_stack st)) in
        let eqp (a b : string * string) := String.eqb (fst a) (fst b) && String.eqb (snd a) (snd b) in
        let keeps := if eqp now last then "1" else "0" in
        let again : option string :=
          match nextT i with
          | StepPanic => None
          | StepNone _ => Some (if String.eqb so "E" then "N" else "-")
          | StepOk _ => Some "O"
          | StepErr i2 =>
              if String.eqb so "E" then
                let s2 := istate i2 in
                Some ("E" +++ (if eqp (show_items (stack s2), show_items (alt_stack s2)) now then "1" else "0"))
              else Some "E"
          end in
        match again with
        | None => "PANIC"
        | Some ag =>
            let ran : option (string * interp tc) :=
              match runT i0 with
              | RunOk j => Some ("O", j) | RunErr j => Some ("E", j) | _ => None
              end in
            match ran with
            | None => "PANIC"
            | Some (ro, j) =>
                let st2 := istate j in
                let same := if Bool.eqb (String.eqb so "F") (String.eqb ro "O")
                               && eqp now (show_items (stack st2), show_items (alt_stack st2)) then "1" else "0" in
                "OK:" +++ so +++ ";" +++ dec_of_N n +++ ";" +++ show_state st +++ ";" +++ dec_of_N (N.of_nat (script_index i))
                +++ ";" +++ dec_of_N (N.of_nat (length (script_bits i)))
                +++ ";" +++ ro +++ ";" +++ show_state st2 +++ ";" +++ dec_of_N (N.of_nat (script_index j))
                +++ ";" +++ dec_of_N (N.of_nat (length (script_bits j)))
                +++ ";" +++ ag +++ ";" +++ same +++ ";" +++ keeps
            end
        end
    end.
  (* call history on one object: k x next(), clone, run(), run() on the clone, run() again *)
  Fixpoint stepk (k : nat) (i : interp tc) (n : N) : option (string * N * interp tc) :=
    match k with
    | O => Some ("O", n, i)
    | S k' =>
        match nextT i with
        | StepNone i' => Some ("F", n, i')
        | StepErr i' => Some ("E", n, i')
        | StepPanic => None
        | StepOk i' => stepk k' i' (n + 1)%N
        end
    end.
  Definition full (i : interp tc) : string :=
    show_state (istate i) +++ ";" +++ dec_of_N (N.of_nat (script_index i)) +++ ";" +++ dec_of_N (N.of_nat (length (script_bits i))).
  Definition ran (i : interp tc) : option (string * interp tc) :=
    match runT i with RunOk j => Some ("O", j) | RunErr j => Some ("E", j) | _ => None end.
  Definition hist (i0 : interp tc) (k : N) : string :=
    match stepk (N.to_nat k) i0 0%N with
    | None => "PANIC"
    | Some (ko, n, i) =>
        match ran i with
        | None => "PANIC"
        | Some (r1, j1) =>
            match ran j1, ran i0 with
            | Some (r2, j2), Some (rf, jf) =>
                let eqs (a b : list bytes) := String.eqb (show_items a) (show_items b) in
                let same := if String.eqb rf r1 && eqs (stack (istate jf)) (stack (istate j1))
                               && eqs (alt_stack (istate jf)) (alt_stack (istate j1)) then "1" else "0" in
                "OK:" +++ ko +++ ";" +++ dec_of_N n +++ ";" +++ r1 +++ ";" +++ full j1 +++ ";" +++ r2 +++ ";" +++ full j2
                +++ ";1;" +++ same +++ ";1;1;" +++ (match tx_script i with Some _ => "1" | None => "0" end)
            | _, _ => "PANIC"
            end
        end
    end.
End SVR.

(* C16 on a call history: the clone behaves like the original, running after k steps ends like a fresh run
   (same outcome and stacks), the accessors agree, Display does not fail *)
Definition spec_hist1 (ko r : string) : string :=
  "OK:" +++ ko +++ ";*;" +++ r +++ ";*;*;*;*;*;*;*;" +++ r +++ ";*;*;*;*;*;*;*;1;1;1;1;*".
Definition spec_hist : string :=
  spec_hist1 "O" "O" +++ "~" +++ spec_hist1 "O" "E" +++ "~" +++ spec_hist1 "F" "O" +++ "~" +++ spec_hist1 "E" "E".
(* decimal arguments must fit the driver's u64 *)
Definition N_of_dec64 (s : string) : option N :=
  match N_of_dec s with Some n => if (n <? 18446744073709551616)%N then Some n else None | None => None end.

Definition impl_step_vs_run (bits : list bit) : string := svr notx nopre nover (start bits).

(* interp.txrun: one input, unlocking and locking script given as bytes, Interpreter::from_transaction(&tx, idx).
   The generator only supplies data that is not a signature, so whatever the flag byte, the transaction side of
   the CHECKSIG family ends in an error (no flag / unknown flag / preimage error / DER error): both parameters
   are the constant Err.  What is tied here is the stack protocol before that point and the absence of panics. *)
Definition gpre (t : unit) (_ : nat) (_ : bytes) : outcome bytes := Err.
Definition gver (t : unit) (_ _ _ : bytes) : outcome bool := Err.
(* interp.txsafe: real-looking signatures and keys; the driver reports only the facts the C16 theorems give for
   every interpreter value (stepping = run, an error keeps the stacks and repeats, the alternative constructor
   behaves identically); the model side therefore only decides whether an interpreter is constructed at all. *)
Definition impl_txsafe (u l : bytes) (idx : N) : string :=
  match from_bytes u, from_bytes l with
  | Ok ub, Ok lb =>
      if negb (idx =? 0)%N then "ERR"
      else match from_bytes (to_bytes ub ++ to_bytes lb) with
           | Ok _ => "OK:1;1;1;1"
           | Err => "ERR"
           | Panic => "PANIC"
           end
  | Panic, _ | _, Panic => "PANIC"
  | _, _ => "ERR"
  end.

(* script argument of the transaction ops: byte descriptor or T<tree> *)
Definition script_arg (a : string) : option (outcome (list bit)) :=
  match a with
  | String "T" t => match parse_tree t with Some bits => Some (Ok bits) | None => None end
  | _ => match expand a with Some bs => Some (from_bytes bs) | None => None end
  end.

Definition impl_txrun (u l : outcome (list bit)) (idx : N) : string :=
  match u, l with
  | Ok ub, Ok lb =>
      if negb (idx =? 0)%N then "ERR"
      else match from_bytes (to_bytes ub ++ to_bytes lb) with
           | Ok bits => svr unit gpre gver (from_script_bits unit bits (Some tt))
           | Err => "ERR"
           | Panic => "PANIC"
           end
  | Panic, _ | _, Panic => "PANIC"
  | _, _ => "ERR"
  end.

(* C16: whatever the script, a state or an error; stepping = run; an error keeps the stacks *)
Definition spec_step_vs_run : string :=
  "OK:F;*;*;*;*;*;*;*;*;O;*;*;*;*;*;*;*;-;1;1~OK:E;*;*;*;*;*;*;*;*;E;*;*;*;*;*;*;*;E1;1;1".

(* ------------------------------------------------------------------ *)
Definition bits_eqb (a b : list bit) : bool := String.eqb (show_bits a) (show_bits b).

Definition with_bytes (a : string) (f : list bit -> bytes -> bool -> string) : string :=
  match expand a with
  | None => "BADARG"
  | Some bs => match from_bytes bs with
               | Ok bits => f bits bs true
               | Err => "ERR|ERR|-"
               | Panic => "PANIC|ERR|-"
               end
  end.
(* a hand-built tree is a script in the sense of C14 only when it is what the parser makes of
   its own serialisation *)
Definition with_tree (a : string) (f : list bit -> bytes -> bool -> string) : string :=
  match parse_tree a with
  | None => "BADARG"
  | Some bits =>
      let bs := to_bytes bits in
      f bits bs (match from_bytes bs with Ok bits' => bits_eqb bits bits' | _ => false end)
  end.

Definition do_run (bits : list bit) (bs : bytes) (canonical : bool) : string :=
  let '(sr, _, k) := analyse bs canonical in out3 (impl_run bits) sr k.
Definition do_trace (bits : list bit) (bs : bytes) (canonical : bool) : string :=
  let '(_, st, k) := analyse bs canonical in out3 (impl_trace bits) st k.
Definition do_svr (bits : list bit) (bs : bytes) (canonical : bool) : string :=
  out3 (impl_step_vs_run bits) spec_step_vs_run "-".

Definition run (op : string) (args : list string) : string :=
  match op, args with
  | "interp.run", [a] => with_bytes a do_run
  | "interp.runbits", [a] => with_tree a do_run
  | "interp.trace", [a] => with_bytes a do_trace
  | "interp.tracebits", [a] => with_tree a do_trace
  | "interp.step_vs_run", [a] => with_bytes a do_svr
  | "interp.step_vs_runbits", [a] => with_tree a do_svr
  | "interp.txrun", [u; l; n] =>
      match script_arg u, script_arg l, N_of_dec64 n with
      | Some ub, Some lb, Some idx => out3 (impl_txrun ub lb idx) (spec_step_vs_run +++ "~ERR") "-"
      | _, _, _ => "BADARG"
      end
  | "interp.step_vs_runasm", [a] =>
      match expand a with
      | Some bs =>
          if forallb (fun b => (b2n b <? 128)%N) bs then
            match from_asm (string_of_bytes bs) with
            | Ok bits => out3 (impl_step_vs_run bits) spec_step_vs_run "-"
            | Err => "ERR|ERR|-"
            | Panic => "PANIC|ERR|-"
            end
          else "BADARG"
      | None => "BADARG"
      end
  | "interp.hist", [a; k] =>
      match N_of_dec k with
      | Some k' => if (k' <? 100000)%N then with_bytes a (fun bits _ _ => out3 (hist notx nopre nover (start bits) k') spec_hist "-") else "BADARG"
      | None => "BADARG"
      end
  | "interp.histbits", [a; k] =>
      match N_of_dec k with
      | Some k' => if (k' <? 100000)%N then with_tree a (fun bits _ _ => out3 (hist notx nopre nover (start bits) k') spec_hist "-") else "BADARG"
      | None => "BADARG"
      end
  | "interp.histtx", [u; l; k] =>
      match script_arg u, script_arg l, N_of_dec k with
      | Some ub, Some lb, Some k' =>
          if (k' <? 100000)%N then
            out3 (match ub, lb with
                  | Ok ubits, Ok lbits =>
                      match from_bytes (to_bytes ubits ++ to_bytes lbits) with
                      | Ok bits => hist unit gpre gver (from_script_bits unit bits (Some tt)) k'
                      | Err => "ERR" | Panic => "PANIC"
                      end
                  | Panic, _ | _, Panic => "PANIC"
                  | _, _ => "ERR"
                  end) (spec_hist +++ "~ERR") "-"
          else "BADARG"
      | _, _, _ => "BADARG"
      end
  | "interp.histtxbits", [u; l; t; n; k] =>
      match expand u, expand l, parse_tree t, N_of_dec64 n, N_of_dec k with
      | Some ub, Some lb, Some bits, Some _, Some k' =>
          if (k' <? 100000)%N then
            out3 (match from_bytes ub, from_bytes lb with
                  | Ok _, Ok _ => hist unit gpre gver (from_script_bits unit bits (Some tt)) k'
                  | Panic, _ | _, Panic => "PANIC"
                  | _, _ => "ERR"
                  end) (spec_hist +++ "~ERR") "-"
          else "BADARG"
      | _, _, _, _, _ => "BADARG"
      end
  | "interp.txsafe", [u; l; n; m] =>
      match expand u, expand l, N_of_dec64 n, N_of_dec64 m with
      | Some ub, Some lb, Some idx, Some _ => out3 (impl_txsafe ub lb idx) "OK:1;1;1;1~ERR" "-"
      | _, _, _, _ => "BADARG"
      end
  | _, _ => "BADOP"
  end.
