(* Run/Exec_C02.v — executable entry point of the C02 correspondence check.
   run op args = "<implementation model output>|<specification output>|<known-finding class or ->" *)
From BSV Require Import Base.Hex Model.Opcodes Model.Script Spec.ScriptTok Spec.OpcodeSpec.

Definition show_tok (t : tok) : string :=
  match t with
  | TOp c => "o" +++ dec_of_N c +++ ","
  | TPush c d => "p" +++ dec_of_N c +++ ":" +++ show_bytes d +++ ","
  end.
Fixpoint show_toks (ts : list tok) : string :=
  match ts with [] => "" | t :: r => show_tok t +++ show_toks r end.

(* flat token rendering of a nested bit list, as the driver computes it from to_script_bits() *)
Fixpoint bit_toks (b : bit) : string :=
  let fix bits_toks (l : list bit) : string :=
    match l with [] => "" | x :: r => bit_toks x +++ bits_toks r end in
  match b with
  | BOp c => show_tok (TOp c)
  | BPush d => show_tok (TPush (N.of_nat (length d)) d)
  | BPushData c d => show_tok (TPush c d)
  | BIf c p q => show_tok (TOp c) +++ bits_toks p
                 +++ match q with None => "" | Some q' => show_tok (TOp OP_ELSE) +++ bits_toks q' end
                 +++ show_tok (TOp OP_ENDIF)
  | BCoinbase d => "c" +++ show_bytes d +++ ","
  end.
Fixpoint bits_toks (l : list bit) : string :=
  match l with [] => "" | x :: r => bit_toks x +++ bits_toks r end.

Definition out3 (impl spec known : string) : string := impl +++ "|" +++ spec +++ "|" +++ known.

Definition show_parse (r : outcome (list bit)) : string :=
  match r with
  | Ok s => "OK:" +++ show_bytes (to_bytes s) +++ ";" +++ bits_toks s +++ ";" +++ show_bits s
  | Err => "ERR"
  | Panic => "PANIC"
  end.

Definition run_parse (bs : bytes) : string :=
  let impl := show_parse (from_bytes bs) in
  match tokenize_spec bs with
  | TokOk ts =>
      if balanced ts then out3 impl ("OK:" +++ show_bytes bs +++ ";" +++ show_toks ts +++ ";*") "-"
      else out3 impl "ERR" "-"
  | TokBad => out3 impl "ERR" "-"
  | TokTruncDirect => out3 impl "ERR" "truncated-direct-push"
  end.

Definition run_encode (d : bytes) : string :=
  let impl :=
    match encode_pushdata d with
    | Ok e => "OK:" +++ show_bytes e +++ ";" +++
              match from_bytes e with Ok s => bits_toks s | Err => "ERR" | Panic => "PANIC" end
    | Err => "ERR" | Panic => "PANIC"
    end in
  let len := N.of_nat (length d) in
  let spec :=
    if (1 <=? len)%N && (len <? 4294967296)%N then
      let c := match minimal_prefix len with b :: _ => b2n b | [] => 0%N end in
      "OK:" +++ show_bytes (minimal_prefix len ++ d) +++ ";" +++ show_tok (TPush c d)
    else "-" in
  out3 impl spec "-".

Definition run_prefix (n : N) : string :=
  let impl := match get_pushdata_prefix_bytes n with
              | Ok p => "OK:" +++ hex_of_bytes p | Err => "ERR" | Panic => "PANIC" end in
  let spec := if (1 <=? n)%N && (n <? 4294967296)%N then "OK:" +++ hex_of_bytes (minimal_prefix n) else "-" in
  out3 impl spec "-".

(* name and value of the opcode a single byte parses to: implementation = regenerated enum table,
   specification = the protocol table of Spec/OpcodeSpec.v (bytes 1..75 are direct pushes, not opcodes) *)
Definition run_opname (n : N) : string :=
  let render t := match lookup_name t n with Some s => "OK:" +++ s +++ ";" +++ dec_of_N n | None => "ERR" end in
  if (1 <=? n)%N && (n <=? 75)%N then out3 "PUSH" "PUSH" "-"
  else out3 (render Gen.Opcodes_gen.opcode_table) (render opcode_spec_table) "-".

(* other public routes to the same bytes: get_script_length, to_hex, from_hex, from_script_bits(to_script_bits).
   Output: OK:<get_script_length>;<to_hex = hex(to_bytes)><from_hex(hex input) gives the same script><rebuilt from its
   own bits gives the same bytes>.  Implementation: every route goes through the one serialiser/parser of the model.
   Specification: for a script of the property's domain the length is the input's and the three flags are 1. *)
Definition run_routes (bs : bytes) : string :=
  let impl := match from_bytes bs with
              | Ok s => "OK:" +++ dec_of_N (N.of_nat (length (to_bytes s))) +++ ";111"
              | Err => "ERR" | Panic => "PANIC" end in
  match tokenize_spec bs with
  | TokOk ts =>
      if balanced ts then out3 impl ("OK:" +++ dec_of_N (N.of_nat (length bs)) +++ ";111") "-"
      else out3 impl "ERR" "-"
  | TokBad => out3 impl "ERR" "-"
  | TokTruncDirect => out3 impl "ERR" "truncated-direct-push"
  end.

Definition run (op : string) (args : list string) : string :=
  match op, args with
  | "script.routes", [a] => match expand a with Some bs => run_routes bs | None => "BADARG" end
  | "script.parse", [a] => match expand a with Some bs => run_parse bs | None => "BADARG" end
  | "script.encode_pushdata", [a] => match expand a with Some bs => run_encode bs | None => "BADARG" end
  | "script.opname", [a] => match N_of_dec a with Some n => if (n <? 256)%N then run_opname n else "BADARG" | None => "BADARG" end
  | "script.pushdata_prefix", [a] => match N_of_dec a with Some n => run_prefix n | None => "BADARG" end
  | _, _ => "BADOP"
  end.
