(* Spec/TxWire.v — the Bitcoin transaction wire format, written from the protocol description
   (not from the library): an encoder over RAW fields (scripts are byte strings), an independent
   decoder (compact sizes need not be minimal on input; bytes after the lock time are reported,
   not rejected), what "canonical" means, and the field-level meaning of the accessors. *)
From BSV Require Import Base.Hex.

Record in_fields := mk_in {
  f_prev : bytes;      (* id of the spent transaction in display order (the order of a txid); on the wire reversed *)
  f_vout : N;          (* 32 bit *)
  f_script : bytes;    (* unlocking script, raw *)
  f_seq : N            (* 32 bit *)
}.
Record out_fields := mk_out { f_value : N (* 64 bit *); f_pk : bytes (* locking script, raw *) }.
Record tx_fields := mk_fields {
  f_version : N; f_ins : list in_fields; f_outs : list out_fields; f_locktime : N }.

(* ------------------------------------------------------------------ *)
(* compact size ("varint"): 1, 3, 5 or 9 bytes; the shortest form is the canonical one *)
Definition compact (n : N) : bytes :=
  if (n <? 253)%N then [n2b n]
  else if (n <? 65536)%N then xfd :: le_bytes 2 n
  else if (n <? 4294967296)%N then xfe :: le_bytes 4 n
  else xff :: le_bytes 8 n.

Definition encode_in (i : in_fields) : bytes :=
  rev (f_prev i) ++ le_bytes 4 (f_vout i) ++ compact (N.of_nat (length (f_script i))) ++ f_script i ++ le_bytes 4 (f_seq i).
Definition encode_out (o : out_fields) : bytes :=
  le_bytes 8 (f_value o) ++ compact (N.of_nat (length (f_pk o))) ++ f_pk o.
Definition encode_tx_spec (f : tx_fields) : bytes :=
  le_bytes 4 (f_version f)
  ++ compact (N.of_nat (length (f_ins f))) ++ List.concat (map encode_in (f_ins f))
  ++ compact (N.of_nat (length (f_outs f))) ++ List.concat (map encode_out (f_outs f))
  ++ le_bytes 4 (f_locktime f).

(* ------------------------------------------------------------------ *)
(* independent decoder.  Every reader returns (value, minimal?, rest). *)
Definition take_exact (n : nat) (bs : bytes) : option (bytes * bytes) :=
  if Nat.ltb (length bs) n then None else Some (firstn n bs, skipn n bs).
Definition take_int (w : nat) (bs : bytes) : option (N * bytes) :=
  match take_exact w bs with Some (a, r) => Some (le_val a, r) | None => None end.

Definition read_compact (bs : bytes) : option (N * bool * bytes) :=
  match bs with
  | [] => None
  | b :: r =>
      let c := b2n b in
      if (c <? 253)%N then Some (c, true, r)
      else
        let w := if (c =? 253)%N then 2 else if (c =? 254)%N then 4 else 8 in
        let lo := if (c =? 253)%N then 253%N else if (c =? 254)%N then 65536%N else 4294967296%N in
        match take_int w r with
        | Some (v, r') => Some (v, (lo <=? v)%N, r')
        | None => None
        end
  end.

(* a declared length is compared as a number first: it may be as large as 2^64-1 *)
Definition take_len (n : N) (bs : bytes) : option (bytes * bytes) :=
  if (N.of_nat (length bs) <? n)%N then None else Some (firstn (N.to_nat n) bs, skipn (N.to_nat n) bs).

Definition decode_in (bs : bytes) : option (in_fields * bool * bytes) :=
  match take_exact 32 bs with None => None | Some (idw, r0) =>
  match take_int 4 r0 with None => None | Some (vo, r1) =>
  match read_compact r1 with None => None | Some (len, m, r2) =>
  match take_len len r2 with None => None | Some (scr, r3) =>
  match take_int 4 r3 with None => None | Some (sq, r4) =>
    Some (mk_in (rev idw) vo scr sq, m, r4)
  end end end end end.

Definition decode_out (bs : bytes) : option (out_fields * bool * bytes) :=
  match take_int 8 bs with None => None | Some (v, r1) =>
  match read_compact r1 with None => None | Some (len, m, r2) =>
  match take_len len r2 with None => None | Some (scr, r3) =>
    Some (mk_out v scr, m, r3)
  end end end.

(* `count` items; the count is a number up to 2^64-1, every item takes at least one byte, so
   S (length bs) rounds suffice for every count that can succeed *)
Fixpoint decode_list {A} (item : bytes -> option (A * bool * bytes)) (fuel : nat) (count : N) (bs : bytes)
  : option (list A * bool * bytes) :=
  if (count =? 0)%N then Some ([], true, bs)
  else match fuel with
       | O => None
       | S fuel' =>
           match item bs with None => None | Some (a, m, r) =>
           match decode_list item fuel' (count - 1)%N r with None => None | Some (l, ml, r') =>
             Some (a :: l, m && ml, r')
           end end
       end.

Record decoded := mk_decoded {
  d_fields : tx_fields;
  d_minimal : bool;     (* every compact size was in its shortest form *)
  d_rest : bytes        (* bytes after the lock time *)
}.

Definition decode_tx_spec (bs : bytes) : option decoded :=
  match take_int 4 bs with None => None | Some (ver, r0) =>
  match read_compact r0 with None => None | Some (nin, m1, r1) =>
  match decode_list decode_in (S (length r1)) nin r1 with None => None | Some (ins, m2, r2) =>
  match read_compact r2 with None => None | Some (nout, m3, r3) =>
  match decode_list decode_out (S (length r3)) nout r3 with None => None | Some (outs, m4, r4) =>
  match take_int 4 r4 with None => None | Some (lt, r5) =>
    Some (mk_decoded (mk_fields ver ins outs lt) (m1 && m2 && m3 && m4) r5)
  end end end end end end.

Definition decode_fields_spec (bs : bytes) : option tx_fields :=
  match decode_tx_spec bs with Some d => Some (d_fields d) | None => None end.

(* well-formed = canonical: decodable, every compact size minimal, nothing after the lock time *)
Definition canonical (bs : bytes) : bool :=
  match decode_tx_spec bs with
  | Some d => d_minimal d && match d_rest d with [] => true | _ => false end
  | None => false
  end.

(* ------------------------------------------------------------------ *)
(* what the accessors mean on the decoded fields *)
Definition null_id : bytes := repeat x00 32.
Definition null_outpoint (i : in_fields) : bool := bytes_eqb (f_prev i) null_id && (f_vout i =? 4294967295)%N.
Definition spec_is_coinbase (f : tx_fields) : bool :=
  match f_ins f with [i] => null_outpoint i | _ => false end.
Definition spec_outpoint (i : in_fields) : bytes := rev (f_prev i) ++ le_bytes 4 (f_vout i).
Definition spec_outpoints (f : tx_fields) : list bytes := map spec_outpoint (f_ins f).
Fixpoint sum_values (l : list out_fields) : N :=
  match l with [] => 0%N | o :: r => (f_value o + sum_values r)%N end.
Definition spec_total_out (f : tx_fields) : N := sum_values (f_outs f).

(* range conditions of the wire format (lengths and counts must be expressible as compact sizes) *)
Definition in_range (i : in_fields) : Prop :=
  length (f_prev i) = 32 /\ (f_vout i < 4294967296)%N /\ (f_seq i < 4294967296)%N
  /\ (N.of_nat (length (f_script i)) < 18446744073709551616)%N.
Definition out_range (o : out_fields) : Prop :=
  (f_value o < 18446744073709551616)%N /\ (N.of_nat (length (f_pk o)) < 18446744073709551616)%N.
Definition fields_range (f : tx_fields) : Prop :=
  (f_version f < 4294967296)%N /\ (f_locktime f < 4294967296)%N
  /\ (N.of_nat (length (f_ins f)) < 18446744073709551616)%N
  /\ (N.of_nat (length (f_outs f)) < 18446744073709551616)%N
  /\ Forall in_range (f_ins f) /\ Forall out_range (f_outs f).
