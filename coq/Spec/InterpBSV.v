(* Spec/InterpBSV.v — Bitcoin SV (post-Genesis) script semantics for the non-signature opcodes,
   written from the protocol / the node's interpreter loop (from memory; no copy is available
   offline) and NOT from the library.  Choices that matter (DESIGN.md §5 C14):

   * A script is its token sequence (Spec.ScriptTok.tokenize_spec of the bytes).  Execution is the
     node's loop: a stack `vexec` of condition values, `velse` (has this level seen its OP_ELSE),
     `fExec` = every open level is true.  OP_IF/OP_NOTIF/OP_ELSE/OP_ENDIF are processed whether or
     not the position executes; an OP_ELSE without an open conditional or a second OP_ELSE for the
     same OP_IF, an OP_ENDIF without an open conditional, and an unclosed conditional at the end
     are failures (unbalanced conditional).  OP_VERIF/OP_VERNOTIF fail wherever they occur, executed
     or not (they lie in the opcode range that is always processed).
   * OP_RETURN at top level ends execution successfully with the stacks as they are; inside a
     conditional it stops all further execution but the rest is still scanned for balance.
   * Stacks are lists with the TOP FIRST.  Numbers are sign-magnitude little-endian of any length;
     operands need not be minimally encoded, results always are (zero is the empty vector).
   * truth (CastToBool): any non-zero byte, except that a final 0x80 alone (negative zero) is false.
   * comparison and boolean opcodes push 01 for true and the empty vector for false.
   * OP_DIV / OP_MOD truncate toward zero (remainder has the sign of the dividend); zero divisor fails.
   * OP_LSHIFT / OP_RSHIFT: `x n` — shift the byte string x, read as a big-endian bit string, by
     n bits, keeping its length; n (top of stack) negative fails.
   * OP_NUM2BIN `x n`: minimal encoding of x padded to n bytes below the sign bit; fails when the
     minimal encoding is longer than n, n is negative or n exceeds INT_MAX (the node's size check).  OP_BIN2NUM: minimal re-encoding.
   * OP_PICK/OP_ROLL `… n`: 0 <= n < depth (after removing n).  OP_SPLIT `x n`: 0 <= n <= |x|.
   * OP_AND/OR/XOR need equal lengths.  OP_SIZE pushes the length and keeps the item.
   * OP_2MUL / OP_2DIV: x*2, x/2 truncating toward zero (the original semantics).
   * OP_VER, OP_RESERVED, OP_RESERVED1, OP_RESERVED2 and any other opcode without a meaning
     fail when executed.  OP_NOP, OP_NOP1, OP_NOP4..10 and OP_CODESEPARATOR leave the stacks alone.
   * No limits on sizes, counts or stack depth. *)
From BSV Require Import Base.Hex Model.Opcodes Spec.ScriptTok Prim.Sha256 Prim.Sha1 Prim.Ripemd160.
Open Scope Z_scope.

Notation stk := (list bytes).

(* ------------------------------------------------------------------ *)
(* script numbers *)
Fixpoint num_mag (d : bytes) : N * bool :=
  match d with
  | [] => (0%N, false)
  | [b] => ((b2n b mod 128)%N, (128 <=? b2n b)%N)
  | b :: r => let '(m, s) := num_mag r in ((b2n b + 256 * m)%N, s)
  end.
Definition num_of (d : bytes) : Z :=
  let '(m, neg) := num_mag d in if neg then - Z.of_N m else Z.of_N m.

Fixpoint enc_fuel (fuel : nat) (a : N) (neg : bool) : bytes :=
  match fuel with
  | O => []
  | S f => if (a <? 128)%N then [n2b (a + if neg then 128 else 0)%N]
           else n2b a :: enc_fuel f (a / 256)%N neg
  end.
Definition num_enc (z : Z) : bytes :=
  if z =? 0 then [] else enc_fuel (S (N.to_nat (N.size (Z.abs_N z)))) (Z.abs_N z) (z <? 0).

Fixpoint truthy (d : bytes) : bool :=
  match d with
  | [] => false
  | [b] => negb (b2n b =? 0)%N && negb (b2n b =? 128)%N
  | b :: r => negb (b2n b =? 0)%N || truthy r
  end.

Definition bool_enc (b : bool) : bytes := if b then [x01] else [].

(* ------------------------------------------------------------------ *)
(* byte-string helpers *)
Definition inv_byte (b : byte) : byte := n2b (255 - b2n b).
Fixpoint map2 (f : N -> N -> N) (a b : bytes) : bytes :=
  match a, b with x :: a', y :: b' => n2b (f (b2n x) (b2n y)) :: map2 f a' b' | _, _ => [] end.

Definition shift_left (x : bytes) (k : Z) : bytes :=
  let bits := 8 * Z.of_nat (length x) in
  if bits <=? k then repeat x00 (length x)
  else be_bytes (length x) (N.shiftl (be_val x) (Z.to_N k) mod 2 ^ Z.to_N bits)%N.
Definition shift_right (x : bytes) (k : Z) : bytes :=
  let bits := 8 * Z.of_nat (length x) in
  if bits <=? k then repeat x00 (length x)
  else be_bytes (length x) (N.shiftr (be_val x) (Z.to_N k)).

(* OP_NUM2BIN, the node's procedure on the minimal encoding m *)
Definition num2bin (x : bytes) (n : Z) : option bytes :=
  if (n <? 0) || (2147483647 <? n) then None
  else
    let m := num_enc (num_of x) in
    let len := Z.of_nat (length m) in
    if n <? len then None
    else if n =? len then Some m
    else
      let signbit := match rev m with [] => 0%N | l :: _ => N.land (b2n l) 128 end in
      let cleared := match rev m with [] => [] | l :: i => rev (n2b (N.land (b2n l) 127) :: i) end in
      Some (cleared ++ repeat x00 (Z.to_nat (n - 1 - len)) ++ [n2b signbit]).

(* ------------------------------------------------------------------ *)
(* opcodes on (main, alt); None = the script fails.
   `lim`: the variant with the library's machine-word limits: OP_SIZE and OP_DEPTH fail when the
   number they would push exceeds 2^31-1 (the library routes these two through an i32), and the
   index / position of OP_PICK, OP_ROLL, OP_SPLIT must fit a 64-bit usize.  NOT Bitcoin SV, but an
   item of 2 GiB, a stack of 2^31 entries or an item of 2^64 bytes is needed to tell the difference.
   The specification proper is `lim = false`. *)
Definition un (f : Z -> Z) (s : stk) : option stk :=
  match s with x :: r => Some (num_enc (f (num_of x)) :: r) | _ => None end.
Definition bin (f : Z -> Z -> Z) (s : stk) : option stk :=
  match s with b :: a :: r => Some (num_enc (f (num_of a) (num_of b)) :: r) | _ => None end.
Definition binb (f : Z -> Z -> bool) (s : stk) : option stk :=
  match s with b :: a :: r => Some (bool_enc (f (num_of a) (num_of b)) :: r) | _ => None end.
Definition hashop (h : bytes -> bytes) (s : stk) : option stk :=
  match s with x :: r => Some (h x :: r) | _ => None end.
Definition bitop (f : N -> N -> N) (s : stk) : option stk :=
  match s with
  | b :: a :: r => if Nat.eqb (length a) (length b) then Some (map2 f a b :: r) else None
  | _ => None
  end.
Definition too_big (lim : bool) (n : nat) : bool := lim && (2147483647 <? Z.of_nat n).
Definition over_usize (lim : bool) (k : Z) : bool := lim && (18446744073709551615 <? k).

Definition main_op (lim : bool) (o : N) (s : stk) : option stk :=
  match o with
  | 0%N => Some ([] :: s)
  | 79%N => Some (num_enc (-1) :: s)
  | 81%N | 82%N | 83%N | 84%N | 85%N | 86%N | 87%N | 88%N | 89%N | 90%N | 91%N | 92%N | 93%N | 94%N | 95%N | 96%N =>
      Some (num_enc (Z.of_N o - 80) :: s)
  | 97%N | 176%N | 179%N | 180%N | 181%N | 182%N | 183%N | 184%N | 185%N | 171%N => Some s
  | 105%N (* VERIFY *) => match s with x :: r => if truthy x then Some r else None | _ => None end
  | 115%N (* IFDUP *) => match s with x :: r => Some (if truthy x then x :: x :: r else x :: r) | _ => None end
  | 116%N (* DEPTH *) => if too_big lim (length s) then None else Some (num_enc (Z.of_nat (length s)) :: s)
  | 117%N (* DROP *) => match s with _ :: r => Some r | _ => None end
  | 118%N (* DUP *) => match s with x :: r => Some (x :: x :: r) | _ => None end
  | 119%N (* NIP *) => match s with b :: _ :: r => Some (b :: r) | _ => None end
  | 120%N (* OVER *) => match s with b :: a :: r => Some (a :: b :: a :: r) | _ => None end
  | 121%N (* PICK *) =>
      match s with
      | n :: r => let k := num_of n in
                  if (k <? 0) || (Z.of_nat (length r) <=? k) || over_usize lim k then None
                  else match nth_error r (Z.to_nat k) with Some x => Some (x :: r) | None => None end
      | _ => None
      end
  | 122%N (* ROLL *) =>
      match s with
      | n :: r => let k := num_of n in
                  if (k <? 0) || (Z.of_nat (length r) <=? k) || over_usize lim k then None
                  else match nth_error r (Z.to_nat k) with
                       | Some x => Some (x :: firstn (Z.to_nat k) r ++ skipn (S (Z.to_nat k)) r)
                       | None => None
                       end
      | _ => None
      end
  | 123%N (* ROT *) => match s with c :: b :: a :: r => Some (a :: c :: b :: r) | _ => None end
  | 124%N (* SWAP *) => match s with b :: a :: r => Some (a :: b :: r) | _ => None end
  | 125%N (* TUCK *) => match s with b :: a :: r => Some (b :: a :: b :: r) | _ => None end
  | 109%N (* 2DROP *) => match s with _ :: _ :: r => Some r | _ => None end
  | 110%N (* 2DUP *) => match s with b :: a :: r => Some (b :: a :: b :: a :: r) | _ => None end
  | 111%N (* 3DUP *) => match s with c :: b :: a :: r => Some (c :: b :: a :: c :: b :: a :: r) | _ => None end
  | 112%N (* 2OVER *) => match s with d :: c :: b :: a :: r => Some (b :: a :: d :: c :: b :: a :: r) | _ => None end
  | 113%N (* 2ROT *) => match s with f :: e :: d :: c :: b :: a :: r => Some (b :: a :: f :: e :: d :: c :: r) | _ => None end
  | 114%N (* 2SWAP *) => match s with d :: c :: b :: a :: r => Some (b :: a :: d :: c :: r) | _ => None end
  | 126%N (* CAT *) => match s with b :: a :: r => Some ((a ++ b) :: r) | _ => None end
  | 127%N (* SPLIT *) =>
      match s with
      | n :: x :: r => let k := num_of n in
                       if (k <? 0) || (Z.of_nat (length x) <? k) || over_usize lim k then None
                       else Some (skipn (Z.to_nat k) x :: firstn (Z.to_nat k) x :: r)
      | _ => None
      end
  | 128%N (* NUM2BIN *) =>
      match s with
      | n :: x :: r => match num2bin x (num_of n) with Some y => Some (y :: r) | None => None end
      | _ => None
      end
  | 129%N (* BIN2NUM *) => un (fun a => a) s
  | 130%N (* SIZE *) => match s with x :: r => if too_big lim (length x) then None else Some (num_enc (Z.of_nat (length x)) :: x :: r) | _ => None end
  | 131%N (* INVERT *) => match s with x :: r => Some (map inv_byte x :: r) | _ => None end
  | 132%N => bitop N.land s
  | 133%N => bitop N.lor s
  | 134%N => bitop N.lxor s
  | 135%N (* EQUAL *) => match s with b :: a :: r => Some (bool_enc (bytes_eqb a b) :: r) | _ => None end
  | 136%N (* EQUALVERIFY *) => match s with b :: a :: r => if bytes_eqb a b then Some r else None | _ => None end
  | 139%N => un (fun a => a + 1) s
  | 140%N => un (fun a => a - 1) s
  | 141%N => un (fun a => a * 2) s
  | 142%N => un (fun a => Z.quot a 2) s
  | 143%N => un Z.opp s
  | 144%N => un Z.abs s
  | 145%N (* NOT *) => match s with x :: r => Some (bool_enc (num_of x =? 0) :: r) | _ => None end
  | 146%N (* 0NOTEQUAL *) => match s with x :: r => Some (bool_enc (negb (num_of x =? 0)) :: r) | _ => None end
  | 147%N => bin Z.add s
  | 148%N => bin Z.sub s
  | 149%N => bin Z.mul s
  | 150%N (* DIV *) => match s with b :: a :: r => if num_of b =? 0 then None else Some (num_enc (Z.quot (num_of a) (num_of b)) :: r) | _ => None end
  | 151%N (* MOD *) => match s with b :: a :: r => if num_of b =? 0 then None else Some (num_enc (Z.rem (num_of a) (num_of b)) :: r) | _ => None end
  | 152%N (* LSHIFT *) => match s with n :: x :: r => if num_of n <? 0 then None else Some (shift_left x (num_of n) :: r) | _ => None end
  | 153%N (* RSHIFT *) => match s with n :: x :: r => if num_of n <? 0 then None else Some (shift_right x (num_of n) :: r) | _ => None end
  | 154%N (* BOOLAND *) => binb (fun a b => negb (a =? 0) && negb (b =? 0)) s
  | 155%N (* BOOLOR *) => binb (fun a b => negb (a =? 0) || negb (b =? 0)) s
  | 156%N => binb Z.eqb s
  | 157%N (* NUMEQUALVERIFY *) => match s with b :: a :: r => if num_of a =? num_of b then Some r else None | _ => None end
  | 158%N => binb (fun a b => negb (a =? b)) s
  | 159%N => binb Z.ltb s
  | 160%N => binb Z.gtb s
  | 161%N => binb Z.leb s
  | 162%N => binb Z.geb s
  | 163%N => bin Z.min s
  | 164%N => bin Z.max s
  | 165%N (* WITHIN *) =>
      match s with
      | mx :: mn :: x :: r => Some (bool_enc ((num_of mn <=? num_of x) && (num_of x <? num_of mx)) :: r)
      | _ => None
      end
  | 166%N => hashop ripemd160 s
  | 167%N => hashop sha1 s
  | 168%N => hashop sha256 s
  | 169%N => hashop (fun x => ripemd160 (sha256 x)) s
  | 170%N => hashop (fun x => sha256 (sha256 x)) s
  | _ => None
  end.

Definition spec_op (lim : bool) (o : N) (st : stk * stk) : option (stk * stk) :=
  let '(s, a) := st in
  match o with
  | 107%N (* TOALTSTACK *) => match s with x :: r => Some (r, x :: a) | _ => None end
  | 108%N (* FROMALTSTACK *) => match a with x :: r => Some (x :: s, r) | _ => None end
  | _ => match main_op lim o s with Some s' => Some (s', a) | None => None end
  end.

(* ------------------------------------------------------------------ *)
(* the interpreter loop over tokens *)
Record fstate : Type := mkF { f_main : stk; f_alt : stk; f_exec : list bool; f_else : list bool; f_ret : bool }.
Inductive fres : Type := FRun (st : fstate) | FDone (s a : stk) | FFail.

Definition all_true (l : list bool) : bool := forallb (fun b => b) l.

Definition step_tok (lim : bool) (t : tok) (st : fstate) : fres :=
  let '(mkF s a ve vl ret) := st in
  match t with
  | TPush _ d => if all_true ve && negb ret then FRun (mkF (d :: s) a ve vl ret) else FRun st
  | TOp o =>
      let fexec := all_true ve && (negb ret || (o =? 106)%N) in
      if (o =? 99)%N || (o =? 100)%N then
        if fexec then
          match s with
          | [] => FFail
          | x :: r => let v := if (o =? 100)%N then negb (truthy x) else truthy x in
                      FRun (mkF r a (v :: ve) (false :: vl) ret)
          end
        else FRun (mkF s a (false :: ve) (false :: vl) ret)
      else if (o =? 101)%N || (o =? 102)%N then FFail
      else if (o =? 103)%N then
        match ve, vl with
        | v :: ve', false :: vl' => FRun (mkF s a (negb v :: ve') (true :: vl') ret)
        | _, _ => FFail
        end
      else if (o =? 104)%N then
        match ve, vl with
        | _ :: ve', _ :: vl' => FRun (mkF s a ve' vl' ret)
        | _, _ => FFail
        end
      else if negb fexec then FRun st
      else if (o =? 106)%N then
        match ve with
        | [] => FDone s a
        | _ => FRun (mkF s a ve vl true)
        end
      else
        match spec_op lim o (s, a) with
        | Some (s', a') => FRun (mkF s' a' ve vl ret)
        | None => FFail
        end
  end.

Fixpoint exec_flat (lim : bool) (ts : list tok) (st : fstate) : option (stk * stk) :=
  match ts with
  | [] => match f_exec st with [] => Some (f_main st, f_alt st) | _ => None end
  | t :: r => match step_tok lim t st with
              | FRun st' => exec_flat lim r st'
              | FDone s a => Some (s, a)
              | FFail => None
              end
  end.

Definition exec_script (ts : list tok) (st : stk * stk) : option (stk * stk) :=
  exec_flat false ts (mkF (fst st) (snd st) [] [] false).
Definition exec_script_lim31 (ts : list tok) (st : stk * stk) : option (stk * stk) :=
  exec_flat true ts (mkF (fst st) (snd st) [] [] false).

(* ------------------------------------------------------------------ *)
(* C14 talks about scripts over: pushes, constants, conditionals, VERIFY, RETURN, stack, alt-stack,
   splice, bitwise, comparison, arithmetic and hashing opcodes the library implements (plus the
   opcodes that simply fail or do nothing).  Not covered: CHECKSIG family, CLTV/CSV, the template
   pseudo-opcodes and OP_INVALID_ABOVE/OP_INVALIDOPCODE (C16 only). *)
Definition covered_op (o : N) : bool :=
  negb ((172 <=? o)%N && (o <=? 175)%N) && negb ((o =? 177)%N || (o =? 178)%N)
  && negb ((o =? 186)%N || (251 <=? o)%N) && ((o =? 0)%N || (79 <=? o)%N).
Definition covered_tok (t : tok) : bool :=
  match t with TOp o => covered_op o | TPush _ _ => true end.
Definition covered (ts : list tok) : bool := forallb covered_tok ts.

(* ------------------------------------------------------------------ *)
(* known-finding classes (predicates of the script) *)
Definition has_op (p : N -> bool) (ts : list tok) : bool :=
  existsb (fun t => match t with TOp o => p o | _ => false end) ts.

Definition cls_return (ts : list tok) : bool := has_op (fun o => (o =? 106)%N) ts.
Definition cls_shift (ts : list tok) : bool := has_op (fun o => (o =? 152)%N || (o =? 153)%N) ts.
Definition cls_num2bin (ts : list tok) : bool := has_op (fun o => (o =? 128)%N) ts.
Definition cls_verif (ts : list tok) : bool := has_op (fun o => (o =? 101)%N || (o =? 102)%N) ts.

(* A second OP_ELSE for the same OP_IF.  The library's parser keeps it as an ordinary opcode inside
   the else-branch (true = this level has seen its OP_ELSE); it fails when executed but goes
   unnoticed when that branch is not taken.  OP_ELSE / OP_ENDIF outside any conditional are ordinary
   top-level opcodes for the parser and always reach the interpreter, which refuses them. *)
Fixpoint second_else_from (open : list bool) (ts : list tok) : bool :=
  match ts with
  | [] => false
  | TOp o :: r =>
      if (99 <=? o)%N && (o <=? 102)%N then second_else_from (false :: open) r
      else if (o =? 103)%N then
        match open with
        | false :: op' => second_else_from (true :: op') r
        | true :: _ => true
        | [] => second_else_from [] r
        end
      else if (o =? 104)%N then
        match open with _ :: op' => second_else_from op' r | [] => second_else_from [] r end
      else second_else_from open r
  | TPush _ _ :: r => second_else_from open r
  end.
Definition cls_second_else (ts : list tok) : bool := second_else_from [] ts.
