(* Spec/EcdsaSpec.v — what properties C05 / C06 prescribe, stated without reference to the repository's code.

   C05: a deterministic signature is the pair (r, s) of textbook ECDSA (SEC 1 4.1.3) with
          e  = SHA-256(m)  or  SHA-256(SHA-256(m))                (the hash choice)
          k  = RFC 6979 3.2 with HMAC-SHA256, x = d, h1 = e       (nonce byte order "plain")
                                           or h1 = reverse(e)     (nonce byte order "reversed")
          z  = bits2int(e) mod n
        followed by low-S normalisation (s := n - s when s > n/2).
        The elliptic-curve arithmetic itself is a parameter [sign] (Prim/Secp256k1.v prim_sign on Z for the
        theorems, its BigZ twin for execution).
   C06: DER is the strict encoding of Prim/Der.v; DER + flag appends one of the fourteen flag bytes; the compact
        form is  (27 + recid + 4*compressed) || r || s  with 32-byte big-endian scalars. *)
From BSV Require Import Base.Bytes Base.Hex.
From BSV Require Import Prim.Num Prim.Secp256k1 Prim.Sha256 Prim.Hmac Prim.Rfc6979 Prim.Rfc6979Inst Prim.Der.
Local Open Scope Z_scope.

Definition spec_digest (double : bool) (m : bytes) : bytes :=
  if double then sha256 (sha256 m) else sha256 m.

Section WithSign.
  Variable sign : Z -> Z -> Z -> option (Z * Z * bool).   (* d k z -> low-S normalised (r, s), recovery bit *)

  (* RFC 6979 signature of the digest e with the nonce derived from h1 *)
  Definition rfc6979_sign (d : Z) (e h1 : bytes) : option (Z * Z) :=
    match rfc6979_k_sha256 d (bits2int h1 mod secp_n) [] with
    | Some k => match sign d k (bits2int e mod secp_n) with Some (r, s, _) => Some (r, s) | None => None end
    | None => None
    end.

  Definition spec_sign_det (d : Z) (double : bool) (m : bytes) (reverse_k : bool) : option (Z * Z) :=
    let e := spec_digest double m in
    rfc6979_sign d e (if reverse_k then rev e else e).

  (* signing a 32-byte digest directly *)
  Definition spec_sign_digest (d : Z) (e : bytes) : option (Z * Z) := rfc6979_sign d e e.

  (* caller-supplied nonce *)
  Definition spec_sign_k (d k : Z) (double : bool) (m : bytes) : option (Z * Z) :=
    match sign d k (bits2int (spec_digest double m) mod secp_n) with Some (r, s, _) => Some (r, s) | None => None end.
End WithSign.

(* ------------------------------------------------------------------ *)
(* C06 *)
Definition flag_bytes : list N := [64; 1; 2; 3; 128; 65; 66; 67; 193; 194; 195; 129; 130; 131]%N.
Definition spec_is_flag (b : byte) : bool := existsb (N.eqb (b2n b)) flag_bytes.

(* the bytes that are a DER signature followed by a flag *)
Definition spec_sighashsig_parse (bs : bytes) : option (Z * Z * byte) :=
  match rev bs with
  | f :: rder =>
      if spec_is_flag f then
        match der_decode (rev rder) with Some (r, s) => Some (r, s, f) | None => None end
      else None
  | [] => None
  end.

Definition spec_compact (r s : Z) (recid : N) (compressed : bool) : bytes :=
  n2b (27 + recid + (if compressed then 4 else 0))%N :: be32 r ++ be32 s.

Definition spec_compact_parse (bs : bytes) : option (Z * Z * N * bool) :=
  match bs with
  | h :: body =>
      let hv := b2n h in
      if Nat.eqb (length body) 64 && (27 <=? hv)%N && (hv <=? 34)%N then
        let r := be_Z (firstn 32 body) in
        let s := be_Z (skipn 32 body) in
        if in_scalar r && in_scalar s then
          Some (r, s, ((hv - 27) mod 4)%N, (31 <=? hv)%N)
        else None
      else None
  | [] => None
  end.

(* Signature::from_der accepts, by design, a strict DER signature optionally followed by ONE flag byte *)
Definition spec_from_der (bs : bytes) : option (Z * Z) :=
  match der_decode bs with
  | Some rs => Some rs
  | None => match spec_sighashsig_parse bs with Some (r, s, _) => Some (r, s) | None => None end
  end.
