(* Spec/TemplateSpec.v — what property C19 demands: when a script element satisfies a template token,
   what is extracted, which scripts must match the template derived from themselves, which indices the
   criteria select; and the documented template grammar.  Written from the property statement; it
   shares only the data types (bit, mtoken, mkind, criteria, txout, txin) with the model.

   "decodes as a signature / public key" is a parameter (is_sig, is_pubkey), see Model/Template.v. *)
From BSV Require Import Base.Hex Model.Opcodes Model.Script Model.Template Model.Criteria Spec.ScriptTok Spec.AsmSpec.

(* the data carried by a push element *)
Definition push_data (b : bit) : option bytes :=
  match b with BPush d => Some d | BPushData _ d => Some d | _ => None end.

(* the stated integer comparison: "length <k> n" *)
Definition cmp_holds (k : lencmp) (len n : N) : Prop :=
  match k with
  | CEquals => len = n
  | CGreaterThan => (n < len)%N
  | CLessThan => (len < n)%N
  | CGreaterThanOrEquals => (n <= len)%N
  | CLessThanOrEquals => (len <= n)%N
  end.
Definition cmp_holds_b (k : lencmp) (len n : N) : bool :=
  match k with
  | CEquals => (len =? n)%N
  | CGreaterThan => (n <? len)%N
  | CLessThan => (len <? n)%N
  | CGreaterThanOrEquals => (n <=? len)%N
  | CLessThanOrEquals => (len <=? n)%N
  end.

Definition kind_of (t : mtoken) : option mkind :=
  match t with
  | MAnyData | MData _ _ => Some KData
  | MSignature => Some KSignature
  | MPublicKey => Some KPublicKey
  | MPublicKeyHash => Some KPublicKeyHash
  | _ => None
  end.

Section Spec.
  Variable is_sig : bytes -> bool.
  Variable is_pubkey : bytes -> bool.

  (* Signature, public-key and public-key-hash tokens denote direct pushes: such data is at most 73
     bytes long, so its minimal encoding is never an OP_PUSHDATAn element. *)
  Definition satisfies (t : mtoken) (b : bit) : Prop :=
    match t with
    | MOp c => b = BOp c
    | MPush d => b = BPush d
    | MPushData c d => b = BPushData c d
    | MAnyData => exists d, push_data b = Some d
    | MData n k => exists d, push_data b = Some d /\ cmp_holds k (N.of_nat (length d)) n
    | MSignature => exists d, b = BPush d /\ is_sig d = true
    | MPublicKey => exists d, b = BPush d /\ is_pubkey d = true
    | MPublicKeyHash => exists d, b = BPush d /\ length d = 20
    end.

  Definition template_matches (ts : list mtoken) (s : list bit) : Prop :=
    length s = length ts /\ Forall2 satisfies ts s.

  (* extracted values: the pushes under the non-exact tokens, in script order, tagged with the token kind *)
  Fixpoint extraction (ts : list mtoken) (s : list bit) : list (mkind * bytes) :=
    match ts, s with
    | t :: ts', b :: s' =>
        match kind_of t, push_data b with
        | Some k, Some d => (k, d) :: extraction ts' s'
        | _, _ => extraction ts' s'
        end
    | _, _ => []
    end.

  (* decidable version, used by the executable check *)
  Definition bit_eqb (a b : bit) : bool :=
    match a, b with
    | BOp x, BOp y => (x =? y)%N
    | BPush x, BPush y => bytes_eqb x y
    | BPushData c x, BPushData c' y => (c =? c')%N && bytes_eqb x y
    | _, _ => false
    end.
  Definition satisfies_b (t : mtoken) (b : bit) : bool :=
    match t with
    | MOp c => bit_eqb b (BOp c)
    | MPush d => bit_eqb b (BPush d)
    | MPushData c d => bit_eqb b (BPushData c d)
    | MAnyData => match push_data b with Some _ => true | None => false end
    | MData n k => match push_data b with Some d => cmp_holds_b k (N.of_nat (length d)) n | None => false end
    | MSignature => match b with BPush d => is_sig d | _ => false end
    | MPublicKey => match b with BPush d => is_pubkey d | _ => false end
    | MPublicKeyHash => match b with BPush d => Nat.eqb (length d) 20 | _ => false end
    end.
  Fixpoint forallb2 {A B} (f : A -> B -> bool) (l : list A) (m : list B) : bool :=
    match l, m with
    | [], [] => true
    | x :: l', y :: m' => f x y && forallb2 f l' m'
    | _, _ => false
    end.
  Definition template_matches_b (ts : list mtoken) (s : list bit) : bool := forallb2 satisfies_b ts s.

  (* ---------------------------------------------------------------- *)
  (* criteria *)
  Definition value_in_bounds (c : criteria) (v : option N) : Prop :=
    (forall e, c_exact c = Some e -> v = Some e) /\
    (forall m, c_min c = Some m -> exists x, v = Some x /\ (m <= x)%N) /\
    (forall M, c_max c = Some M -> exists x, v = Some x /\ (x <= M)%N).

  Definition output_selected (c : criteria) (o : txout) : Prop :=
    (forall t, c_template c = Some t -> template_matches t (o_script o)) /\
    value_in_bounds c (Some (o_value o)).

  (* the script of an input: unlocking script followed by the locking script when that is known *)
  Definition input_script (i : txin) (s : list bit) : Prop :=
    match i_locking i with
    | Some l => from_bytes (to_bytes (i_unlocking i) ++ to_bytes l) = Ok s
    | None => s = i_unlocking i
    end.
  Definition input_selected (c : criteria) (i : txin) : Prop :=
    (forall t, c_template c = Some t -> exists s, input_script i s /\ template_matches t s) /\
    value_in_bounds c (i_satoshis i).

  (* "exactly the indices ... " : a strictly ascending list with the given members *)
  Fixpoint ascending (l : list nat) : Prop :=
    match l with
    | a :: ((b :: _) as r) => a < b /\ ascending r
    | _ => True
    end.
  Definition selects {A} (sel : A -> Prop) (items : list A) (idx : list nat) : Prop :=
    ascending idx /\ forall k, In k idx <-> exists x, nth_error items k = Some x /\ sel x.

  (* decidable versions for the executable check *)
  Definition bounds_b (c : criteria) (v : option N) : bool :=
    match c_exact c with None => true | Some e => match v with Some x => (x =? e)%N | None => false end end
    && match c_min c with None => true | Some m => match v with Some x => (m <=? x)%N | None => false end end
    && match c_max c with None => true | Some M => match v with Some x => (x <=? M)%N | None => false end end.
End Spec.

(* ------------------------------------------------------------------ *)
(* scripts that must match the template derived from themselves, and the known-finding classes *)
Definition is_leaf (b : bit) : bool := match b with BIf _ _ _ => false | _ => true end.
Definition no_conditionals (s : list bit) : bool := forallb is_leaf s.

(* (i) a one-byte push whose two hex digits read as a decimal number 0..16:
       0x00..0x09 ("00".."09") and 0x10..0x16 ("10".."16") *)
Definition short_numeric_push (b : bit) : bool :=
  match b with
  | BPush [x] => (b2n x <=? 9)%N || ((16 <=? b2n x)%N && (b2n x <=? 22)%N)
  | _ => false
  end.
(* (ii) the pseudo-opcodes of the template language used as script opcodes *)
Definition pseudo_opcode (b : bit) : bool :=
  match b with BOp c => (251 <=? c)%N && (c <=? 254)%N | _ => false end.
Definition self_match_class (s : list bit) : bool :=
  match s with [] => true | _ => existsb short_numeric_push s || existsb pseudo_opcode s end.

(* ------------------------------------------------------------------ *)
(* the documented template grammar: tokens separated by single spaces;
   a token is a numeric alias 0..16, an opcode name (OP_DATA, OP_SIG, OP_PUBKEY, OP_PUBKEYHASH being the
   wildcards), OP_DATA<op><decimal length> with <op> one of >= <= = > <, or even-length hex data *)
Definition cmp_of_text (r : string) : option (lencmp * string) :=
  match r with
  | String ">" (String "=" n) => Some (CGreaterThanOrEquals, n)
  | String "<" (String "=" n) => Some (CLessThanOrEquals, n)
  | String "=" n => Some (CEquals, n)
  | String ">" n => Some (CGreaterThan, n)
  | String "<" n => Some (CLessThan, n)
  | _ => None
  end.

Definition spec_mtoken (u : string) : option mtoken :=
  match dec_alias u with
  | Some c => Some (MOp c)
  | None =>
    match opcode_of_name u with
    | Some c =>
        Some (if (c =? 251)%N then MAnyData else if (c =? 252)%N then MSignature
              else if (c =? 253)%N then MPublicKeyHash else if (c =? 254)%N then MPublicKey else MOp c)
    | None =>
      match strip_prefix "OP_DATA" u with
      | Some r =>
          match cmp_of_text r with
          | Some (k, n) =>
              match N_of_dec n with
              | Some v => if (v <=? 18446744073709551615)%N then Some (MData v k) else None
              | None => None
              end
          | None => None
          end
      | None =>
        match u with
        | EmptyString => None
        | _ => match bytes_of_hex u with
               | Some d => Some (let c := push_class (N.of_nat (length d)) in
                                 if (c <=? 75)%N then MPush d else MPushData c d)
               | None => None
               end
        end
      end
    end
  end.

Fixpoint spec_mtokens (l : list string) : option (list mtoken) :=
  match l with
  | [] => Some []
  | u :: r => match spec_mtoken u, spec_mtokens r with
              | Some t, Some ts => Some (t :: ts)
              | _, _ => None
              end
  end.
(* None: the text is not a template of the documented grammar (nothing is prescribed) *)
Definition spec_template (text : string) : option (list mtoken) := spec_mtokens (split_space text).

(* tokens "00".."09": even-length hex by the grammar, read as OP_0..OP_9 by the library *)
Definition short_numeric_token (u : string) : bool :=
  match u with
  | String "0" (String c EmptyString) => match digit_val c with Some _ => true | None => false end
  | _ => false
  end.
