(* Spec/ScriptTok.v — independent flat tokenizer for Bitcoin script bytes, the minimal push
   prefix prescribed by the protocol, and the balance automaton for conditionals.
   Written from the protocol description, not from the library. *)
From BSV Require Import Base.Hex Model.Opcodes.

(* A token is an opcode byte or a data push with its push opcode byte (1..75, 76, 77, 78). *)
Inductive tok := TOp (c : N) | TPush (c : N) (d : bytes).

Inductive tokres :=
| TokOk (ts : list tok)
| TokTruncDirect            (* a direct push 0x01..0x4b declares more bytes than remain *)
| TokBad.                   (* truncated OP_PUSHDATAn, or a byte that is not an opcode *)

Definition tcons (t : tok) (r : tokres) : tokres :=
  match r with TokOk ts => TokOk (t :: ts) | e => e end.

Definition len_width (c : N) : nat := if (c =? 76)%N then 1 else if (c =? 77)%N then 2 else 4.

Fixpoint tok_spec (fuel : nat) (bs : bytes) : tokres :=
  match bs with
  | [] => TokOk []
  | b :: r =>
    match fuel with
    | O => TokBad
    | S f =>
      let c := b2n b in
      if (1 <=? c)%N && (c <=? 75)%N then
        if (N.of_nat (length r) <? c)%N then TokTruncDirect
        else tcons (TPush c (firstn (N.to_nat c) r)) (tok_spec f (skipn (N.to_nat c) r))
      else if (76 <=? c)%N && (c <=? 78)%N then
        let w := len_width c in
        if Nat.ltb (length r) w then TokBad
        else
          let len := le_val (firstn w r) in
          let r1 := skipn w r in
          if (N.of_nat (length r1) <? len)%N then TokBad
          else tcons (TPush c (firstn (N.to_nat len) r1)) (tok_spec f (skipn (N.to_nat len) r1))
      else if is_opcode c then tcons (TOp c) (tok_spec f r)
      else TokBad
    end
  end.
Definition tokenize_spec (bs : bytes) : tokres := tok_spec (length bs) bs.

(* The known-finding class of C02: the byte string ends in a truncated direct push. *)
Definition truncated_tail (bs : bytes) : bool :=
  match tokenize_spec bs with TokTruncDirect => true | _ => false end.

Definition tok_bytes (t : tok) : bytes :=
  match t with
  | TOp c => [n2b c]
  | TPush c d =>
      if (c <=? 75)%N then n2b c :: d
      else n2b c :: le_bytes (len_width c) (N.of_nat (length d)) ++ d
  end.
Fixpoint toks_bytes (ts : list tok) : bytes :=
  match ts with [] => [] | t :: r => tok_bytes t ++ toks_bytes r end.

(* Minimal push prefix by the protocol thresholds 75 / 255 / 65535. *)
Definition minimal_prefix (len : N) : bytes :=
  if (len <=? 75)%N then [n2b len]
  else if (len <=? 255)%N then [n2b 76; n2b len]
  else if (len <=? 65535)%N then n2b 77 :: le_bytes 2 len
  else n2b 78 :: le_bytes 4 len.

(* Which flat token lists have properly closed conditionals, as the library's reader
   understands them: IF-family opens, ELSE switches an open `pass` branch to its `else`
   branch (and is an ordinary opcode anywhere else), ENDIF closes the innermost open
   conditional (and is an ordinary opcode at top level). *)
Inductive bmode := BPass | BFail.
Fixpoint balanced_from (st : list bmode) (ts : list tok) : bool :=
  match ts with
  | [] => match st with [] => true | _ => false end
  | TOp c :: r =>
      if is_if c then balanced_from (BPass :: st) r
      else if (c =? OP_ELSE)%N then
        match st with BPass :: st' => balanced_from (BFail :: st') r | _ => balanced_from st r end
      else if (c =? OP_ENDIF)%N then
        match st with _ :: st' => balanced_from st' r | [] => balanced_from [] r end
      else balanced_from st r
  | TPush _ _ :: r => balanced_from st r
  end.
Definition balanced (ts : list tok) : bool := balanced_from [] ts.
