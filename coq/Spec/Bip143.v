(* Spec/Bip143.v — the replay-protected signature-hash preimage of Bitcoin Cash / Bitcoin SV
   ("BUIP-HF Digest for replay protected signature verification across hard forks", i.e. the BIP143
   layout used with SIGHASH_FORKID).  Written from the specification text, on the wire-level view. *)
From BSV Require Import Base.Hex Spec.SighashWire.

Definition zero_hash : bytes := repeat x00 32.

Section Bip143.
  Variable H : bytes -> bytes.                 (* double SHA-256 *)

  (* 2. hashPrevouts: if ANYONECANPAY is not set, the double SHA256 of the serialisation of all input
        outpoints; otherwise a uint256 of 0x0000......0000 *)
  Definition hash_prevouts (t : wtx) (ht : N) : bytes :=
    if anyonecanpay ht then zero_hash else H (List.concat (map ser_outpoint (w_ins t))).

  (* 3. hashSequence: if none of ANYONECANPAY, SINGLE, NONE is set, the double SHA256 of the serialisation
        of nSequence of all inputs; otherwise zero *)
  Definition hash_sequence (t : wtx) (ht : N) : bytes :=
    if negb (anyonecanpay ht) && negb (base_type ht =? BASE_SINGLE)%N && negb (base_type ht =? BASE_NONE)%N
    then H (List.concat (map (fun i => u32le (w_seq i)) (w_ins t)))
    else zero_hash.

  (* 8. hashOutputs: if the type is neither SINGLE nor NONE, the double SHA256 of all outputs (amount, 8-byte
        little endian, with scriptPubKey serialised as a script inside CTxOut); if the type is SINGLE and the
        input index is smaller than the number of outputs, the double SHA256 of the output with the same
        index as the input; otherwise zero *)
  Definition hash_outputs (t : wtx) (ht : N) (n_in : nat) : bytes :=
    if negb (base_type ht =? BASE_SINGLE)%N && negb (base_type ht =? BASE_NONE)%N
    then H (List.concat (map ser_out (w_outs t)))
    else if (base_type ht =? BASE_SINGLE)%N then
      match nth_error (w_outs t) n_in with
      | Some o => H (ser_out o)
      | None => zero_hash
      end
    else zero_hash.

  (* the ten fields; `None` when there is no input with that index *)
  Definition bip143_preimage (t : wtx) (n_in : nat) (ht : N) (script_code : bytes) (amount : N) : option bytes :=
    match nth_error (w_ins t) n_in with
    | None => None
    | Some i =>
        Some (u32le (w_version t)                 (*  1. nVersion *)
              ++ hash_prevouts t ht               (*  2. hashPrevouts *)
              ++ hash_sequence t ht               (*  3. hashSequence *)
              ++ ser_outpoint i                   (*  4. outpoint (32-byte hash + 4-byte little endian) *)
              ++ var_bytes script_code            (*  5. scriptCode of the input (serialised as scripts inside CTxOuts) *)
              ++ u64le amount                     (*  6. value of the output spent by this input *)
              ++ u32le (w_seq i)                  (*  7. nSequence of the input *)
              ++ hash_outputs t ht n_in           (*  8. hashOutputs *)
              ++ u32le (w_lock t)                 (*  9. nLocktime *)
              ++ u32le ht)                        (* 10. sighash type of the signature (4-byte little endian) *)
    end.

  (* What the property allows the library to answer: the preimage, or — the one permitted difference —
     a refusal when the type is SINGLE and there is no output at the input's index. *)
  Definition single_without_output (t : wtx) (n_in : nat) (ht : N) : bool :=
    (base_type ht =? BASE_SINGLE)%N && Nat.leb (length (w_outs t)) n_in.
End Bip143.
