(* Spec/SpendTwo.v — the same characterisation as Spec/SpendSpec.v for locking scripts with TWO signature checks:
     <sig_B> <sig_A>  |  <key_A> OP_CHECKSIGVERIFY <key_B> OP_CHECKSIG      (or ... OP_CHECKSIGVERIFY OP_1 at the end)
   with OP_CODESEPARATOR at any top-level position.  Each check sees the script code that starts after the last separator
   that precedes THAT check (separators behind it stay in the code: kept by the FORKID digest, erased by the legacy one).
   Used by the specification column of the correspondence check only (no theorem is stated about this family). *)
From BSV Require Import Base.Bytes Base.Hex.
From BSV Require Import Prim.Secp256k1 Model.Opcodes Spec.ScriptTok Spec.SighashWire Spec.LegacySighash Spec.SpendSpec.

(* script code of the n-th signature check (n = 0: the first) *)
Fixpoint code_at (n : nat) (start ts : list tok) : list tok :=
  match ts with
  | [] => start
  | t :: r =>
      if is_check t then match n with O => start | S n' => code_at n' start r end
      else if is_separator t then code_at n r r
      else code_at n start r
  end.

Section Two.
  Variable H : bytes -> bytes.
  Variable decode : bytes -> option point.
  Variable verify : point -> Z -> Z * Z -> bool.

  Definition two_shape (ka kb : bytes) (vf : bool) : list tok :=
    [push_tok ka; TOp 173; push_tok kb] ++ tail_toks 172 vf.

  Definition expected_two (t : wtx) (n_in : nat) (amount : N) (lock unlock : list tok) : verdict :=
    match erase_separators lock, pushed_items unlock with
    | TPush _ ka :: TOp 173 :: TPush _ kb :: rest, Some [sgb; sga] =>
        let core := erase_separators lock in
        if toks_eqb core (two_shape ka kb false) || toks_eqb core (two_shape ka kb true) then
          if outside t n_in sga || outside t n_in sgb then Unspecified
          else if sig_valid H decode verify t n_in (code_at 0 lock lock) amount sga ka then
            (if sig_valid H decode verify t n_in (code_at 1 lock lock) amount sgb kb then Accept else Reject)
          else Reject
        else Unspecified
    | _, _ => Unspecified
    end.
End Two.
