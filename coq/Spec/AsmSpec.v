(* Spec/AsmSpec.v — what property C17 demands of the ASM text form, stated without reference to
   the library's code path (Model/Asm.v):
     * which scripts the round-trip statement quantifies over (minimal pushes, shape of parsed
       scripts), and the known-finding class of pushes whose hex text reads as a numeric alias;
     * which tokens the parser must accept and what they denote;
     * tokenisation of a text on whitespace, and the flat rendering of a token sequence. *)
From BSV Require Import Base.Hex Gen.Opcodes_gen Model.Opcodes Model.Script Spec.ScriptTok.

(* ------------------------------------------------------------------ *)
(* predicates on script trees *)

(* `all_leaves P b`: P holds on every element that is not a conditional, at any depth *)
Fixpoint all_leaves (P : bit -> bool) (b : bit) : bool :=
  match b with
  | BIf _ p q => forallb (all_leaves P) p && match q with None => true | Some q' => forallb (all_leaves P) q' end
  | _ => P b
  end.

(* minimal push form: 1..75 bytes by a direct push, 76..255 by OP_PUSHDATA1, 256..65535 by
   OP_PUSHDATA2, longer by OP_PUSHDATA4; empty data is the opcode OP_0, never a push element. *)
Definition minimal_leaf (b : bit) : bool :=
  match b with
  | BPush d => let n := N.of_nat (length d) in (1 <=? n)%N && (n <=? 75)%N
  | BPushData c d =>
      let n := N.of_nat (length d) in
      ((c =? 76)%N && (76 <=? n)%N && (n <=? 255)%N)
      || ((c =? 77)%N && (256 <=? n)%N && (n <=? 65535)%N)
      || ((c =? 78)%N && (65536 <=? n)%N)
  | _ => true
  end.
Definition minimal_pushes (s : list bit) : bool := forallb (all_leaves minimal_leaf) s.

Definition not_coinbase (b : bit) : bool := match b with BCoinbase _ => false | _ => true end.
Definition no_coinbase (s : list bit) : bool := forallb (all_leaves not_coinbase) s.

(* The known-finding class: a one-byte push 0x10..0x16.  Its two hex digits are the decimal text of
   one of the aliases "10".."16". *)
Definition numeric_looking (d : bytes) : bool :=
  match d with
  | [b] => (16 <=? b2n b)%N && (b2n b <=? 22)%N
  | _ => false
  end.
Definition not_numeric_push (b : bit) : bool := match b with BPush d => negb (numeric_looking d) | _ => true end.
Definition ambiguous_numeric_push (s : list bit) : bool := negb (forallb (all_leaves not_numeric_push) s).

(* Shape of every script a parser of the library returns (`from_bytes`, `from_asm`): the IF family
   occurs only as the head of a conditional; a `pass` branch has no bare ELSE / ENDIF at its own
   level and an `else` branch no bare ENDIF (they would have ended the branch).  Scripts assembled
   by hand through `from_script_bits` may violate this; a lone `OpCode(OP_IF)` renders as "OP_IF",
   which no parser accepts. *)
Definition ok_head (m : mode) (b : bit) : bool :=
  match b with
  | BOp c =>
      match m with
      | Top => true
      | Pass => negb (c =? OP_ELSE)%N && negb (c =? OP_ENDIF)%N
      | Fail => negb (c =? OP_ENDIF)%N
      end
  | _ => true
  end.
Fixpoint canon_bit (b : bit) : bool :=
  match b with
  | BOp c => negb (is_if c)
  | BIf c p q =>
      is_if c && forallb (fun x => ok_head Pass x && canon_bit x) p
      && match q with None => true | Some q' => forallb (fun x => ok_head Fail x && canon_bit x) q' end
  | _ => true
  end.
Definition canon_in (m : mode) (l : list bit) : bool := forallb (fun x => ok_head m x && canon_bit x) l.
Definition canonical (s : list bit) : bool := canon_in Top s.

(* ------------------------------------------------------------------ *)
(* accepted tokens *)
Definition alias_names : list string :=
  ["0"; "1"; "2"; "3"; "4"; "5"; "6"; "7"; "8"; "9"; "10"; "11"; "12"; "13"; "14"; "15"; "16"].
Definition opcode_names : list string := map fst opcode_table.

Definition hex_digit (c : ascii) : bool :=
  let n := N_of_ascii c in
  ((48 <=? n)%N && (n <=? 57)%N) || ((97 <=? n)%N && (n <=? 102)%N) || ((65 <=? n)%N && (n <=? 70)%N).
Fixpoint all_chars (P : ascii -> bool) (s : string) : bool :=
  match s with EmptyString => true | String c r => P c && all_chars P r end.
Definition even_hex (s : string) : bool := Nat.even (slength s) && all_chars hex_digit s.

Definition accepted_token (u : string) : Prop := In u alias_names \/ In u opcode_names \/ even_hex u = true.

(* the push opcode byte prescribed for a payload length *)
Definition push_class (len : N) : N := match minimal_prefix len with b :: _ => b2n b | [] => 0%N end.

(* numeric alias: canonical decimal text of 0..16 -> OP_0, OP_1..OP_16 *)
Definition dec_alias (u : string) : option N :=
  if Nat.leb (slength u) 2 then
    match N_of_dec u with
    | Some k => if (k <=? 16)%N then
                  if String.eqb (dec_of_N k) u then Some (if (k =? 0)%N then 0%N else (80 + k)%N) else None
                else None
    | None => None
    end
  else None.

Definition spec_token (u : string) : option tok :=
  match dec_alias u with
  | Some c => Some (TOp c)
  | None =>
    match opcode_of_name u with
    | Some c => Some (TOp c)
    | None =>
      match bytes_of_hex u with
      | Some d => Some (TPush (push_class (N.of_nat (length d))) d)
      | None => None
      end
    end
  end.

(* ------------------------------------------------------------------ *)
(* tokenisation of a text: tokens are the maximal runs of non-whitespace characters *)
Definition ws_char (c : ascii) : bool :=
  existsb (Ascii.eqb c) [" "; "009"; "010"; "011"; "012"; "013"]%char.

Fixpoint ws_pieces (s : string) : list string :=
  match s with
  | EmptyString => [EmptyString]
  | String c r =>
      if ws_char c then EmptyString :: ws_pieces r
      else match ws_pieces r with
           | h :: t => String c h :: t
           | [] => [String c EmptyString]
           end
  end.
Definition ws_tokens (s : string) : list string :=
  filter (fun x => match x with EmptyString => false | _ => true end) (ws_pieces s).

Fixpoint spec_tokens (l : list string) : option (list tok) :=
  match l with
  | [] => Some []
  | u :: r => match spec_token u, spec_tokens r with
              | Some t, Some ts => Some (t :: ts)
              | _, _ => None
              end
  end.

(* what parsing a text must yield: the flat token sequence (None = must be rejected) *)
Definition parse_spec (s : string) : option (list tok) :=
  match spec_tokens (ws_tokens s) with
  | Some ts => if balanced ts then Some ts else None
  | None => None
  end.

(* ------------------------------------------------------------------ *)
(* flat renderings of a token sequence *)
Definition name_of (c : N) : string := match opcode_name c with Some s => s | None => EmptyString end.

Definition plain_tok (t : tok) : string :=
  match t with
  | TOp c => if (c =? 0)%N then "0" else name_of c
  | TPush _ d => hex_of_bytes d
  end.
Definition push_word (c : N) : string := if (c <=? 75)%N then "OP_PUSH" else name_of c.
Definition ext_tok (t : tok) : string :=
  match t with
  | TOp c => name_of c
  | TPush c d => push_word c +++ " " +++ dec_of_N (N.of_nat (length d)) +++ " " +++ hex_of_bytes d
  end.
Definition render_plain (ts : list tok) : string := join " " (map plain_tok ts).
Definition render_ext (ts : list tok) : string := join " " (map ext_tok ts).

(* token-level versions of the tree predicates (used by the executable check) *)
Definition minimal_tok (t : tok) : bool :=
  match t with
  | TOp _ => true
  | TPush c d => let n := N.of_nat (length d) in (1 <=? n)%N && (c =? push_class n)%N
  end.
Definition numeric_tok (t : tok) : bool :=
  match t with TPush c d => (c =? 1)%N && numeric_looking d | TOp _ => false end.

(* ------------------------------------------------------------------ *)
(* texts with arbitrary whitespace around the tokens:  w1 t1 w2 t2 ... wn tn e  where every w and e
   consists of whitespace characters only, the inner w are non-empty, and every token t is non-empty
   and free of whitespace *)
Definition clean_token (t : string) : bool :=
  match t with EmptyString => false | _ => all_chars (fun c => negb (ws_char c)) t end.
Fixpoint pad_ws (l : list (string * string)) (e : string) : string :=
  match l with
  | [] => e
  | (w, t) :: r => w +++ t +++ pad_ws r e
  end.
Fixpoint padded (first : bool) (l : list (string * string)) : bool :=
  match l with
  | [] => true
  | (w, t) :: r =>
      all_chars ws_char w && (first || match w with EmptyString => false | _ => true end) && clean_token t && padded false r
  end.

(* pushes that carry data (a push of no data renders as the empty string) *)
Definition data_nonempty (t : tok) : bool := match t with TPush _ [] => false | _ => true end.
