(* Spec/HashSpec.v — what C13 demands, stated over the published algorithms only
   (Prim/Sha1, Sha256, Sha512, Ripemd160 = FIPS 180-4 / ISO 10118-3; Prim/Hmac = RFC 2104;
   Prim/Pbkdf2 = RFC 2898). Nothing here mentions the Rust code.                     *)
From BSV Require Import Base.Bytes Prim.MD Prim.Sha256 Prim.Sha512 Prim.Sha1 Prim.Ripemd160
     Prim.Hmac Prim.Pbkdf2.

Inductive hash_id := HSha1 | HSha256 | HSha256d | HSha512 | HRipemd160 | HHash160.

(* double SHA-256 and HASH160 are the Bitcoin compositions *)
Definition hash_spec (h : hash_id) (m : bytes) : bytes :=
  match h with
  | HSha1 => sha1 m
  | HSha256 => sha256 m
  | HSha256d => sha256 (sha256 m)
  | HSha512 => sha512 m
  | HRipemd160 => ripemd160 m
  | HHash160 => ripemd160 (sha256 m)
  end.

(* block size B of RFC 2104: that of the (outer) compression function's input *)
Definition hash_block (h : hash_id) : nat :=
  match h with HSha512 => 128 | _ => 64 end.

Definition hash_len (h : hash_id) : nat :=
  match h with
  | HSha1 | HRipemd160 | HHash160 => 20
  | HSha256 | HSha256d => 32
  | HSha512 => 64
  end.

(* RFC 2104 with H = hash_spec h, B = hash_block h; arguments (key, message) *)
Definition hmac_spec (h : hash_id) (key msg : bytes) : bytes :=
  hmac (hash_spec h) (hash_block h) key msg.

(* RFC 2898 PBKDF2 with PRF = HMAC-h *)
Definition pbkdf2_spec (h : hash_id) (password salt : bytes) (iterations : N) (dklen : nat) : bytes :=
  pbkdf2 (hmac_spec h) (hash_len h) password salt iterations dklen.

(* a streaming digest, however it is fed, must give the function of the concatenation *)
Definition chunking_independent {S : Type} (init : S) (update : S -> bytes -> S) (finalize : S -> bytes)
           (F : bytes -> bytes) : Prop :=
  forall chunks : list bytes, finalize (fold_left update chunks init) = F (List.concat chunks).

Lemma hash_spec_length h m : length (hash_spec h m) = hash_len h.
Proof.
  destruct h; cbn [hash_spec hash_len];
    first [apply sha1_length | apply sha256_length | apply sha512_length | apply ripemd160_length].
Qed.

Lemma hash_len_fits h : hash_len h <= hash_block h.
Proof. destruct h; cbn; lia. Qed.

Lemma hmac_spec_length h k m : length (hmac_spec h k m) = hash_len h.
Proof. apply hmac_length. intros x. apply hash_spec_length. Qed.

Lemma pbkdf2_spec_length h pw salt c dklen : length (pbkdf2_spec h pw salt c dklen) = dklen.
Proof. apply pbkdf2_length; [apply hmac_spec_length | destruct h; cbn; lia]. Qed.
