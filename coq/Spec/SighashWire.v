(* Spec/SighashWire.v — the wire-level view of a transaction on which the two signature-hash
   specifications (Spec/Bip143.v, Spec/LegacySighash.v) are written: byte strings and integers as they
   appear in the Bitcoin transaction format, no library data structure.  Also the abstraction function
   from the library's transaction value to this view (part of the theorem statements). *)
From BSV Require Import Base.Hex Model.Opcodes Model.Script Model.Tx.

Record win := mk_win {
  w_prev_hash : bytes;     (* outpoint hash, in serialisation order *)
  w_prev_n : N;            (* outpoint index *)
  w_script : bytes;        (* scriptSig *)
  w_seq : N                (* nSequence *)
}.
Record wout := mk_wout { w_value : N; w_pk : bytes }.
Record wtx := mk_wtx { w_version : N; w_ins : list win; w_outs : list wout; w_lock : N }.

(* integers: little-endian, fixed width *)
Definition u32le (n : N) : bytes := le_bytes 4 n.
Definition u64le (n : N) : bytes := le_bytes 8 n.

(* CompactSize (Bitcoin protocol documentation): < 0xfd one byte; <= 0xffff: 0xfd + 2 bytes;
   <= 0xffffffff: 0xfe + 4 bytes; otherwise 0xff + 8 bytes *)
Definition compact_size (n : N) : bytes :=
  if (n <? 253)%N then [n2b n]
  else if (n <? 65536)%N then xfd :: le_bytes 2 n
  else if (n <? 4294967296)%N then xfe :: le_bytes 4 n
  else xff :: le_bytes 8 n.
Definition var_bytes (b : bytes) : bytes := compact_size (N.of_nat (length b)) ++ b.

Definition ser_outpoint (i : win) : bytes := w_prev_hash i ++ u32le (w_prev_n i).
Definition ser_in (i : win) : bytes := ser_outpoint i ++ var_bytes (w_script i) ++ u32le (w_seq i).
Definition ser_out (o : wout) : bytes := u64le (w_value o) ++ var_bytes (w_pk o).
Definition ser_tx (t : wtx) : bytes :=
  u32le (w_version t)
  ++ compact_size (N.of_nat (length (w_ins t))) ++ List.concat (map ser_in (w_ins t))
  ++ compact_size (N.of_nat (length (w_outs t))) ++ List.concat (map ser_out (w_outs t))
  ++ u32le (w_lock t).

(* base type and ANYONECANPAY bit of a hash type *)
Definition base_type (ht : N) : N := N.land ht 31.          (* nHashType & 0x1f *)
Definition anyonecanpay (ht : N) : bool := N.testbit ht 7.   (* nHashType & 0x80 *)
Definition forkid_bit (ht : N) : bool := N.testbit ht 6.     (* nHashType & 0x40 *)
Definition BASE_NONE := 2%N.
Definition BASE_SINGLE := 3%N.

(* `f` applied with the position of each element *)
Fixpoint mapi_from {A B} (k : nat) (f : nat -> A -> B) (l : list A) : list B :=
  match l with [] => [] | x :: r => f k x :: mapi_from (S k) f r end.
Definition mapi {A B} (f : nat -> A -> B) (l : list A) : list B := mapi_from 0 f l.

(* ------------------------------------------------------------------ *)
(* abstraction: what a library transaction value denotes on the wire *)
Definition view_in (i : txin) : win :=
  mk_win (rev (prev_tx_id i)) (vout i) (to_bytes (unlocking i)) (sequence i).
Definition view_out (o : txout) : wout := mk_wout (value o) (to_bytes (script_pub_key o)).
Definition view_tx (t : tx) : wtx :=
  mk_wtx (version t) (map view_in (inputs t)) (map view_out (outputs t)) (locktime t).

(* Script values whose flat token view (Proofs/ScriptProofs.flatten) serialises to the same bytes as the
   script itself: direct pushes of at most 75 bytes, OP_PUSHDATAn with one of the three push opcodes,
   conditionals opened by an IF-family opcode, no coinbase blob.  Everything Script::from_bytes returns
   is of this form (Proofs/SighashProofs.from_bytes_plain). *)
Fixpoint plain_bit (b : bit) : bool :=
  let fix plain_bits (l : list bit) : bool :=
    match l with [] => true | x :: r => plain_bit x && plain_bits r end in
  match b with
  | BOp _ => true
  | BPush d => Nat.leb (length d) 75
  | BPushData c _ => (c =? 76)%N || (c =? 77)%N || (c =? 78)%N
  | BIf c p q => is_if c && plain_bits p && match q with None => true | Some q' => plain_bits q' end
  | BCoinbase _ => false
  end.
Fixpoint plain_bits (l : list bit) : bool :=
  match l with [] => true | x :: r => plain_bit x && plain_bits r end.
