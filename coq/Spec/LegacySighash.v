(* Spec/LegacySighash.v — the original Bitcoin signature-hash serialisation (`SignatureHash` with
   `CTransactionSignatureSerializer` of the reference client), written from that algorithm on the
   wire-level view.  The script code is given as its flat element sequence (Spec/ScriptTok.tok). *)
From BSV Require Import Base.Hex Model.Script Spec.ScriptTok Spec.SighashWire.

(* SerializeScriptCode: every OP_CODESEPARATOR (0xab as an opcode, not inside push data) is skipped,
   all other elements are written unchanged and in order *)
Definition is_separator (t : tok) : bool :=
  match t with TOp c => (c =? 171)%N | TPush _ _ => false end.
Definition erase_separators (ts : list tok) : list tok := filter (fun t => negb (is_separator t)) ts.

Definition minus_one_u64 : N := 18446744073709551615%N.     (* CTxOut(): nValue = -1 *)
Definition null_out : wout := mk_wout minus_one_u64 [].

(* `None` where the reference algorithm reports its error value (the constant "one"): no input with that
   index, or SINGLE without an output at that index.  The library refuses these with an error. *)
Definition legacy_preimage (t : wtx) (n_in : nat) (ht : N) (script_code : list tok) : option bytes :=
  let hash_single := (base_type ht =? BASE_SINGLE)%N in
  let hash_none := (base_type ht =? BASE_NONE)%N in
  if Nat.leb (length (w_ins t)) n_in then None
  else if hash_single && Nat.leb (length (w_outs t)) n_in then None
  else
    (* SerializeInput *)
    let ser_input (k : nat) (i : win) : win :=
      mk_win (w_prev_hash i) (w_prev_n i)
             (if Nat.eqb k n_in then toks_bytes (erase_separators script_code) else [])
             (if negb (Nat.eqb k n_in) && (hash_single || hash_none) then 0%N else w_seq i) in
    let all_ins := mapi ser_input (w_ins t) in
    let ins := if anyonecanpay ht then firstn 1 (skipn n_in all_ins) else all_ins in
    (* SerializeOutput *)
    let outs :=
      if hash_none then []
      else if hash_single then
        mapi (fun k o => if Nat.eqb k n_in then o else null_out) (firstn (S n_in) (w_outs t))
      else w_outs t in
    Some (ser_tx (mk_wtx (w_version t) ins outs (w_lock t)) ++ u32le ht).

(* "no separator remains anywhere": no element of the script, at any nesting depth, is the opcode
   OP_CODESEPARATOR (stated on the library's script value, for the codesep_removed theorem) *)
Fixpoint no_separator_bit (b : bit) : bool :=
  let fix no_separator (l : list bit) : bool :=
    match l with [] => true | x :: r => no_separator_bit x && no_separator r end in
  match b with
  | BOp c => negb (c =? 171)%N
  | BIf _ p q => no_separator p && match q with None => true | Some q' => no_separator q' end
  | _ => true
  end.
Fixpoint no_separator_bits (l : list bit) : bool :=
  match l with [] => true | x :: r => no_separator_bit x && no_separator_bits r end.
