(* Spec/Bie1.v — the Electrum "BIE1" ECIES construction, written from its description, independently of
   the library, over the published primitives of Prim/ (SHA-512, HMAC-SHA256, AES-128-CBC with PKCS#7)
   and the abstract curve interface:

     S        = a * B                      (ECDH point of the sender scalar a and the recipient point B)
     iv|kE|kM = SHA-512( compressed S )     (16 | 16 | 32 bytes)
     c        = AES-128-CBC-PKCS7( kE, iv, message )
     payload  = "BIE1" || [ compressed a*G ] || c          (the sender key is left out in "noKey" mode)
     result   = payload || HMAC-SHA256( kM, payload )

   Decryption with the recipient scalar b and the sender point A: the same key schedule from b * A,
   split off the last 32 bytes, compare them with the HMAC of the rest, check the magic, decrypt.
   Electrum reads A from the embedded key; the library under test takes it as an argument, so the
   specification does too (the embedded bytes must then be a valid point and are covered by the MAC). *)
From BSV Require Import Base.Bytes Base.Hex.
From BSV Require Import Prim.Sha512 Prim.Hmac Prim.Aes Model.EcIface.
Local Open Scope Z_scope.

Definition bie1_magic : bytes := [x42; x49; x45; x31].

Section Bie1.
  Variable E : ec_ops.

  Definition compressed (P : ec_pt E) : bytes := ec_enc E true P.

  (* (iv, kE, kM) *)
  Definition key_schedule (S : ec_pt E) : bytes * bytes * bytes :=
    let h := sha512 (compressed S) in
    (firstn 16 h, firstn 16 (skipn 16 h), skipn 32 h).

  (* sealing / opening under a given key schedule (iv, kE, kM); [R] = the sender key bytes to embed, or [] *)
  Definition bie1_seal (keys : bytes * bytes * bytes) (R : bytes) (message : bytes) : bytes :=
    let '(iv, kE, kM) := keys in
    let c := cbc_encrypt kE iv message in
    let payload := bie1_magic ++ R ++ c in
    payload ++ hmac_sha256 kM payload.

  (* the three fields of a serialised ciphertext: embedded key (when present), AES body, MAC *)
  Definition bie1_split (with_key : bool) (data : bytes) : option (option bytes * bytes * bytes) :=
    let hdr := if with_key then 37%nat else 4%nat in
    if Nat.ltb (length data) (hdr + 32) then None
    else if negb (bytes_eqb (firstn 4 data) bie1_magic) then None
    else
      let body := firstn (length data - 32 - hdr) (skipn hdr data) in
      let mac := skipn (length data - 32) data in
      if with_key then
        let R := firstn 33 (skipn 4 data) in
        match ec_dec E R with Some _ => Some (Some R, body, mac) | None => None end
      else Some (None, body, mac).

  Definition bie1_open (keys : bytes * bytes * bytes) (with_key : bool) (data : bytes) : option bytes :=
    let '(iv, kE, kM) := keys in
    let hdr := if with_key then 37%nat else 4%nat in
    if Nat.ltb (length data) (hdr + 32) then None
    else
      let payload := firstn (length data - 32) data in
      let mac := skipn (length data - 32) data in
      if negb (bytes_eqb (firstn 4 payload) bie1_magic) then None
      else if with_key && match ec_dec E (firstn 33 (skipn 4 payload)) with Some _ => false | None => true end then None
      else if negb (bytes_eqb mac (hmac_sha256 kM payload)) then None
      else cbc_decrypt kE iv (skipn hdr payload).

  Definition bie1_encrypt (a : Z) (B : ec_pt E) (with_key : bool) (message : bytes) : option bytes :=
    let S := ec_smul E a B in
    if ec_is_inf E S then None
    else Some (bie1_seal (key_schedule S) (if with_key then compressed (ec_smul E a (ec_G E)) else []) message).

  Definition bie1_decrypt (b : Z) (A : ec_pt E) (with_key : bool) (data : bytes) : option bytes :=
    let S := ec_smul E b A in
    if ec_is_inf E S then None else bie1_open (key_schedule S) with_key data.
End Bie1.
