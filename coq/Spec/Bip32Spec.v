(* Spec/Bip32Spec.v — BIP32 (Hierarchical Deterministic Wallets) written from the text of the BIP,
   independently of the library: conventions, CKDpriv, CKDpub, N, master key generation, key
   identifiers, the 78-byte serialisation with Base58Check, and the path notation.

   Uses only the published primitives of Prim/ (HMAC-SHA512, SHA-256, RIPEMD-160, Base58) and the
   abstract curve interface [ec_ops] (point addition, scalar multiplication, SEC1 compressed form).
   Everything returns [option]: None = "the resulting key is invalid" / "failure" of the BIP.

   Beyond the text: a key at depth 255 has no child (the depth field is one byte).  Where the BIP leaves a
   choice to the caller ("one should proceed with the next value for i") the specification just reports
   the invalid case. *)
From BSV Require Import Base.Bytes Base.Hex.
From BSV Require Import Prim.Sha256 Prim.Sha512 Prim.Ripemd160 Prim.Hmac Prim.Base58 Prim.Secp256k1.
From BSV Require Import Model.EcIface.
Local Open Scope Z_scope.

(* --- Conventions --------------------------------------------------- *)
Definition bip_n : Z := 0xFFFFFFFFFFFFFFFFFFFFFFFFFFFFFFFEBAAEDCE6AF48A03BBFD25E8CD0364141.
Definition ser32 (i : N) : bytes := be_bytes 4 i.
Definition ser256 (p : Z) : bytes := be_bytes 32 (Z.to_N p).
Definition parse256 (bs : bytes) : Z := Z.of_N (be_val bs).
Definition hardened (i : N) : bool := (2 ^ 31 <=? i)%N.
Definition sha256d (b : bytes) : bytes := sha256 (sha256 b).
Definition hash160 (b : bytes) : bytes := ripemd160 (sha256 b).

Definition version_xprv : bytes := [x04; x88; xad; xe4].
Definition version_xpub : bytes := [x04; x88; xb2; x1e].

(* extended private key (k, c) and extended public key (K, c), with the three fields of the
   serialisation format that are not part of the key proper *)
Record sxprv : Type := MkSxprv { sk : Z; sc : bytes; sdepth : N; schild : N; sfp : bytes }.

Section Bip32Spec.
  Variable E : ec_ops.
  Record sxpub : Type := MkSxpub { sK : ec_pt E; sC : bytes; sDepth : N; sChild : N; sFp : bytes }.

  Definition point (p : Z) : ec_pt E := ec_smul E p (ec_G E).
  Definition serP (P : ec_pt E) : bytes := ec_enc E true P.

  (* --- Child key derivation functions -------------------------------- *)
  Definition I_priv (kpar : Z) (cpar : bytes) (i : N) : bytes :=
    if hardened i then hmac_sha512 cpar ([x00] ++ ser256 kpar ++ ser32 i)
    else hmac_sha512 cpar (serP (point kpar) ++ ser32 i).

  Definition CKDpriv (kpar : Z) (cpar : bytes) (i : N) : option (Z * bytes) :=
    let I := I_priv kpar cpar i in
    let IL := firstn 32 I in
    let IR := skipn 32 I in
    let ki := (parse256 IL + kpar) mod bip_n in
    if (bip_n <=? parse256 IL) || (ki =? 0) then None else Some (ki, IR).

  Definition I_pub (Kpar : ec_pt E) (cpar : bytes) (i : N) : bytes :=
    hmac_sha512 cpar (serP Kpar ++ ser32 i).

  Definition CKDpub (Kpar : ec_pt E) (cpar : bytes) (i : N) : option (ec_pt E * bytes) :=
    if hardened i then None
    else
      let I := I_pub Kpar cpar i in
      let IL := firstn 32 I in
      let IR := skipn 32 I in
      let Ki := ec_add E (point (parse256 IL)) Kpar in
      if (bip_n <=? parse256 IL) || ec_is_inf E Ki then None else Some (Ki, IR).

  (* --- Key identifiers ----------------------------------------------- *)
  Definition identifier (K : ec_pt E) : bytes := hash160 (serP K).
  Definition fingerprint (K : ec_pt E) : bytes := firstn 4 (identifier K).

  (* --- Master key generation ----------------------------------------- *)
  Definition master (S : bytes) : option sxprv :=
    let I := hmac_sha512 (bytes_of_string "Bitcoin seed") S in
    let IL := firstn 32 I in
    let IR := skipn 32 I in
    if (parse256 IL =? 0) || (bip_n <=? parse256 IL) then None
    else Some (MkSxprv (parse256 IL) IR 0 0 [x00; x00; x00; x00]).

  (* --- Children with their serialisation metadata --------------------- *)
  Definition child_priv (x : sxprv) (i : N) : option sxprv :=
    match CKDpriv (sk x) (sc x) i with
    | None => None
    | Some (ki, ci) =>
        if (255 <=? sdepth x)%N then None
        else Some (MkSxprv ki ci (sdepth x + 1)%N i (fingerprint (point (sk x))))
    end.

  Definition child_pub (x : sxpub) (i : N) : option sxpub :=
    match CKDpub (sK x) (sC x) i with
    | None => None
    | Some (Ki, ci) =>
        if (255 <=? sDepth x)%N then None
        else Some (MkSxpub Ki ci (sDepth x + 1)%N i (fingerprint (sK x)))
    end.

  (* N((k, c)) = (point(k), c) *)
  Definition neuter (x : sxprv) : sxpub :=
    MkSxpub (point (sk x)) (sc x) (sdepth x) (schild x) (sfp x).

  (* --- Serialization format ------------------------------------------ *)
  Definition payload_priv (x : sxprv) : bytes :=
    version_xprv ++ [n2b (sdepth x)] ++ sfp x ++ ser32 (schild x) ++ sc x ++ [x00] ++ ser256 (sk x).
  Definition payload_pub (x : sxpub) : bytes :=
    version_xpub ++ [n2b (sDepth x)] ++ sFp x ++ ser32 (sChild x) ++ sC x ++ serP (sK x).
  Definition serialize_priv (x : sxprv) : string := b58check_encode sha256d (payload_priv x).
  Definition serialize_pub (x : sxpub) : string := b58check_encode sha256d (payload_pub x).

  (* reading a serialised key: Base58Check, 78 bytes, the right version, (private) padding byte 0 and a
     key in 1..n-1, (public) a valid compressed point *)
  Definition sub (a len : nat) (bs : bytes) : bytes := firstn len (skipn a bs).

  (* a key at depth 0 has no parent: fingerprint 00000000 and child number 0 (BIP32 test vector 5) *)
  Definition master_fields_bad (p : bytes) : bool :=
    bytes_eqb (sub 4 1 p) [x00] && negb (bytes_eqb (sub 5 8 p) (repeat x00 8)).

  Definition parse_priv (s : string) : option sxprv :=
    match b58check_decode sha256d s with
    | None => None
    | Some p =>
        if negb (Nat.eqb (length p) 78) then None
        else if negb (bytes_eqb (sub 0 4 p) version_xprv) then None
        else if negb (bytes_eqb (sub 45 1 p) [x00]) then None
        else if master_fields_bad p then None
        else
          let k := parse256 (sub 46 32 p) in
          if (k =? 0) || (bip_n <=? k) then None
          else Some (MkSxprv k (sub 13 32 p) (be_val (sub 4 1 p)) (be_val (sub 9 4 p)) (sub 5 4 p))
    end.

  Definition parse_pub (s : string) : option sxpub :=
    match b58check_decode sha256d s with
    | None => None
    | Some p =>
        if negb (Nat.eqb (length p) 78) then None
        else if negb (bytes_eqb (sub 0 4 p) version_xpub) then None
        else if master_fields_bad p then None
        else
          match ec_dec E (sub 45 33 p) with
          | None => None
          | Some K => Some (MkSxpub K (sub 13 32 p) (be_val (sub 4 1 p)) (be_val (sub 9 4 p)) (sub 5 4 p))
          end
    end.

  (* --- Derivation along a list of child numbers ----------------------- *)
  Fixpoint descend_priv (x : sxprv) (path : list N) : option sxprv :=
    match path with
    | [] => Some x
    | i :: r => match child_priv x i with Some y => descend_priv y r | None => None end
    end.
  Fixpoint descend_pub (x : sxpub) (path : list N) : option sxpub :=
    match path with
    | [] => Some x
    | i :: r => match child_pub x i with Some y => descend_pub y r | None => None end
    end.
End Bip32Spec.

(* --- Path notation --------------------------------------------------
   "m" or "M", then for every level "/" and a decimal child number below 2^31, followed by one of
   ' h H for a hardened child (the BIP writes i_H or i'; h/H are the common ASCII spellings).
   A small character automaton, independent of the library's split/trim formulation. *)
Definition is_digit (c : ascii) : bool :=
  let n := N_of_ascii c in (48 <=? n)%N && (n <=? 57)%N.

(* state: completed child numbers (reversed), and the component being read:
   None = just after '/', Some (v, closed) = digits read so far, closed after a hardening mark *)
Fixpoint std_path_go (l : list ascii) (acc : list N) (cur : option (N * bool)) : option (list N) :=
  match l with
  | [] => match cur with
          | Some (v, _) => if (v <? 2 ^ 31 + 2 ^ 31)%N then Some (rev (v :: acc)) else None
          | None => None
          end
  | c :: r =>
      if Ascii.eqb c "/"%char then
        match cur with
        | Some (v, _) => std_path_go r (v :: acc) None
        | None => None
        end
      else if is_digit c then
        match cur with
        | Some (v, true) => None
        | Some (v, false) =>
            let v' := (10 * v + (N_of_ascii c - 48))%N in
            if (v' <? 2 ^ 31)%N then std_path_go r acc (Some (v', false)) else None
        | None => std_path_go r acc (Some ((N_of_ascii c - 48)%N, false))
        end
      else if Ascii.eqb c "'"%char || Ascii.eqb c "h"%char || Ascii.eqb c "H"%char then
        match cur with
        | Some (v, false) => std_path_go r acc (Some ((v + 2 ^ 31)%N, true))
        | _ => None
        end
      else None
  end.

Definition std_path (p : list ascii) : option (list N) :=
  match p with
  | c :: r =>
      if Ascii.eqb c "m"%char || Ascii.eqb c "M"%char then
        match r with
        | [] => Some []
        | s :: r' => if Ascii.eqb s "/"%char then std_path_go r' [] None else None
        end
      else None
  | [] => None
  end.

(* --- The path language the library accepts ---------------------------
   Not part of the standard: the explicit description of what derive_from_path really reads, proved
   equal to the implementation model's parser in Proofs/Bip32PathProofs.v (C08_path_grammar).
   It is a superset of the standard notation above (C08_std_paths_ok); the additional strings are read
   as the evident standard path (no key other than the one of that path can result), except that the bare
   "m" is refused. *)
Definition dec_value (ds : list ascii) : N :=
  fold_left (fun a c => (10 * a + (N_of_ascii c - 48))%N) ds 0%N.

(* one component:  [+] digit+ H* h* '*   with value below 2^31; hardened iff a mark is present *)
Definition path_component (x : list ascii) (i : N) : Prop :=
  exists plus ds a b c,
    x = plus ++ ds ++ repeat "H"%char a ++ repeat "h"%char b ++ repeat "'"%char c /\
    (plus = [] \/ plus = ["+"%char]) /\ ds <> [] /\ Forall (fun ch => is_digit ch = true) ds /\
    (dec_value ds < 2147483648)%N /\
    i = (if Nat.eqb (a + b + c) 0 then dec_value ds else dec_value ds + 2147483648)%N.

(* after the leading m / M: components separated by one or more '/', optional '/' at both ends *)
Inductive path_body : list ascii -> list N -> Prop :=
| pb_nil : path_body [] []
| pb_slash s idx : path_body s idx -> path_body ("/"%char :: s) idx
| pb_last x i : path_component x i -> path_body x [i]
| pb_cons x i s idx : path_component x i -> path_body s idx -> path_body (x ++ "/"%char :: s) (i :: idx).

Definition path_language (p : list ascii) (idx : list N) : Prop :=
  exists c s, p = c :: s /\ (c = "m"%char \/ c = "M"%char) /\ path_body s idx /\ idx <> [].
