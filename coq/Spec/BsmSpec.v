(* Spec/BsmSpec.v — what property C12 prescribes, written from the references only (Prim/, Spec/TxWire.v):
   the digest of a Bitcoin Signed Message, the deterministic signature over it, its 65-byte compact form,
   and reference verification against a (prefix, hash160) address. Independent of Model/. *)
From BSV Require Import Base.Bytes Base.Hex.
From BSV Require Import Prim.Num Prim.Secp256k1 Prim.Sha256 Prim.Ripemd160 Prim.Hmac Prim.Rfc6979 Spec.TxWire.
Local Open Scope Z_scope.

(* "Bitcoin Signed Message:\n" *)
Definition bsm_magic : bytes :=
  [x42; x69; x74; x63; x6f; x69; x6e; x20; x53; x69; x67; x6e; x65; x64; x20; x4d; x65; x73; x73; x61; x67; x65; x3a; x0a].

(* compact(24) || magic || compact(|msg|) || msg *)
Definition bsm_preimage (msg : bytes) : bytes :=
  compact 24 ++ bsm_magic ++ compact (N.of_nat (length msg)) ++ msg.

Definition bsm_digest (msg : bytes) : bytes := sha256 (sha256 (bsm_preimage msg)).

(* header byte of the compact form: 27 + recovery id (+ 4 for a compressed key) *)
Definition bsm_header (y_odd compressed : bool) : byte :=
  n2b (27 + (if y_odd then 1 else 0) + (if compressed then 4 else 0))%N.

Definition bsm_compact (r s : Z) (y_odd compressed : bool) : bytes :=
  bsm_header y_odd compressed :: be32 r ++ be32 s.

(* RFC 6979 (HMAC-SHA256) deterministic ECDSA over the digest, execution instance *)
Definition bsm_sign_spec (d : Z) (compressed : bool) (msg : bytes) : option bytes :=
  match sign_digest_det_fast hmac_sha256 d (bsm_digest msg) with
  | Some (r, s, v) => Some (bsm_compact r s v compressed)
  | None => None
  end.
