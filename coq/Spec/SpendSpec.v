(* Spec/SpendSpec.v — what property C15 demands of OP_CHECKSIG / OP_CHECKMULTISIG, written independently
   of the interpreter: on the wire-level view of the spending transaction (Spec/SighashWire.v), the flat
   elements of the two scripts as the independent tokenizer reads them (Spec/ScriptTok.v), the two
   signature-hash specifications (Spec/Bip143.v, Spec/LegacySighash.v) and the published primitives
   (DER, SEC1, ECDSA verification).  No interpreter state, no stack machine.

   A signature element is `DER(r, s) || flag byte`.  It is VALID for a public-key element when
     * the flag byte is one of the twelve standard hash types,
     * the signature hash of (transaction, input index, flag, script code, amount) is defined, where the script
       code is the part of the locking script after the last OP_CODESEPARATOR that precedes the signature
       check, and the amount is the declared value of the spent output,
     * the DER part is a strict encoding of (r, s), the key element is a SEC1 encoding of a curve point Q,
     * ECDSA verification of (r, s) under Q on z = H(preimage) (big-endian, reduced mod n) succeeds. *)
From BSV Require Import Base.Bytes Base.Hex.
From BSV Require Import Prim.Secp256k1 Prim.Der Model.Opcodes Spec.ScriptTok Spec.SighashWire Spec.Bip143 Spec.LegacySighash.

Definition std_forkid_flags : list N := [65; 66; 67; 193; 194; 195]%N.     (* {ALL,NONE,SINGLE} x {-,ANYONECANPAY} | FORKID *)
Definition std_legacy_flags : list N := [1; 2; 3; 129; 130; 131]%N.         (* the same without FORKID *)
Definition mem_N (f : N) (l : list N) : bool := existsb (N.eqb f) l.

(* the signature-checking opcodes *)
Definition is_check (t : tok) : bool :=
  match t with TOp c => (c =? 172)%N || (c =? 173)%N || (c =? 174)%N || (c =? 175)%N | TPush _ _ => false end.

(* script code: the suffix of the locking script that starts after the last OP_CODESEPARATOR preceding the
   first signature-checking opcode (all of it when there is none) *)
Fixpoint code_of (start ts : list tok) : list tok :=
  match ts with
  | [] => start
  | t :: r => if is_check t then start else if is_separator t then code_of r r else code_of start r
  end.
Definition script_code (lock : list tok) : list tok := code_of lock lock.

(* ------------------------------------------------------------------ *)
(* order-preserving matching of signatures to keys *)
Section Matching.
  Context {A B : Type}.

  (* every signature is valid for a key, the chosen keys are distinct and in the order of the signatures:
     the signatures are matched to a subsequence of the keys *)
  Inductive ms_ok (valid : A -> B -> Prop) : list A -> list B -> Prop :=
  | ms_done ks : ms_ok valid [] ks
  | ms_take s rs k ks : valid s k -> ms_ok valid rs ks -> ms_ok valid (s :: rs) (k :: ks)
  | ms_skip s rs k ks : ms_ok valid (s :: rs) ks -> ms_ok valid (s :: rs) (k :: ks).

  (* the same said with the chosen keys: an order-preserving injection of the signatures into the keys is a
     subsequence `sel` of the keys (distinct positions, same order), one key per signature, every pair valid *)
  Inductive subseq : list B -> list B -> Prop :=
  | sub_nil l : subseq [] l
  | sub_take x s l : subseq s l -> subseq (x :: s) (x :: l)
  | sub_skip x s l : subseq s l -> subseq s (x :: l).
  Definition ms_injection (valid : A -> B -> Prop) (sigs : list A) (keys : list B) : Prop :=
    exists sel : list B, subseq sel keys /\ Forall2 valid sigs sel.

  (* decision by exhaustive search (NOT the greedy scan of the library) *)
  Fixpoint ms_search (valid : A -> B -> bool) (sigs : list A) (keys : list B) : bool :=
    match sigs with
    | [] => true
    | s :: rs =>
        (fix go (ks : list B) : bool :=
           match ks with
           | [] => false
           | k :: ks' => if valid s k then (if ms_search valid rs ks' then true else go ks') else go ks'
           end) keys
    end.
End Matching.

(* ------------------------------------------------------------------ *)
Section Spend.
  Variable H : bytes -> bytes.                            (* double SHA-256 *)
  Variable H160 : bytes -> bytes.                         (* RIPEMD-160 of SHA-256 *)
  Variable decode : bytes -> option point.                (* SEC1 *)
  Variable verify : point -> Z -> Z * Z -> bool.          (* ECDSA verification primitive *)

  (* the message a signature with hash type ht has to sign *)
  Definition sighash_spec (t : wtx) (n_in : nat) (ht : N) (code : list tok) (amount : N) : option bytes :=
    if mem_N ht std_forkid_flags then
      if single_without_output t n_in ht then None
      else bip143_preimage H t n_in ht (toks_bytes code) amount
    else if mem_N ht std_legacy_flags then legacy_preimage t n_in ht code
    else None.

  (* signature element = DER part ++ [flag byte] *)
  Definition split_sig (sg : bytes) : option (bytes * N) :=
    match rev sg with [] => None | b :: r => Some (rev r, b2n b) end.

  Definition digest_scalar (pre : bytes) : Z := (be_Z (H pre) mod secp_n)%Z.

  (* message scalar and (r, s) of a signature element; None when it cannot be valid for any key *)
  Definition sig_data (t : wtx) (n_in : nat) (code : list tok) (amount : N) (sg : bytes) : option (Z * (Z * Z)) :=
    match split_sig sg with
    | None => None
    | Some (der, ht) =>
        match sighash_spec t n_in ht code amount with
        | None => None
        | Some pre =>
            match der_decode der with
            | None => None
            | Some rs => Some (digest_scalar pre, rs)
            end
        end
    end.
  Definition data_valid (zr : option (Z * (Z * Z))) (pk : bytes) : bool :=
    match zr with
    | None => false
    | Some (z, rs) => match decode pk with None => false | Some Q => verify Q z rs end
    end.
  Definition sig_valid (t : wtx) (n_in : nat) (code : list tok) (amount : N) (sg pk : bytes) : bool :=
    data_valid (sig_data t n_in code amount sg) pk.

  (* ---------------------------------------------------------------- *)
  (* the three families, read off the locking script with its separators erased *)
  Inductive family :=
  | FP2PK (pk : bytes)
  | FP2PKH (h : bytes)
  | FMS (m : nat) (keys : list bytes).

  Definition small_int (t : tok) : option nat :=            (* OP_1 .. OP_16 *)
    match t with
    | TOp c => if (81 <=? c)%N && (c <=? 96)%N then Some (N.to_nat (c - 80)) else None
    | TPush _ _ => None
    end.
  Fixpoint take_pushes (ts : list tok) : list bytes * list tok :=
    match ts with
    | TPush _ d :: r => let '(ds, rest) := take_pushes r in (d :: ds, rest)
    | _ => ([], ts)
    end.

  (* the element sequence of a family member (separators erased); pushes are direct pushes (push opcode = length).
     vf: the checking opcode is the VERIFY form followed by OP_1 *)
  Definition push_tok (d : bytes) : tok := TPush (N.of_nat (length d)) d.
  Definition tail_toks (chk : N) (vf : bool) : list tok := if vf then [TOp (chk + 1); TOp 81] else [TOp chk].
  Definition shape (fam : family) (vf : bool) : list tok :=
    match fam with
    | FP2PK pk => push_tok pk :: tail_toks 172 vf
    | FP2PKH h => [TOp 118; TOp 169; push_tok h; TOp 136] ++ tail_toks 172 vf
    | FMS m keys => TOp (80 + N.of_nat m) :: map push_tok keys ++ [TOp (80 + N.of_nat (length keys))] ++ tail_toks 174 vf
    end.

  Definition tok_eqb (a b : tok) : bool :=
    match a, b with
    | TOp x, TOp y => (x =? y)%N
    | TPush c d, TPush c' d' => (c =? c')%N && bytes_eqb d d'
    | _, _ => false
    end.
  Fixpoint toks_eqb (a b : list tok) : bool :=
    match a, b with
    | [], [] => true
    | x :: r, y :: r' => tok_eqb x y && toks_eqb r r'
    | _, _ => false
    end.

  (* which family the first elements point to; the whole sequence is then compared with the family's shape *)
  Definition guess (core : list tok) : option family :=
    match core with
    | TPush _ pk :: _ => Some (FP2PK pk)
    | TOp 118 :: _ :: TPush _ h :: _ => Some (FP2PKH h)
    | tm :: r => match small_int tm with Some m => Some (FMS m (fst (take_pushes r))) | None => None end
    | [] => None
    end.
  Definition family_ok (fam : family) : bool :=
    match fam with
    | FMS m keys => Nat.leb 1 m && Nat.leb m (length keys) && Nat.leb (length keys) 16
    | _ => true
    end.
  Definition recognise (lock : list tok) : option (family * bool) :=
    let core := erase_separators lock in
    match guess core with
    | None => None
    | Some fam =>
        if negb (family_ok fam) then None
        else if toks_eqb core (shape fam false) then Some (fam, false)
        else if toks_eqb core (shape fam true) then Some (fam, true)
        else None
    end.

  (* push-only unlocking script: the elements it leaves on the stack, bottom first *)
  Fixpoint pushed_items (ts : list tok) : option (list bytes) :=
    match ts with
    | [] => Some []
    | TPush _ d :: r => option_map (cons d) (pushed_items r)
    | TOp 0 :: r => option_map (cons []) (pushed_items r)
    | _ => None
    end.

  Inductive verdict := Accept | Reject | AcceptOrReject | Unspecified.

  (* a flag byte the property does not speak about (the enum values FORKID and ANYONECANPAY on their own),
     or SINGLE|FORKID without an output at the index (the difference C03 permits) *)
  Definition outside (t : wtx) (n_in : nat) (sg : bytes) : bool :=
    match split_sig sg with
    | None => false
    | Some (_, ht) =>
        (ht =? 64)%N || (ht =? 128)%N || (mem_N ht std_forkid_flags && single_without_output t n_in ht)
    end.

  Definition of_bool (b : bool) : verdict := if b then Accept else Reject.

  (* what the property demands for: transaction, input index, declared amount, locking and unlocking script *)
  Definition expected (t : wtx) (n_in : nat) (amount : N) (lock unlock : list tok) : verdict * bool :=
    match recognise lock, pushed_items unlock with
    | Some (fam, vf), Some items =>
        let code := script_code lock in
        let valid := sig_valid t n_in code amount in
        (match fam, items with
         | FP2PK pk, [sg] => if outside t n_in sg then Unspecified else of_bool (valid sg pk)
         | FP2PKH h, [sg; pk] =>
             if outside t n_in sg then Unspecified
             else if bytes_eqb (H160 pk) h then of_bool (valid sg pk) else Reject
         | FMS m keys, _ :: sigs =>
             if negb (Nat.eqb (length sigs) m) then Unspecified
             else if existsb (outside t n_in) sigs then Unspecified
             else
               let datas := map (sig_data t n_in code amount) sigs in
               if ms_search data_valid datas keys then
                 (* a byte string that is not a public key among the keys: the script as a whole may be refused *)
                 if forallb (fun k => match decode k with Some _ => true | None => false end) keys
                 then Accept else AcceptOrReject
               else Reject
         | _, _ => Unspecified
         end, vf)
    | _, _ => (Unspecified, false)
    end.
End Spend.
